(* C12 — the property for `eval_full` (deep evaluation) and `:query` as the observed input:
   the drivers [force] and [query] of Machine.v, run in a session after any history, agree with
   the call-by-name meanings [sfull] and [squery] of the stand-alone program. *)
From Coq Require Import String ZArith List Bool Arith Lia.
Import ListNotations.
From NV Require Import Mech.Syntax Mech.Machine Mech.Spec Mech.Invariants Mech.SpecFacts Mech.Refine.
Open Scope string_scope.
Open Scope list_scope.

(* ---------------------------------------------------------------- generic facts on meanings *)

(* two fuel-indexed meanings terminate together, with the same result *)
Definition equiterm {A} (a b : nat -> res A) : Prop :=
  (forall n, b n <> OOF -> exists m, a m = b n) /\ (forall n, a n <> OOF -> exists m, b m = a n).

Lemma linked_equiterm a b : linked a b -> equiterm a b.
Proof.
  intros [F B]. split; auto. intros n H. destruct (F n) as [E|E]; [congruence|]. eauto.
Qed.

Lemma equiterm_refl {A} (a : nat -> res A) : equiterm a a.
Proof. split; eauto. Qed.

Lemma equiterm_trans {A} (a b c : nat -> res A) : equiterm a b -> equiterm b c -> equiterm a c.
Proof.
  intros [B1 F1] [B2 F2]. split.
  - intros n H. destruct (B2 n H) as (m & E). rewrite <- E in H |- *. apply B1; auto.
  - intros n H. destruct (F1 n H) as (m & E). rewrite <- E in H |- *. apply F2; auto.
Qed.

Lemma equiterm_sym {A} (a b : nat -> res A) : equiterm a b -> equiterm b a.
Proof. intros [B F]. split; auto. Qed.

(* outcome of a machine-level computation against a meaning *)
Definition res_ok {A B} (R : A -> B -> Prop) (spec : nat -> res B) (r : res A) : Prop :=
  match r with
  | Val a => exists b m, R a b /\ spec m = Val b
  | Err e => (e = EInfRec -> forall n, spec n = OOF) /\ (e <> EInfRec -> exists m, spec m = Err e)
  | OOF => True
  end.

Lemma result_ok_res_ok root G r : result_ok root G r <-> res_ok (val_rel G) root r.
Proof. destruct r; cbn; tauto. Qed.

Lemma res_ok_equiterm {A B} (R : A -> B -> Prop) a b r :
  equiterm a b -> res_ok R b r -> res_ok R a r.
Proof.
  intros [Bw Fw] H. destruct r as [x|e|]; cbn in *; auto.
  - destruct H as (y & m & H1 & H2). destruct (Bw m) as (m' & E); [rewrite H2; discriminate|].
    exists y, m'. split; auto. congruence.
  - destruct H as [H1 H2]. split.
    + intros -> n. destruct (a n) eqn:E; auto; exfalso;
        (destruct (Fw n) as (m & E'); [rewrite E; discriminate|]); rewrite H1 in E'; auto; rewrite E in E'; discriminate.
    + intros N. destruct (H2 N) as (m & E). destruct (Bw m) as (m' & E'); [rewrite E; discriminate|].
      exists m'. congruence.
Qed.

Lemma res_ok_weaken {A B} (R R' : A -> B -> Prop) spec r :
  (forall a b, R a b -> R' a b) -> res_ok R spec r -> res_ok R' spec r.
Proof.
  intros H. destruct r; cbn; auto. intros (b & m & H1 & H2). eauto.
Qed.

Definition mono {A} (a : nat -> res A) : Prop :=
  forall n, a n <> OOF -> forall m, n <= m -> a m = a n.

Lemma mono_det {A} (a : nat -> res A) n m : mono a -> a n <> OOF -> a m <> OOF -> a n = a m.
Proof.
  intros M Hn Hm. destruct (Nat.le_ge_cases n m) as [L|L].
  - symmetry. now apply M.
  - now apply M.
Qed.

(* sequencing: the meaning [bind (a n) (f n)] against a two-stage computation *)
Lemma res_ok_bind_err {A B C} (R : A -> C -> Prop) (a : nat -> res B) (f : nat -> B -> res C) e :
  ((e = EInfRec -> forall n, a n = OOF) /\ (e <> EInfRec -> exists m, a m = Err e)) ->
  res_ok R (fun n => bind (a n) (f n)) (Err e).
Proof.
  intros [H1 H2]. split.
  - intros E n. now rewrite (H1 E n).
  - intros N. destruct (H2 N) as (m & E). exists m. now rewrite E.
Qed.

Lemma res_ok_bind_val {A B C} (R : A -> C -> Prop) (a : nat -> res B) (f : nat -> B -> res C) b m0 r :
  mono a ->
  a m0 = Val b ->
  mono (fun n => f n b) ->
  res_ok R (fun n => f n b) r ->
  res_ok R (fun n => bind (a n) (f n)) r.
Proof.
  intros Ma Ea Mf H. destruct r as [x|e|]; cbn in *; auto.
  - destruct H as (y & m & H1 & H2). exists y, (Nat.max m0 m). split; auto.
    rewrite (Ma m0) by (try lia; rewrite Ea; discriminate). rewrite Ea. cbn.
    rewrite <- H2. apply (Mf m); [rewrite H2; discriminate | lia].
  - destruct H as [H1 H2]. split.
    + intros E n. destruct (a n) as [b'|e'|] eqn:En; auto; cbn.
      * assert (HH : Val b' = Val b) by (rewrite <- En, <- Ea; apply mono_det; auto; [rewrite En|rewrite Ea]; discriminate).
        inversion HH; subst. now apply H1.
      * exfalso. assert (HH : @Err B e' = Val b) by (rewrite <- En, <- Ea; apply mono_det; auto; [rewrite En|rewrite Ea]; discriminate).
        discriminate.
    + intros N. destruct (H2 N) as (m & E). exists (Nat.max m0 m).
      rewrite (Ma m0) by (try lia; rewrite Ea; discriminate). rewrite Ea. cbn.
      rewrite <- E. apply (Mf m); [rewrite E; discriminate | lia].
Qed.

(* ---------------------------------------------------------------- monotonicity of the deep meanings *)

Lemma seval_is_mono t r : mono (fun n => seval n t r).
Proof. intros n H m L. now apply seval_mono. Qed.

Lemma squery_mono path : forall c, mono (fun n => squery n c path).
Proof.
  induction path as [|f path IH]; intros [t r] n H m L; cbn in *.
  - pose proof (bind_not_oof _ _ H) as H1. rewrite (seval_mono _ _ _ H1 _ L). reflexivity.
  - pose proof (bind_not_oof _ _ H) as H1. rewrite (seval_mono _ _ _ H1 _ L).
    destruct (seval n t r) as [v| |]; cbn in *; auto.
    destruct v as [| | |fs]; auto. destruct (assoc fs f) as [[cf bb]|]; auto.
    apply (IH cf n H m L).
Qed.

Lemma force_fields_mono (g : nat -> sclos -> res data) fs :
  (forall cf, mono (fun n => g n cf)) ->
  mono (fun n => force_fields (g n) fs).
Proof.
  induction fs as [|[f [cf bb]] fs IH]; intros Mg n H m L; cbn in *; auto.
  pose proof (bind_not_oof _ _ H) as H1.
  rewrite (IH Mg n H1 m L).
  destruct (force_fields (g n) fs) as [ds| |]; cbn in *; auto.
  pose proof (bind_not_oof _ _ H) as H2. rewrite (Mg cf n H2 m L). reflexivity.
Qed.

Lemma sforce_mono : forall n v, sforce n v <> OOF -> forall m, n <= m -> sforce m v = sforce n v.
Proof.
  induction n as [|n IH]; intros v H m L; [cbn in H; congruence|].
  destruct m as [|m]; [lia|]. assert (L' : n <= m) by lia.
  destruct v as [| | |fs0]; cbn in *; auto.
  pose proof (bind_not_oof _ _ H) as H1.
  assert (E : forall fs,
             force_fields (fun cf => bind (seval n (fst cf) (snd cf)) (sforce n)) fs <> OOF ->
             force_fields (fun cf => bind (seval m (fst cf) (snd cf)) (sforce m)) fs
             = force_fields (fun cf => bind (seval n (fst cf) (snd cf)) (sforce n)) fs).
  { induction fs as [|[f [cf bb]] fs IHfs]; cbn; auto.
    intros G1. pose proof (bind_not_oof _ _ G1) as G2. rewrite (IHfs G2).
    destruct (force_fields _ fs) as [ds| |]; cbn in *; auto.
    pose proof (bind_not_oof _ _ G1) as G3. pose proof (bind_not_oof _ _ G3) as G4.
    rewrite (seval_mono _ _ _ G4 _ L').
    destruct (seval n (fst cf) (snd cf)) as [v| |]; cbn in *; auto.
    rewrite (IH v) by (auto; eapply bind_not_oof; eauto). reflexivity. }
  now rewrite (E fs0 H1).
Qed.

Lemma sfull_mono c : mono (fun n => sfull n c).
Proof.
  destruct c as [t r]. intros n H m L. unfold sfull in *. cbn [fst snd] in *.
  pose proof (bind_not_oof _ _ H) as H1. rewrite (seval_mono _ _ _ H1 _ L).
  destruct (seval n t r) as [v| |]; cbn in *; auto. now apply sforce_mono.
Qed.

(* ---------------------------------------------------------------- entering a field's thunk *)

Lemma equiterm_ptr {A} (k : nat -> sval -> res A) ef re :
  (forall v, mono (fun n => k n v)) ->
  equiterm (fun n => bind (seval n ef re) (k n))
           (fun n => bind (sden (SC (Var "%") (ECons "%" ef re ENil)) [] n) (k n)).
Proof.
  intros Mk.
  assert (E : forall n, sden (SC (Var "%") (ECons "%" ef re ENil)) [] (S n) = seval n ef re).
  { intros n. rewrite sden_SC_nil, seval_var. reflexivity. }
  split.
  - intros [|n] H; [cbn in H; congruence|]. rewrite E in *.
    exists (S n). pose proof (bind_not_oof _ _ H) as H1.
    rewrite (seval_mono _ _ _ H1 (S n)) by lia. destruct (seval n ef re); auto.
  - intros n H. exists (S n). rewrite E. pose proof (bind_not_oof _ _ H) as H1.
    destruct (seval n ef re) as [v| |]; cbn in *; auto. apply (Mk v n); auto.
Qed.

(* ---------------------------------------------------------------- :query *)

Lemma val_rel_ext' G G' : ext G G' -> forall w v, val_rel G w v -> val_rel G' w v.
Proof. intros E w v. now apply val_rel_ext. Qed.

Lemma query_sound path : forall k G h c sc t rt r fr h' k',
  heap_ok G h -> clean h -> ctrl_rel G c sc ->
  equiterm (fun n => seval n t rt) (sden sc []) ->
  query k h c path = (r, (fr, h', k')) ->
  exists G', ext G G' /\ res_ok (val_rel G') (fun n => squery n (t, rt) path) r.
Proof.
  induction path as [|f path IH]; intros k G h c sc t rt r fr h' k' H C R EQ E; cbn in E;
    destruct (run k (mkcfg c [] h)) as [[r0 cf] k0] eqn:Er;
    destruct (run_session _ _ _ _ _ _ _ _ H C R Er) as (G1 & X1 & H1 & B1 & RO);
    apply result_ok_res_ok in RO; apply (res_ok_equiterm _ _ _ _ EQ) in RO.
  - (* no path left: the value itself *)
    exists G1. split; auto.
    assert (EE : equiterm (fun n => squery n (t, rt) []) (fun n => seval n t rt)).
    { split; intros n Hn; exists n; cbn; now rewrite bind_val'. }
    eapply res_ok_equiterm; [exact EE|].
    destruct r0; inversion E; subst; auto.
  - destruct r0 as [w|e|].
    3:{ inversion E; subst. exists G1. split; [auto|exact Logic.I]. }
    2:{ inversion E; subst. exists G1. split; auto. cbn [squery fst snd].
        apply res_ok_bind_err. exact RO. }
    pose proof (run_val_clean _ _ _ _ _ _ C Er) as C1.
    destruct RO as (v & m & VR & Em).
    assert (HEAD : forall r1 G2, ext G1 G2 ->
              res_ok (val_rel G2)
                     (fun n => match v with
                               | VRec fs =>
                                   match assoc fs f with
                                   | Some (cf, _) => squery n cf path
                                   | None => Err EFieldMissing
                                   end
                               | _ => Err EQueryNonRecord
                               end) r1 ->
              res_ok (val_rel G2) (fun n => squery n (t, rt) (f :: path)) r1).
    { intros r1 G2 X2 HR. cbn [squery fst snd].
      apply (res_ok_bind_val (val_rel G2) (fun n => seval n t rt)
               (fun n v' => match v' with
                            | VRec fs =>
                                match assoc fs f with
                                | Some (cf, _) => squery n cf path
                                | None => Err EFieldMissing
                                end
                            | _ => Err EQueryNonRecord
                            end) v m r1); auto using seval_is_mono.
      - destruct v as [| | |fs]; try (intros ? ? ? ?; reflexivity).
        destruct (assoc fs f) as [[cf0 bb0]|]; [apply squery_mono|intros ? ? ? ?; reflexivity]. }
    destruct w as [wc we]. cbn [fst] in E. destruct wc as [tw|fl].
    + inversion E; subst. exists G1. split; auto. apply HEAD; auto using ext_refl.
      inversion VR; subst; (split; [discriminate|intros _; exists 0; reflexivity]).
    + inversion VR as [| | |fl0 env0 fs FRl]; subst.
      pose proof (fields_assoc G1 f fl fs FRl) as FA.
      destruct (assoc fl f) as [[l bb]|].
      * destruct FA as ([ef re] & A1 & GL).
        destruct (IH k0 G1 (hp cf) (ptr l) (SC (Var "%") (ECons "%" ef re ENil)) ef re
                     r fr h' k' H1 C1) as (G2 & X2 & R2); auto.
        { constructor. now apply env_rel_ptr. }
        { pose proof (equiterm_ptr (fun _ v => Val v) ef re ltac:(intros ? ? ? ? ?; reflexivity)) as Q.
          destruct Q as [Q1 Q2]. split; intros n Hn.
          - destruct (Q1 n) as (m' & Em'); [now rewrite bind_val'|]. exists m'. now rewrite !bind_val' in Em'.
          - destruct (Q2 n) as (m' & Em'); [now rewrite bind_val'|]. exists m'. now rewrite !bind_val' in Em'. }
        exists G2. split; [eauto using ext_trans|]. apply HEAD; auto. now rewrite A1.
      * inversion E; subst. exists G1. split; auto. apply HEAD; auto using ext_refl. rewrite FA.
        split; [discriminate|intros _; exists 0; reflexivity].
Qed.

(* ---------------------------------------------------------------- eval_full *)

Definition res_map {A B} (f : A -> B) (r : res A) : res B :=
  match r with Val a => Val (f a) | Err e => Err e | OOF => OOF end.

Lemma map_res_eq {A B} (f : A -> B) (r : res A) (x : frc) : map_res f (r, x) = (res_map f r, x).
Proof. destruct r; reflexivity. Qed.

Lemma res_ok_map {A B} (spec : nat -> res A) (f : A -> B) r :
  res_ok eq spec r -> res_ok eq (fun n => bind (spec n) (fun x => Val (f x))) (res_map f r).
Proof.
  destruct r as [a|e|]; cbn; auto.
  - intros (b & m & -> & E). exists (f b), m. split; auto. now rewrite E.
  - intros [H1 H2]. split.
    + intros X n. now rewrite (H1 X n).
    + intros X. destruct (H2 X) as (m & E). exists m. now rewrite E.
Qed.

Lemma equiterm_shift {A} (a b : nat -> res A) :
  a 0 = OOF -> (forall n, a (S n) = b n) -> equiterm a b.
Proof.
  intros A0 AS. split.
  - intros n _. exists (S n). apply AS.
  - intros [|n] H; [congruence|]. exists n. now rewrite AS.
Qed.

Lemma equiterm_ptr_seval ef re :
  equiterm (fun n => seval n ef re) (sden (SC (Var "%") (ECons "%" ef re ENil)) []).
Proof.
  pose proof (equiterm_ptr (fun _ v => Val v) ef re ltac:(intros ? ? ? ? ?; reflexivity)) as [Q1 Q2].
  split; intros n Hn.
  - destruct (Q1 n) as (m' & Em'); [now rewrite bind_val'|]. exists m'. now rewrite !bind_val' in Em'.
  - destruct (Q2 n) as (m' & Em'); [now rewrite bind_val'|]. exists m'. now rewrite !bind_val' in Em'.
Qed.

Definition gfield (n : nat) (cf : sclos) : res data := sfull n cf.

Lemma gfield_mono cf : mono (fun n => gfield n cf).
Proof. apply (sfull_mono cf). Qed.

Lemma sforce_rec n fs :
  sforce (S n) (VRec fs) = bind (force_fields (gfield n) fs) (fun ds => Val (DRec ds)).
Proof. reflexivity. Qed.

Theorem force_sound d : forall k G h c sc t rt r fr h' k',
  heap_ok G h -> clean h -> ctrl_rel G c sc ->
  equiterm (fun n => seval n t rt) (sden sc []) ->
  force d k h c = (r, (fr, h', k')) ->
  res_ok eq (fun n => sfull n (t, rt)) r.
Proof.
  induction d as [|d IH]; intros k G h c sc t rt r fr h' k' H C R EQ E; cbn in E.
  - inversion E; subst. exact Logic.I.
  - destruct (run k (mkcfg c [] h)) as [[r0 cf] k0] eqn:Er.
    destruct (run_session _ _ _ _ _ _ _ _ H C R Er) as (G1 & X1 & H1 & B1 & RO).
    apply result_ok_res_ok in RO. apply (res_ok_equiterm _ _ _ _ EQ) in RO.
    unfold sfull. cbn [fst snd].
    destruct r0 as [w|e|].
    3:{ inversion E; subst. exact Logic.I. }
    2:{ inversion E; subst. apply res_ok_bind_err. exact RO. }
    pose proof (run_val_clean _ _ _ _ _ _ C Er) as C1.
    destruct RO as (v & m & VR & Em).
    assert (HEAD : forall r1, res_ok eq (fun n => sforce n v) r1 ->
                              res_ok eq (fun n => bind (seval n t rt) (sforce n)) r1).
    { intros r1 HR.
      apply (res_ok_bind_val eq (fun n => seval n t rt) (fun n v' => sforce n v') v m r1);
        auto using seval_is_mono.
      intros n Hn m' L. now apply sforce_mono. }
    destruct w as [wc we]. cbn [fst] in E. destruct wc as [tw|fl].
    + inversion VR; subst; inversion E; subst; apply HEAD; cbn;
        eexists _, 1; split; reflexivity.
    + inversion VR as [| | |fl0 env0 fs FRl]; subst.
      match type of E with map_res _ (?F fl (hp cf) k0) = _ => set (fields := F) in * end.
      assert (FLS : forall fl0 fs0, fields_rel G1 fl0 fs0 ->
                 forall G2 h1 k1 r1 fr1 h2 k2,
                 ext G1 G2 -> heap_ok G2 h1 -> clean h1 ->
                 fields fl0 h1 k1 = (r1, (fr1, h2, k2)) ->
                 (exists G3, ext G2 G3 /\ heap_ok G3 h2 /\ bh_inv fr1 h2 /\ (forall a, r1 = Val a -> fr1 = []))
                 /\ res_ok eq (fun n => force_fields (gfield n) fs0) r1).
      { clear E. intros fl0 fs0 F0. unfold fields_rel in F0.
        induction F0 as [|[f [l bb]] [f' [[ef re] bb']] fl0 fs0 (N1 & N3 & N2) F0 IHfl];
          intros G2 h1 k1 r1 fr1 h2 k2 X2 H2 C2 E1; cbn in E1.
        - inversion E1; subst. split; [fin4 G2|]. cbn. exists [], 0. split; reflexivity.
        - cbn in N1, N2, N3. subst f' bb'.
          destruct (fields fl0 h1 k1) as [r2 [[fr2 h3] k3]] eqn:E2.
          destruct (IHfl G2 h1 k1 r2 fr2 h3 k3 X2 H2 C2 E2) as [(G3 & X3 & H3 & B3 & V3) R3].
          cbn [force_fields].
          destruct r2 as [ds|e|].
          2:{ inversion E1; subst. split; [fin4 G3|]. apply res_ok_bind_err. exact R3. }
          2:{ inversion E1; subst. split; [fin4 G3|]. exact Logic.I. }
          rewrite (V3 ds eq_refl) in B3. apply bh_inv_nil in B3.
          destruct (force d k3 h3 (ptr l)) as [r4 [[fr4 h4] k4]] eqn:E4.
          assert (GL3 : nth_error G3 l = Some (ef, re)).
          { apply (ext_nth G1 G3); [exact (ext_trans _ _ _ X2 X3)|exact N2]. }
          assert (CRp : ctrl_rel G3 (ptr l) (SC (Var "%") (ECons "%" ef re ENil))).
          { constructor. now apply env_rel_ptr. }
          destruct (force_heap_ok _ _ G3 _ _ _ _ _ _ H3 B3 (ex_intro _ _ CRp) E4) as (G4 & X4 & H4 & B4 & V4).
          pose proof (IH _ _ _ _ _ ef re _ _ _ _ H3 B3 CRp (equiterm_ptr_seval _ _) E4) as R4.
          rewrite map_res_eq in E1. inversion E1; subst.
          split.
          { exists G4. split; [eauto using ext_trans|]. split; auto. split; auto.
            intros a Ha. destruct r4; cbn in Ha; try discriminate. eapply V4; eauto. }
          destruct R3 as (ds' & m3 & <- & Em3).
          apply (res_ok_bind_val eq (fun n => force_fields (gfield n) fs0)
                   (fun n ds' => bind (gfield n (ef, re)) (fun dv => Val ((f, dv) :: ds'))) ds m3); auto.
          + apply force_fields_mono. intros; apply gfield_mono.
          + intros n Hn m' L. pose proof (bind_not_oof _ _ Hn) as Hg.
            now rewrite (gfield_mono (ef, re) n Hg m' L).
          + apply (res_ok_map (fun n => sfull n (ef, re)) (fun dv => (f, dv) :: ds) r4 R4). }
      destruct (fields fl (hp cf) k0) as [r1 [[fr1 h2] k2]] eqn:E1.
      destruct (FLS fl fs FRl G1 _ _ _ _ _ _ (ext_refl G1) H1 C1 E1) as [_ R1].
      rewrite map_res_eq in E. inversion E; subst.
      apply HEAD.
      eapply res_ok_equiterm;
        [apply (equiterm_shift _ (fun n => bind (force_fields (gfield n) fs) (fun ds => Val (DRec ds))));
         [reflexivity | intros n; apply sforce_rec]|].
      apply (res_ok_map _ DRec r1 R1).
Qed.

(* ---------------------------------------------------------------- the property, all input kinds *)

Lemma seval_chain_lt defs : forall e r n, n < length defs -> seval n (chain defs e) r = OOF.
Proof.
  induction defs as [|[x d] defs IH]; intros e r n L; cbn in L; [lia|].
  destruct n; [reflexivity|]. cbn. apply IH. lia.
Qed.

Lemma equiterm_chain {A} (k : nat -> sval -> res A) defs e :
  (forall v, mono (fun n => k n v)) ->
  equiterm (fun n => bind (seval n (chain defs e) ENil) (k n))
           (fun n => bind (seval n e (top_senv defs ENil)) (k n)).
Proof.
  intros Mk. split.
  - intros n H. exists (length defs + n). rewrite seval_chain.
    pose proof (bind_not_oof _ _ H) as H1.
    destruct (seval n e (top_senv defs ENil)) as [v| |]; cbn in *; auto.
    apply (Mk v n); auto. lia.
  - intros n H. exists n. pose proof (bind_not_oof _ _ H) as H1.
    destruct (le_lt_dec (length defs) n) as [L|L]; [|now rewrite seval_chain_lt in H1].
    pose proof (seval_chain defs e ENil (n - length defs)) as SC.
    replace (length defs + (n - length defs)) with n in SC by lia.
    rewrite SC in *. rewrite (seval_mono _ _ _ H1 n) by lia. reflexivity.
Qed.

Definition data_outcome_matches (o : outcome) (spec : nat -> res data) : Prop :=
  match o with
  | OData d => exists n, spec n = Val d
  | OErr EInfRec => forall n, spec n = OOF
  | OErr c => exists n, spec n = Err c
  | OBudget => True
  | OBound | OOk _ => False
  end.

Lemma res_ok_outcome G r spec :
  res_ok (val_rel G) spec r -> outcome_matches_spec (out_of (fun v => OOk (obs_of v)) r) spec.
Proof.
  destruct r as [w|c|]; cbn; auto.
  - intros (v & m & VR & E). exists m, v. split; auto. symmetry. eapply obs_rel; eauto.
  - intros [R1 R2]. destruct c; try (apply R2; discriminate). now apply R1.
Qed.

Lemma res_ok_data_outcome r spec :
  res_ok eq spec r -> data_outcome_matches (out_of OData r) spec.
Proof.
  destruct r as [d|c|]; cbn; auto.
  - intros (d' & m & -> & E). eauto.
  - intros [R1 R2]. destruct c; try (apply R2; discriminate). now apply R1.
Qed.

(* eval_full as the observed input *)
Theorem session_equiv_full_thm (h : list input) (k : nat) (e : tm) :
  data_outcome_matches
    (snd (sess_step (fst (sess_run empty_session h)) (IFull k e)))
    (fun n => spec_run_full n (defs_of h) e).
Proof.
  set (s := fst (sess_run empty_session h)).
  destruct (session_sinv h) as (G & H & ER & C). fold s in H, ER, C.
  unfold sess_step, sess_step_with, sess_step_gen.
  destruct (force (S k) k (sheap s) (CTm e, stop s)) as [r [[fr h'] k']] eqn:Ef. cbn [snd].
  apply res_ok_data_outcome.
  assert (EQ : equiterm (fun n => seval n e (top_senv (defs_of h) ENil))
                        (sden (SC e (top_senv (defs_of h) ENil)) [])).
  { split; intros n Hn; exists n; now rewrite sden_SC_nil in *. }
  pose proof (force_sound (S k) k G (sheap s) (CTm e, stop s) (SC e (top_senv (defs_of h) ENil))
                e (top_senv (defs_of h) ENil) r fr h' k' H C (CR_tm G e (stop s) _ ER) EQ Ef) as FS.
  eapply res_ok_equiterm; [|exact FS].
  unfold spec_run_full, sfull. cbn [fst snd]. apply equiterm_chain. intros v n Hn m L. now apply sforce_mono.
Qed.

(* :query as the observed input *)
Theorem session_equiv_query_thm (h : list input) (k : nat) (x : string) (path : list string) :
  outcome_matches_spec
    (snd (sess_step (fst (sess_run empty_session h)) (IQuery k x path)))
    (fun n => spec_run_query n (defs_of h) x path).
Proof.
  set (s := fst (sess_run empty_session h)).
  destruct (session_sinv h) as (G & H & ER & C). fold s in H, ER, C.
  unfold sess_step, sess_step_with, sess_step_gen.
  destruct (query k (sheap s) (CTm (Var x), stop s) path) as [r [[fr h'] k']] eqn:Eq. cbn [snd].
  assert (EQ : equiterm (fun n => seval n (Var x) (top_senv (defs_of h) ENil))
                        (sden (SC (Var x) (top_senv (defs_of h) ENil)) [])).
  { split; intros n Hn; exists n; now rewrite sden_SC_nil in *. }
  destruct (query_sound path k G (sheap s) (CTm (Var x), stop s) (SC (Var x) (top_senv (defs_of h) ENil))
              (Var x) (top_senv (defs_of h) ENil) r fr h' k' H C (CR_tm G (Var x) (stop s) _ ER) EQ Eq)
    as (G' & X & RO).
  apply (res_ok_outcome G').
  eapply res_ok_equiterm; [|exact RO].
  unfold spec_run_query.
  destruct path as [|f path]; cbn [squery fst snd].
  - apply equiterm_chain. intros v n Hn m L. reflexivity.
  - apply equiterm_chain. intros v. destruct v as [| | |fs]; try (intros ? ? ? ?; reflexivity).
    destruct (assoc fs f) as [[cf bb]|]; [apply squery_mono|intros ? ? ? ?; reflexivity].
Qed.
