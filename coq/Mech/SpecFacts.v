(* C12 — facts about the call-by-name evaluator alone: fuel monotonicity, the meaning of a
   "spec configuration" (control + continuation frames), and the pre-order used to relate the
   meanings of successive machine configurations. *)
From Coq Require Import String ZArith List Bool Arith Lia.
Import ListNotations.
From NV Require Import Mech.Syntax Mech.Spec.

(* ---------------------------------------------------------------- results *)

Lemma bind_val {A} (r : res A) : bind r Val = r.
Proof. destruct r; reflexivity. Qed.

Lemma bind_assoc {A B C} (r : res A) (f : A -> res B) (g : B -> res C) :
  bind (bind r f) g = bind r (fun a => bind (f a) g).
Proof. destruct r; reflexivity. Qed.

Lemma bind_not_oof {A B} (r : res A) (f : A -> res B) : bind r f <> OOF -> r <> OOF.
Proof. destruct r; cbn; congruence. Qed.

(* [approx a b]: [a] ran out of fuel, or [a] and [b] agree *)
Definition approx {A} (a b : res A) : Prop := a = OOF \/ a = b.

Lemma approx_refl {A} (a : res A) : approx a a.
Proof. now right. Qed.

Lemma approx_oof {A} (b : res A) : approx OOF b.
Proof. now left. Qed.

Lemma approx_trans {A} (a b c : res A) : approx a b -> approx b c -> approx a c.
Proof. intros [-> | ->]; auto. now left. Qed.

Lemma approx_bind {A B} (a b : res A) (f g : A -> res B) :
  approx a b -> (forall v, approx (f v) (g v)) -> approx (bind a f) (bind b g).
Proof.
  intros [-> | ->] H; [now left|]. destruct b; cbn; auto using approx_refl.
Qed.

(* ---------------------------------------------------------------- fuel monotonicity *)

Lemma seval_mono : forall n t r, seval n t r <> OOF -> forall m, n <= m -> seval m t r = seval n t r.
Proof.
  induction n as [|n IH]; intros t r H m L; [cbn in H; congruence|].
  destruct m as [|m]; [lia|]. assert (L' : n <= m) by lia.
  destruct t as [x|x b|f a|x e b|x e b|k|bb|o a b|c t e|fs|e f|a b|]; cbn in *; auto.
  - destruct (slookup r x) as [[e re]|]; auto.
  - pose proof (bind_not_oof _ _ H) as Hf. rewrite (IH _ _ Hf _ L').
    destruct (seval n f r) as [vf| |]; cbn in *; auto. destruct vf; auto.
  - pose proof (bind_not_oof _ _ H) as Ha. rewrite (IH _ _ Ha _ L').
    destruct (seval n a r) as [va| |]; cbn in *; auto.
    pose proof (bind_not_oof _ _ H) as Hb. rewrite (IH _ _ Hb _ L'). reflexivity.
  - pose proof (bind_not_oof _ _ H) as Hc. rewrite (IH _ _ Hc _ L').
    destruct (seval n c r) as [vc| |]; cbn in *; auto. destruct vc as [|[|]| |]; auto.
  - pose proof (bind_not_oof _ _ H) as He. rewrite (IH _ _ He _ L').
    destruct (seval n e r) as [ve| |]; cbn in *; auto. destruct ve as [| | |fs]; auto.
    destruct (assoc fs f) as [[cf fl]|]; auto.
  - pose proof (bind_not_oof _ _ H) as Ha. rewrite (IH _ _ Ha _ L').
    destruct (seval n a r) as [va| |]; cbn in *; auto.
Qed.

Lemma seval_approx n m t r : n <= m -> approx (seval n t r) (seval m t r).
Proof.
  intros L. destruct (seval n t r) eqn:E; try (now left); right; symmetry;
    rewrite <- E; apply seval_mono; auto; rewrite E; discriminate.
Qed.

Lemma seval_det n m t r a b : seval n t r = a -> seval m t r = b -> a <> OOF -> b <> OOF -> a = b.
Proof.
  intros Ha Hb Na Nb. destruct (Nat.le_ge_cases n m) as [L|L].
  - rewrite <- Ha, <- Hb. symmetry. apply seval_mono; auto. congruence.
  - rewrite <- Ha, <- Hb. apply seval_mono; auto. congruence.
Qed.

(* ---------------------------------------------------------------- spec configurations *)

Inductive sctrl :=
| SC (t : tm) (r : senv)        (* a closure still to be evaluated *)
| SV (v : sval).                (* a value *)

Inductive sframe :=
| SArg (a : tm) (r : senv)
| SUpd
| SOp2First (o : binop) (b : tm) (r : senv)
| SOp2Second (o : binop) (v : sval)
| SIf (t : tm) (rt : senv) (e : tm) (re : senv)
| SProj (f : string)
| SSeq (b : tm) (r : senv).

(* the value [v] is returned to the continuation [K] *)
Fixpoint sapply (n : nat) (K : list sframe) (v : sval) : res sval :=
  match K with
  | [] => Val v
  | SUpd :: K' => sapply n K' v
  | SArg a r :: K' =>
      match v with
      | VClo x b rf => bind (seval n b (ECons x a r rf)) (sapply n K')
      | _ => Err ENotAFunc
      end
  | SOp2First o b r :: K' =>
      bind (seval n b r) (fun vb => bind (sbinop o v vb) (sapply n K'))
  | SOp2Second o va :: K' => bind (sbinop o va v) (sapply n K')
  | SIf t rt e re :: K' =>
      match v with
      | VBool true => bind (seval n t rt) (sapply n K')
      | VBool false => bind (seval n e re) (sapply n K')
      | _ => Err ETypeErr
      end
  | SProj f :: K' =>
      (* entering the field's thunk costs one unit, like a variable *)
      match n with
      | 0 => OOF
      | S m =>
          match v with
          | VRec fs =>
              match assoc fs f with
              | Some (cf, _) => bind (seval m (fst cf) (snd cf)) (sapply n K')
              | None => Err EFieldMissing
              end
          | _ => Err ETypeErr
          end
      end
  | SSeq b r :: K' => bind (seval n b r) (sapply n K')
  end.

Definition sctrl_eval (n : nat) (c : sctrl) : res sval :=
  match c with SC t r => seval n t r | SV v => Val v end.

Definition sden (c : sctrl) (K : list sframe) (n : nat) : res sval :=
  bind (sctrl_eval n c) (sapply n K).

Ltac case_bind :=
  match goal with
  | |- context [bind (seval ?n ?t ?r) _] => destruct (seval n t r); cbn; auto
  | |- context [bind (sbinop ?o ?a ?b) _] => destruct (sbinop o a b); cbn; auto
  end.

Lemma sapply_app n K1 K2 v : sapply n (K1 ++ K2) v = bind (sapply n K1 v) (sapply n K2).
Proof.
  revert v; induction K1 as [|fr K1 IH]; intros v; cbn; auto.
  destruct fr as [a r| |o b r|o va|t rt e re|f|b r]; cbn; auto.
  - destruct v; auto. rewrite bind_assoc. case_bind.
  - rewrite bind_assoc. case_bind. rewrite bind_assoc. case_bind.
  - rewrite bind_assoc. case_bind.
  - destruct v as [| [|] | |]; auto; rewrite bind_assoc; case_bind.
  - destruct n; auto. destruct v as [| | |fs]; auto. destruct (assoc fs f) as [[cf fl]|]; auto.
    rewrite bind_assoc. case_bind.
  - rewrite bind_assoc. case_bind.
Qed.

Lemma sden_app c K1 K2 n : sden c (K1 ++ K2) n = bind (sden c K1 n) (sapply n K2).
Proof.
  unfold sden. rewrite bind_assoc. destruct (sctrl_eval n c); cbn; auto. apply sapply_app.
Qed.

Lemma sapply_mono : forall K n v, sapply n K v <> OOF -> forall m, n <= m -> sapply m K v = sapply n K v.
Proof.
  induction K as [|fr K IH]; intros n v H m L; cbn in *; auto.
  destruct fr as [a r| |o b r|o va|t rt e re|f|b r]; cbn in *; auto.
  - destruct v as [| |x b rf|]; auto.
    pose proof (bind_not_oof _ _ H) as Hb. rewrite (seval_mono _ _ _ Hb _ L).
    destruct (seval n b (ECons x a r rf)); cbn in *; auto.
  - pose proof (bind_not_oof _ _ H) as Hb. rewrite (seval_mono _ _ _ Hb _ L).
    destruct (seval n b r) as [vb| |]; cbn in *; auto. destruct (sbinop o v vb); cbn in *; auto.
  - destruct (sbinop o va v); cbn in *; auto.
  - destruct v as [| [|] | |]; auto.
    + pose proof (bind_not_oof _ _ H) as Hb. rewrite (seval_mono _ _ _ Hb _ L).
      destruct (seval n t rt); cbn in *; auto.
    + pose proof (bind_not_oof _ _ H) as Hb. rewrite (seval_mono _ _ _ Hb _ L).
      destruct (seval n e re); cbn in *; auto.
  - destruct n as [|n]; [congruence|]. destruct m as [|m]; [lia|].
    destruct v as [| | |fs]; auto. destruct (assoc fs f) as [[cf fl]|]; auto.
    pose proof (bind_not_oof _ _ H) as Hb. rewrite (seval_mono _ _ _ Hb m) by lia.
    destruct (seval n (fst cf) (snd cf)); cbn in *; auto.
  - pose proof (bind_not_oof _ _ H) as Hb. rewrite (seval_mono _ _ _ Hb _ L).
    destruct (seval n b r); cbn in *; auto.
Qed.

Lemma sctrl_eval_mono c n : sctrl_eval n c <> OOF -> forall m, n <= m -> sctrl_eval m c = sctrl_eval n c.
Proof. destruct c; cbn; auto. apply seval_mono. Qed.

Lemma sden_mono c K n : sden c K n <> OOF -> forall m, n <= m -> sden c K m = sden c K n.
Proof.
  unfold sden. intros H m L. pose proof (bind_not_oof _ _ H) as Hc.
  rewrite (sctrl_eval_mono _ _ Hc _ L). destruct (sctrl_eval n c); cbn in *; auto.
  now apply sapply_mono.
Qed.

(* ---------------------------------------------------------------- linked meanings *)

(* [b] is a reduct of [a] (both are fuel-indexed meanings):
     forward : whenever [a] terminates with fuel [n], [b] terminates with the same fuel and result;
     backward: whenever [b] terminates, [a] terminates (with some fuel) with the same result. *)
Definition mono (a : nat -> res sval) : Prop :=
  forall n, a n <> OOF -> forall m, n <= m -> a m = a n.

Definition linked (a b : nat -> res sval) : Prop :=
  (forall n, approx (a n) (b n)) /\
  (forall n, b n <> OOF -> exists m, a m = b n).

Lemma linked_refl a : linked a a.
Proof. split; intros; eauto using approx_refl. Qed.

Lemma linked_trans a b c : linked a b -> linked b c -> linked a c.
Proof.
  intros [F1 B1] [F2 B2]. split.
  - intros n. eapply approx_trans; eauto.
  - intros n H. destruct (B2 n H) as (m & E). rewrite <- E in H |- *.
    destruct (B1 m H) as (m' & E'). eauto.
Qed.

Lemma linked_ext a a' b b' :
  (forall n, a n = a' n) -> (forall n, b n = b' n) -> linked a b -> linked a' b'.
Proof.
  intros Ea Eb [F B]. split.
  - intros n. rewrite <- Ea, <- Eb. apply F.
  - intros n H. rewrite <- Eb in H. destruct (B n H) as (m & E). exists m. now rewrite <- Ea, <- Eb.
Qed.

(* a link between two configurations extends to any common continuation *)
Lemma linked_ctx c K c' K' X :
  linked (sden c K) (sden c' K') -> linked (sden c (K ++ X)) (sden c' (K' ++ X)).
Proof.
  intros [F B]. split.
  - intros n. rewrite !sden_app. apply approx_bind; auto. intros; apply approx_refl.
  - intros n H. rewrite sden_app in H |- *.
    pose proof (bind_not_oof _ _ H) as H1. destruct (B n H1) as (m & E).
    exists (Nat.max m n). rewrite sden_app.
    assert (E1 : sden c K (Nat.max m n) = sden c' K' n).
    { rewrite <- E. apply sden_mono; [congruence | lia]. }
    rewrite E1. destruct (sden c' K' n) as [v| |]; cbn in *; auto.
    apply sapply_mono; auto. lia.
Qed.

(* if a meaning can only terminate by first terminating with strictly less fuel, it diverges *)
Lemma diverges_by_descent (a : nat -> res sval) :
  (forall n, a n <> OOF -> exists m, m < n /\ a m <> OOF) -> forall n, a n = OOF.
Proof.
  intros D n. induction n as [n IH] using lt_wf_ind.
  destruct (a n) eqn:E; auto; exfalso.
  - destruct (D n) as (m & L & H); [congruence|]. apply H. now apply IH.
  - destruct (D n) as (m & L & H); [congruence|]. apply H. now apply IH.
Qed.
