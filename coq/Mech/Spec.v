(* C12 — the stand-alone meaning: a fuel-indexed call-by-NAME big-step evaluator.  No heap, no
   thunks, no memoisation, no mutation: a variable denotes the closure (term + environment) it
   was bound to, and is re-evaluated at every use.  Recursion (let rec, and the mutual recursion
   between the fields of a record) is an environment entry that re-binds itself when looked up
   ([ERec]).  Definitions only.

   [spec_run n defs e] is the meaning of the stand-alone program
   `let x1 = e1 in ... let xk = ek in e`; fuel bounds the depth of the evaluation. *)
From Coq Require Import String ZArith List Bool.
Import ListNotations.
From NV Require Import Mech.Syntax.
Open Scope string_scope.
Open Scope list_scope.

Inductive senv :=
| ENil
| ECons (x : string) (e : tm) (re : senv) (rest : senv)   (* x := closure (e, re) *)
| ERec (defs : list (string * tm)) (rest : senv).         (* every x in defs := (body, this env) *)

Definition sclos : Type := tm * senv.

Inductive sval :=
| VNum (n : Z)
| VBool (b : bool)
| VClo (x : string) (b : tm) (r : senv)
| VRec (fs : list (string * (sclos * bool))).
   (* field -> (closure, does its definition depend on a sibling field).  A record literal
      {f = e, ...} in r has the closures (e, ERec defs r); a merge has closures of several origins *)

Fixpoint slookup (r : senv) (x : string) : option sclos :=
  match r with
  | ENil => None
  | ECons y e re rest => if String.eqb x y then Some (e, re) else slookup rest x
  | ERec defs rest =>
      match assoc defs x with
      | Some e => Some (e, ERec defs rest)
      | None => slookup rest x
      end
  end.

Definition sfields := list (string * (sclos * bool)).

Definition fields_of_lit (defs : list (string * tm)) (r : senv) : sfields :=
  map (fun fe => (fst fe, ((snd fe, ERec defs r), fvb [] (map fst defs) (snd fe)))) defs.

Definition sany_rev (fs : sfields) : bool := existsb (fun p => snd (snd p)) fs.

(* the closure of a field defined on both sides of a merge: c1 & c2 *)
Definition smerge_clos (c1 c2 : sclos) : sclos :=
  (Op2 OMerge (Var "%1") (Var "%2"),
   ECons "%1" (fst c1) (snd c1) (ECons "%2" (fst c2) (snd c2) ENil)).

Definition smerge_fields (fs1 fs2 : sfields) : sfields :=
  left_part fs1 fs2
  ++ map (fun p => (fst p, (smerge_clos (fst (fst (snd p))) (fst (snd (snd p))), false))) (center_part fs1 fs2)
  ++ left_part fs2 fs1.

Definition sbinop (o : binop) (a b : sval) : res sval :=
  match o with
  | OMerge =>
      match a, b with
      | VNum x, VNum y => if Z.eqb x y then Val (VNum x) else Err ENonMergeable
      | VBool x, VBool y => if Bool.eqb x y then Val (VBool x) else Err ENonMergeable
      | VRec fs1, VRec fs2 =>
          if sany_rev fs1 || sany_rev fs2 then Err EOutOfFragment
          else Val (VRec (smerge_fields fs1 fs2))
      | _, _ => Err ENonMergeable
      end
  | _ =>
      match a, b with
      | VNum x, VNum y =>
          Val (match o with
               | OAdd => VNum (x + y)
               | OSub => VNum (x - y)
               | _ => VBool (Z.ltb x y)
               end)
      | _, _ => Err ETypeErr
      end
  end.

Fixpoint seval (n : nat) (t : tm) (r : senv) : res sval :=
  match n with
  | 0 => OOF
  | S n =>
      match t with
      | Var x =>
          match slookup r x with
          | Some (e, re) => seval n e re
          | None => Err EUnbound
          end
      | Lam x b => Val (VClo x b r)
      | App f a =>
          bind (seval n f r) (fun vf =>
            match vf with
            | VClo x b rf => seval n b (ECons x a r rf)
            | _ => Err ENotAFunc
            end)
      | Let x e b => seval n b (ECons x e r r)
      | LetRec x e b => seval n b (ERec [(x, e)] r)
      | Num k => Val (VNum k)
      | Bool b => Val (VBool b)
      | Op2 o a b =>
          bind (seval n a r) (fun va => bind (seval n b r) (fun vb => sbinop o va vb))
      | If c t e =>
          bind (seval n c r) (fun vc =>
            match vc with
            | VBool true => seval n t r
            | VBool false => seval n e r
            | _ => Err ETypeErr
            end)
      | Rec fs => Val (VRec (fields_of_lit fs r))
      | Proj e f =>
          bind (seval n e r) (fun ve =>
            match ve with
            | VRec fs =>
                match assoc fs f with
                | Some (cf, _) => seval n (fst cf) (snd cf)
                | None => Err EFieldMissing
                end
            | _ => Err ETypeErr
            end)
      | Seq a b => bind (seval n a r) (fun _ => seval n b r)
      | Fail => Err EBlame
      end
  end.

Definition sobs (v : sval) : obs :=
  match v with
  | VNum n => ONum n
  | VBool b => OBool b
  | VClo _ _ _ => OFun
  | VRec fs => ORec (map fst fs)
  end.

(* The stand-alone program `let x1 = e1 in ... in e`, evaluated to a weak head normal form. *)
Definition spec_run (n : nat) (defs : list (string * tm)) (e : tm) : res sval :=
  seval n (chain defs e) ENil.

(* The environment in which [chain defs e] evaluates [e]. *)
Fixpoint top_senv (defs : list (string * tm)) (r : senv) : senv :=
  match defs with
  | [] => r
  | (x, d) :: defs' => top_senv defs' (ECons x d r r)
  end.

(* Full evaluation: force every field, last field first (as %force% does). *)
Fixpoint force_fields (g : sclos -> res data) (fs : sfields) : res (list (string * data)) :=
  match fs with
  | [] => Val []
  | (f, (cf, _)) :: fs' =>
      bind (force_fields g fs') (fun ds => bind (g cf) (fun dv => Val ((f, dv) :: ds)))
  end.

Fixpoint sforce (n : nat) (v : sval) : res data :=
  match n with
  | 0 => OOF
  | S n =>
      match v with
      | VNum k => Val (DNum k)
      | VBool b => Val (DBool b)
      | VClo _ _ _ => Val DFun
      | VRec fs =>
          bind (force_fields (fun cf => bind (seval n (fst cf) (snd cf)) (sforce n)) fs)
               (fun ds => Val (DRec ds))
      end
  end.

(* evaluate a closure fully *)
Definition sfull (n : nat) (c : sclos) : res data := bind (seval n (fst c) (snd c)) (sforce n).

Definition spec_run_full (n : nat) (defs : list (string * tm)) (e : tm) : res data :=
  sfull n (chain defs e, ENil).

(* `:query x.p1...pn` stand-alone: evaluate x, then follow the path. *)
Fixpoint squery (n : nat) (c : sclos) (path : list string) : res sval :=
  bind (seval n (fst c) (snd c)) (fun v =>
    match path with
    | [] => Val v
    | f :: path' =>
        match v with
        | VRec fs =>
            match assoc fs f with
            | Some (cf, _) => squery n cf path'
            | None => Err EFieldMissing
            end
        | _ => Err EQueryNonRecord
        end
    end).

(* `:query x.p1...pn` on the stand-alone program `let x1 = e1 in ... in x` *)
Definition spec_run_query (n : nat) (defs : list (string * tm)) (x : string) (path : list string)
  : res sval :=
  squery n (chain defs (Var x), ENil) path.
