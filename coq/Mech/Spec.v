(* C12 — the stand-alone meaning: a fuel-indexed call-by-NAME big-step evaluator.  No heap, no
   thunks, no memoisation, no mutation: a variable denotes the closure (term + environment) it
   was bound to, and is re-evaluated at every use.  Recursion (let rec, and the mutual recursion
   between the fields of a record) is an environment entry that re-binds itself when looked up
   ([ERec]).  Definitions only.

   [spec_run n defs e] is the meaning of the stand-alone program
   `let x1 = e1 in ... let xk = ek in e`; fuel bounds the depth of the evaluation. *)
From Coq Require Import String ZArith List Bool.
Import ListNotations.
From NV Require Import Mech.Syntax.
Open Scope string_scope.
Open Scope list_scope.

Inductive senv :=
| ENil
| ECons (x : string) (e : tm) (re : senv) (rest : senv)   (* x := closure (e, re) *)
| ERec (defs : list (string * tm)) (rest : senv).         (* every x in defs := (body, this env) *)

Definition sclos : Type := tm * senv.

Inductive sval :=
| VNum (n : Z)
| VBool (b : bool)
| VClo (x : string) (b : tm) (r : senv)
| VRec (defs : list (string * tm)) (r : senv).

Fixpoint slookup (r : senv) (x : string) : option sclos :=
  match r with
  | ENil => None
  | ECons y e re rest => if String.eqb x y then Some (e, re) else slookup rest x
  | ERec defs rest =>
      match assoc defs x with
      | Some e => Some (e, ERec defs rest)
      | None => slookup rest x
      end
  end.

Definition sbinop (o : binop) (a b : sval) : res sval :=
  match a, b with
  | VNum x, VNum y =>
      Val (match o with
           | OAdd => VNum (x + y)
           | OSub => VNum (x - y)
           | OLt => VBool (Z.ltb x y)
           end)
  | _, _ => Err ETypeErr
  end.

Fixpoint seval (n : nat) (t : tm) (r : senv) : res sval :=
  match n with
  | 0 => OOF
  | S n =>
      match t with
      | Var x =>
          match slookup r x with
          | Some (e, re) => seval n e re
          | None => Err EUnbound
          end
      | Lam x b => Val (VClo x b r)
      | App f a =>
          bind (seval n f r) (fun vf =>
            match vf with
            | VClo x b rf => seval n b (ECons x a r rf)
            | _ => Err ENotAFunc
            end)
      | Let x e b => seval n b (ECons x e r r)
      | LetRec x e b => seval n b (ERec [(x, e)] r)
      | Num k => Val (VNum k)
      | Bool b => Val (VBool b)
      | Op2 o a b =>
          bind (seval n a r) (fun va => bind (seval n b r) (fun vb => sbinop o va vb))
      | If c t e =>
          bind (seval n c r) (fun vc =>
            match vc with
            | VBool true => seval n t r
            | VBool false => seval n e r
            | _ => Err ETypeErr
            end)
      | Rec fs => Val (VRec fs r)
      | Proj e f =>
          bind (seval n e r) (fun ve =>
            match ve with
            | VRec defs rr =>
                match assoc defs f with
                | Some ef => seval n ef (ERec defs rr)
                | None => Err EFieldMissing
                end
            | _ => Err ETypeErr
            end)
      | Fail => Err EBlame
      end
  end.

Definition sobs (v : sval) : obs :=
  match v with
  | VNum n => ONum n
  | VBool b => OBool b
  | VClo _ _ _ => OFun
  | VRec defs _ => ORec (map fst defs)
  end.

(* The stand-alone program `let x1 = e1 in ... in e`, evaluated to a weak head normal form. *)
Definition spec_run (n : nat) (defs : list (string * tm)) (e : tm) : res sval :=
  seval n (chain defs e) ENil.

(* The environment in which [chain defs e] evaluates [e]. *)
Fixpoint top_senv (defs : list (string * tm)) (r : senv) : senv :=
  match defs with
  | [] => r
  | (x, d) :: defs' => top_senv defs' (ECons x d r r)
  end.

(* Full evaluation: force every field, last field first (as %force% does). *)
Fixpoint force_fields (g : tm -> res data) (fs : list (string * tm)) : res (list (string * data)) :=
  match fs with
  | [] => Val []
  | (f, ef) :: fs' =>
      bind (force_fields g fs') (fun ds => bind (g ef) (fun dv => Val ((f, dv) :: ds)))
  end.

Fixpoint sforce (n : nat) (v : sval) : res data :=
  match n with
  | 0 => OOF
  | S n =>
      match v with
      | VNum k => Val (DNum k)
      | VBool b => Val (DBool b)
      | VClo _ _ _ => Val DFun
      | VRec defs rr =>
          bind (force_fields (fun ef => bind (seval n ef (ERec defs rr)) (sforce n)) defs)
               (fun ds => Val (DRec ds))
      end
  end.

(* evaluate a closure fully *)
Definition sfull (n : nat) (c : sclos) : res data := bind (seval n (fst c) (snd c)) (sforce n).

Definition spec_run_full (n : nat) (defs : list (string * tm)) (e : tm) : res data :=
  sfull n (chain defs e, ENil).

(* `:query x.p1...pn` stand-alone: evaluate x, then follow the path. *)
Fixpoint squery (n : nat) (c : sclos) (path : list string) : res sval :=
  bind (seval n (fst c) (snd c)) (fun v =>
    match path with
    | [] => Val v
    | f :: path' =>
        match v with
        | VRec defs rr =>
            match assoc defs f with
            | Some ef => squery n (ef, ERec defs rr) path'
            | None => Err EFieldMissing
            end
        | _ => Err EQueryNonRecord
        end
    end).

(* `:query x.p1...pn` on the stand-alone program `let x1 = e1 in ... in x` *)
Definition spec_run_query (n : nat) (defs : list (string * tm)) (x : string) (path : list string)
  : res sval :=
  squery n (chain defs (Var x), ENil) path.
