(* C12 — non-vacuity: the hypotheses of the theorems of Props/C12.v are met by non-trivial
   configurations (an abandoned evaluation with a black-holed thunk under an update frame; a
   session in which a memoised cell survives a failed evaluation). *)
From Coq Require Import String ZArith List Bool Arith.
Import ListNotations.
From NV Require Import Mech.Syntax Mech.Machine Mech.Spec Mech.Invariants Mech.Refine Mech.Broken.
Open Scope string_scope.

(* the session after `let x = 1 + 1`, and the configuration 3 steps into the evaluation of `x` *)
Definition ex_session : session := fst (sess_run empty_session [IDef "x" (Op2 OAdd (Num 1) (Num 1))]).
Definition ex_start : config := mkcfg (CTm (Var "x"), stop ex_session) [] (sheap ex_session).
Definition ex_cfg : config := snd (fst (run 3 ex_start)).

(* hypothesis of C12_blackhole_iff_on_stack: reachable, with a non-empty stack and a black hole *)
Example ex_reachable :
  reachable ex_cfg /\ upd_locs (stack ex_cfg) = [0] /\ count_blackholed (hp ex_cfg) = 1.
Proof.
  split; [|vm_compute; auto].
  apply (run_reachable 3 ex_start (fst (fst (run 3 ex_start))) ex_cfg (snd (run 3 ex_start))).
  - apply reach_start. apply (session_heap_good [IDef "x" (Op2 OAdd (Num 1) (Num 1))]).
  - unfold ex_cfg. destruct (run 3 ex_start) as [[r c] k]. reflexivity.
Qed.

(* hypothesis of C12_unwind_clean: the invariant holds of a stack with an update frame *)
Example ex_bh_inv : bh_inv (stack ex_cfg) (hp ex_cfg) /\ stack ex_cfg <> [].
Proof.
  split; [apply blackhole_iff_on_stack_thm, ex_reachable|]. vm_compute. discriminate.
Qed.

(* hypothesis of C12_evaluated_cells_sound / C12_session_vs_fresh: after `let x = 1 + 1`, an
   abandoned evaluation of x, and a type error that first forces x, the thunk of x is Evaluated
   (holding 2) and later evaluations terminate within their budget *)
Definition ex_history : list input :=
  [IDef "x" (Op2 OAdd (Num 1) (Num 1)); Abort 3 (Var "x");
   IEval 100 (Op2 OAdd (Var "x") (Bool true))].

Example ex_evaluated_cell :
  snd (sess_run empty_session ex_history) = [OBound; OBudget; OErr ETypeErr] /\
  option_map st (nth_error (sheap (fst (sess_run empty_session ex_history))) 0) = Some Evaluated /\
  snd (sess_step (fst (sess_run empty_session ex_history)) (IEval 100 (Var "x"))) = OOk (ONum 2) /\
  fresh_eval 100 (defs_of ex_history) (Var "x") = OOk (ONum 2).
Proof. vm_compute. auto. Qed.
