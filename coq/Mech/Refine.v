(* C12 — the machine refines the call-by-name meaning.

   Ghost state: [G : list sclos] assigns to every thunk the call-by-name closure (term + heap-free
   environment) it stands for.  A machine configuration is related to a "spec configuration"
   (control + continuation frames, SpecFacts.v) whose meaning [sden] is linked, in both
   directions, with the meaning of the program the run started from ([root]) and, for every update
   frame on the stack, with the meaning of the closure of the thunk being evaluated.  From these
   links follow: the soundness of memoised cells, the agreement of results and error classes, and
   the fact that a reported infinite recursion is a genuine divergence of the call-by-name
   meaning. *)
From Coq Require Import String ZArith List Bool Arith Lia.
Import ListNotations.
From NV Require Import Mech.Syntax Mech.Machine Mech.Spec Mech.Invariants Mech.SpecFacts.
Open Scope string_scope.
Open Scope list_scope.

Definition ghost := list sclos.

(* ---------------------------------------------------------------- relations *)

Definition env_rel (G : ghost) (env : menv) (r : senv) : Prop :=
  forall x, match assoc env x with
            | Some l => exists c, nth_error G l = Some c /\ slookup r x = Some c
            | None => slookup r x = None
            end.

Definition fields_rel (G : ghost) (fl : rfields) (fs : sfields) : Prop :=
  Forall2 (fun a b => fst a = fst b /\ snd (snd a) = snd (snd b) /\
                      nth_error G (fst (snd a)) = Some (fst (snd b))) fl fs.

Inductive val_rel (G : ghost) : clos -> sval -> Prop :=
| VR_num n env : val_rel G (CTm (Num n), env) (VNum n)
| VR_bool b env : val_rel G (CTm (Bool b), env) (VBool b)
| VR_lam x b env r : env_rel G env r -> val_rel G (CTm (Lam x b), env) (VClo x b r)
| VR_rec fl env fs : fields_rel G fl fs -> val_rel G (CRecV fl, env) (VRec fs).

Inductive ctrl_rel (G : ghost) : clos -> sctrl -> Prop :=
| CR_tm t env r : env_rel G env r -> ctrl_rel G (CTm t, env) (SC t r)
| CR_val w v : val_rel G w v -> ctrl_rel G w (SV v).

Inductive frame_rel (G : ghost) : frame -> sframe -> Prop :=
| FR_arg a env r : env_rel G env r -> frame_rel G (FArg (CTm a, env)) (SArg a r)
| FR_upd l : frame_rel G (FUpd l) SUpd
| FR_op1 o b env r : env_rel G env r -> frame_rel G (FOp2First o (CTm b, env)) (SOp2First o b r)
| FR_op2 o w v : val_rel G w v -> frame_rel G (FOp2Second o w) (SOp2Second o v)
| FR_if t envt rt e enve re :
    env_rel G envt rt -> env_rel G enve re ->
    frame_rel G (FIf (CTm t, envt) (CTm e, enve)) (SIf t rt e re)
| FR_proj f : frame_rel G (FProj f) (SProj f)
| FR_seq b env r : env_rel G env r -> frame_rel G (FSeq (CTm b, env)) (SSeq b r).

(* every cell stands for its ghost closure; an evaluated cell holds the value of that closure *)
Definition cell_ok (G : ghost) (l : loc) (c : cell) : Prop :=
  exists t env r,
    orig c = (CTm t, env) /\ nth_error G l = Some (t, r) /\ env_rel G env r /\
    match st c with
    | Evaluated => exists n v, seval n t r = Val v /\ val_rel G (cur c) v
    | _ => cur c = orig c
    end.

Definition heap_ok (G : ghost) (h : heap) : Prop :=
  length G = length h /\ forall l c, nth_error h l = Some c -> cell_ok G l c.

(* obligations of the update frames: the thunk's closure is linked with the current control under
   the frames above the update frame *)
Fixpoint obls (G : ghost) (sc : sctrl) (above : list sframe) (S : list frame) (K : list sframe) : Prop :=
  match S, K with
  | [], [] => True
  | FUpd l :: S', SUpd :: K' =>
      (exists t r, nth_error G l = Some (t, r) /\ linked (fun n => seval n t r) (sden sc above))
      /\ obls G sc (above ++ [SUpd]) S' K'
  | FUpd _ :: _, _ :: _ => False
  | _ :: S', k :: K' => obls G sc (above ++ [k]) S' K'
  | _, _ => False
  end.

Record inv (root : nat -> res sval) (G : ghost) (c : config) (sc : sctrl) (K : list sframe) : Prop := {
  inv_heap : heap_ok G (hp c);
  inv_ctrl : ctrl_rel G (ctrl c) sc;
  inv_stack : Forall2 (frame_rel G) (stack c) K;
  inv_bh : bh_inv (stack c) (hp c);
  inv_obls : obls G sc [] (stack c) K;
  inv_root : linked root (sden sc K);
}.

(* ---------------------------------------------------------------- ghost extension *)

Definition ext (G G' : ghost) : Prop := exists X, G' = G ++ X.

Lemma Forall2_weaken {A B} (R1 R2 : A -> B -> Prop) l l' :
  (forall a b, R1 a b -> R2 a b) -> Forall2 R1 l l' -> Forall2 R2 l l'.
Proof. intros H F. induction F; constructor; auto. Qed.

Lemma ext_refl G : ext G G.
Proof. exists []. now rewrite app_nil_r. Qed.

Lemma ext_snoc G X : ext G (G ++ X).
Proof. now exists X. Qed.

Lemma ext_trans G1 G2 G3 : ext G1 G2 -> ext G2 G3 -> ext G1 G3.
Proof. intros [X ->] [Y ->]. exists (X ++ Y). now rewrite app_assoc. Qed.

Lemma ext_nth G G' l c : ext G G' -> nth_error G l = Some c -> nth_error G' l = Some c.
Proof. intros [X ->] H. now apply nth_error_app_Some. Qed.

Lemma env_rel_ext G G' env r : ext G G' -> env_rel G env r -> env_rel G' env r.
Proof.
  intros E H x. specialize (H x). destruct (assoc env x); auto.
  destruct H as (c & H1 & H2). exists c. split; auto. eapply ext_nth; eauto.
Qed.

Lemma val_rel_ext G G' w v : ext G G' -> val_rel G w v -> val_rel G' w v.
Proof.
  intros E H. destruct H; constructor; eauto using env_rel_ext.
  unfold fields_rel in *. eapply Forall2_weaken; [|eassumption].
  intros a b (H1 & H2 & H3). repeat split; auto. eapply ext_nth; eauto.
Qed.

Lemma ctrl_rel_ext G G' w sc : ext G G' -> ctrl_rel G w sc -> ctrl_rel G' w sc.
Proof. intros E H. destruct H; constructor; eauto using env_rel_ext, val_rel_ext. Qed.

Lemma frame_rel_ext G G' f sf : ext G G' -> frame_rel G f sf -> frame_rel G' f sf.
Proof. intros E H. destruct H; constructor; eauto using env_rel_ext, val_rel_ext. Qed.

Lemma stack_rel_ext G G' S K : ext G G' -> Forall2 (frame_rel G) S K -> Forall2 (frame_rel G') S K.
Proof. intros E H. eapply Forall2_weaken; [|eassumption]. intros; eapply frame_rel_ext; eauto. Qed.

Lemma cell_ok_ext G G' l c : ext G G' -> cell_ok G l c -> cell_ok G' l c.
Proof.
  intros E (t & env & r & H1 & H2 & H3 & H4). exists t, env, r.
  repeat split; eauto using ext_nth, env_rel_ext.
  destruct (st c); auto. destruct H4 as (n & v & H5 & H6). eauto using val_rel_ext.
Qed.

Lemma obls_ext G G' sc : ext G G' -> forall S K A, obls G sc A S K -> obls G' sc A S K.
Proof.
  intros E. induction S as [|fr S IH]; intros K A H; destruct K as [|k K]; cbn in *; auto;
    try contradiction.
  all: destruct fr; auto; try contradiction.
  destruct k; auto; try contradiction.
  destruct H as [(t & r & H1 & H2) H3]. split; auto.
  exists t, r. split; auto. eapply ext_nth; eauto.
Qed.

(* ---------------------------------------------------------------- transferring the links *)

Lemma obls_transfer G sc sc' : forall S K A A',
  linked (sden sc A) (sden sc' A') -> obls G sc A S K -> obls G sc' A' S K.
Proof.
  induction S as [|fr S IH]; intros K A A' L H; destruct K as [|k K]; cbn in *; auto;
    try contradiction; try (destruct fr; contradiction).
  assert (Lk : forall k, linked (sden sc (A ++ [k])) (sden sc' (A' ++ [k]))).
  { intros k0. now apply linked_ctx. }
  destruct fr; try (eapply IH; [apply Lk|exact H]).
  destruct k; auto. destruct H as [(t & r & H1 & H2) H3]. split.
  - exists t, r. split; auto. eapply linked_trans; eauto.
  - eapply IH; [apply Lk|exact H3].
Qed.

Lemma root_transfer root sc sc' A A' K :
  linked (sden sc A) (sden sc' A') -> linked root (sden sc (A ++ K)) -> linked root (sden sc' (A' ++ K)).
Proof. intros L R. eapply linked_trans; [exact R|]. now apply linked_ctx. Qed.

(* the obligation of a given update frame *)
Lemma obls_lookup G sc l : forall S K A,
  obls G sc A S K -> In l (upd_locs S) ->
  exists K1 t r, nth_error G l = Some (t, r) /\ linked (fun n => seval n t r) (sden sc (A ++ K1)).
Proof.
  induction S as [|fr S IH]; intros K A H I; [destruct I|].
  destruct K as [|k K]; [destruct fr; contradiction|].
  destruct fr; cbn in H, I;
    try (destruct (IH _ _ H I) as (K1 & tt & rr & H1 & H2); exists (k :: K1), tt, rr; split; auto;
         now rewrite <- app_assoc in H2).
  destruct k; try contradiction. destruct H as [(t & r & H1 & H2) H3]. destruct I as [->|I].
  - exists [], t, r. rewrite app_nil_r. auto.
  - destruct (IH _ _ H3 I) as (K1 & t' & r' & H1' & H2'). exists (SUpd :: K1), t', r'. split; auto.
    now rewrite <- app_assoc in H2'.
Qed.

(* ---------------------------------------------------------------- small facts *)

Lemma sden_SC_nil t r n : sden (SC t r) [] n = seval n t r.
Proof. unfold sden; cbn. apply bind_val. Qed.

Lemma sden_SV v K n : sden (SV v) K n = sapply n K v.
Proof. reflexivity. Qed.

Lemma Forall2_app_split {A B} (R : A -> B -> Prop) l1 : forall l1' l2 l2',
  length l1 = length l1' -> Forall2 R (l1 ++ l2) (l1' ++ l2') -> Forall2 R l1 l1' /\ Forall2 R l2 l2'.
Proof.
  induction l1 as [|a l1 IH]; intros [|b l1'] l2 l2' L H; cbn in *; try discriminate; auto.
  inversion H; subst. destruct (IH l1' l2 l2') as [H1 H2]; auto.
Qed.

Lemma Forall2_len {A B} (R : A -> B -> Prop) l l' : Forall2 R l l' -> length l = length l'.
Proof. induction 1; cbn; auto. Qed.

Lemma upd_locs_app S1 S2 : upd_locs (S1 ++ S2) = upd_locs S1 ++ upd_locs S2.
Proof. induction S1 as [|[] S1 IH]; cbn; auto. now rewrite IH. Qed.

Lemma obls_skip G sc : forall F A, length F = length A -> upd_locs F = [] ->
  forall B S0 K0, obls G sc B (F ++ S0) (A ++ K0) <-> obls G sc (B ++ A) S0 K0.
Proof.
  induction F as [|fr F IH]; intros [|k A] L U B S0 K0; cbn in L; try discriminate.
  - cbn. now rewrite app_nil_r.
  - assert (U' : upd_locs F = []) by (destruct fr; cbn in U; auto; discriminate).
    assert (E : obls G sc B ((fr :: F) ++ S0) ((k :: A) ++ K0) <-> obls G sc (B ++ [k]) (F ++ S0) (A ++ K0)).
    { destruct fr; cbn; try tauto. cbn in U. discriminate. }
    rewrite E, IH by auto. now rewrite <- app_assoc.
Qed.

(* heap updates *)
Lemma heap_ok_upd G h l cl f :
  heap_ok G h -> nth_error h l = Some cl -> cell_ok G l (f cl) -> heap_ok G (upd_nth h l f).
Proof.
  intros [L H] E C. split; [now rewrite upd_nth_length|].
  intros l' c' E'. rewrite nth_error_upd_nth in E'. destruct (Nat.eqb_spec l l') as [<-|N]; auto.
  rewrite E in E'. cbn in E'. now inversion E'; subst.
Qed.

Lemma heap_ok_alloc G h X cs :
  heap_ok G h -> length X = length cs ->
  (forall i c, nth_error cs i = Some c -> cell_ok (G ++ X) (length h + i) c) ->
  heap_ok (G ++ X) (h ++ cs).
Proof.
  intros [L H] LX C. split; [rewrite !app_length; lia|].
  intros l c E. destruct (lt_dec l (length h)) as [Lt|Ge].
  - rewrite nth_error_app1 in E by auto. eapply cell_ok_ext; [exists X; reflexivity|]. auto.
  - rewrite nth_error_app2 in E by lia. apply C in E. now replace (length h + (l - length h)) with l in E by lia.
Qed.

Lemma heap_ok_nth G h l c : heap_ok G h -> nth_error G l = Some c -> exists cl, nth_error h l = Some cl.
Proof.
  intros [L _] E. destruct (nth_error h l) eqn:E'; eauto.
  apply nth_error_None in E'. assert (l < length G) by (apply nth_error_Some; congruence). lia.
Qed.

(* ---------------------------------------------------------------- the generic step *)

Lemma inv_pure root G c sc K G' c' sc' F A F' A' S0 K0 :
  inv root G c sc K ->
  stack c = F ++ S0 -> K = A ++ K0 -> length F = length A -> upd_locs F = [] ->
  ext G G' ->
  stack c' = F' ++ S0 -> Forall2 (frame_rel G') F' A' -> upd_locs F' = [] ->
  heap_ok G' (hp c') -> bh_inv (stack c') (hp c') ->
  ctrl_rel G' (ctrl c') sc' ->
  linked (sden sc A) (sden sc' A') ->
  inv root G' c' sc' (A' ++ K0).
Proof.
  intros I ES EK LF UF E ES' FR' UF' HO BH CR L. destruct I as [I1 I2 I3 I4 I5 I6].
  rewrite ES, EK in I3. apply Forall2_app_split in I3; auto. destruct I3 as [I3a I3b].
  constructor; auto.
  - rewrite ES'. apply Forall2_app; auto. eapply stack_rel_ext; eauto.
  - rewrite ES'. apply (obls_skip G' sc' F' A'); [eapply Forall2_len; eauto | auto |].
    cbn. rewrite ES, EK in I5. apply (obls_skip G sc F A) in I5; auto. cbn in I5.
    eapply obls_transfer; [exact L|]. eapply obls_ext; eauto.
  - eapply root_transfer; [exact L|]. now rewrite <- EK.
Qed.

(* a variable bound to [l] : the spec control is linked with the closure of [l] *)
Lemma seval_var n x r :
  seval (S n) (Var x) r =
  match slookup r x with Some (e, re) => seval n e re | None => Err EUnbound end.
Proof. reflexivity. Qed.

Lemma link_var x r t rl :
  slookup r x = Some (t, rl) -> linked (sden (SC (Var x) r) []) (sden (SC t rl) []).
Proof.
  intros E. split.
  - intros n. rewrite !sden_SC_nil. destruct n; [apply approx_oof|]. rewrite seval_var, E.
    apply seval_approx. lia.
  - intros n H. rewrite sden_SC_nil in *. exists (S n). rewrite sden_SC_nil, seval_var. now rewrite E.
Qed.

(* a control that is a value: the spec control can be taken to be that value *)
Lemma ctrl_value_norm G w sc :
  is_value w = true -> ctrl_rel G w sc ->
  exists v, val_rel G w v /\ linked (sden sc []) (sden (SV v) []).
Proof.
  intros V C. destruct C as [t env r E|w v R].
  - unfold is_value in V; cbn in V. destruct t; try discriminate.
    + exists (VClo x t r). split; [now constructor|]. split.
      * intros n. rewrite sden_SC_nil. destruct n; [apply approx_oof|apply approx_refl].
      * intros n _. exists 1. reflexivity.
    + exists (VNum n). split; [constructor|]. split.
      * intros k. rewrite sden_SC_nil. destruct k; [apply approx_oof|apply approx_refl].
      * intros k _. exists 1. reflexivity.
    + exists (VBool b). split; [constructor|]. split.
      * intros k. rewrite sden_SC_nil. destruct k; [apply approx_oof|apply approx_refl].
      * intros k _. exists 1. reflexivity.
  - exists v. split; auto. apply linked_refl.
Qed.

Lemma inv_norm root G c sc K :
  inv root G c sc K -> is_value (ctrl c) = true ->
  exists v, val_rel G (ctrl c) v /\ inv root G c (SV v) K.
Proof.
  intros I V. destruct (ctrl_value_norm _ _ _ V (inv_ctrl _ _ _ _ _ I)) as (v & R & L).
  exists v. split; auto.
  apply (inv_pure root G c sc K G c (SV v) [] [] [] [] (stack c) K); auto using ext_refl.
  - exact (inv_heap _ _ _ _ _ I).
  - exact (inv_bh _ _ _ _ _ I).
  - now constructor.
Qed.

Lemma val_rel_is_value G w v : val_rel G w v -> is_value w = true.
Proof. destruct 1; reflexivity. Qed.

(* ---------------------------------------------------------------- entering a thunk *)

Lemma link_evaluated t rl n0 v :
  seval n0 t rl = Val v -> linked (sden (SC t rl) []) (sden (SV v) []).
Proof.
  intros E. split.
  - intros n. rewrite sden_SC_nil. change (sden (SV v) [] n) with (Val v).
    destruct (seval n t rl) eqn:En; [right|right|now left].
    + eapply seval_det; eauto; discriminate.
    + eapply seval_det; eauto; discriminate.
  - intros n _. exists n0. now rewrite sden_SC_nil.
Qed.

Lemma sden_upd sc K n : sden sc (SUpd :: K) n = sden sc K n.
Proof. reflexivity. Qed.

(* what the invariant says about the thunk a variable is bound to *)
Lemma var_cell root G c sc K x env l :
  inv root G c sc K -> ctrl c = (CTm (Var x), env) -> assoc env x = Some l ->
  exists r t rl cl envl,
    sc = SC (Var x) r /\ slookup r x = Some (t, rl) /\ nth_error G l = Some (t, rl) /\
    nth_error (hp c) l = Some cl /\ orig cl = (CTm t, envl) /\ env_rel G envl rl /\
    match st cl with
    | Evaluated => exists n v, seval n t rl = Val v /\ val_rel G (cur cl) v
    | _ => cur cl = orig cl
    end.
Proof.
  intros I Ec Ea. pose proof (inv_ctrl _ _ _ _ _ I) as C. rewrite Ec in C.
  inversion C as [t0 env0 r ER|w v VR]; subst; [|inversion VR].
  specialize (ER x). rewrite Ea in ER. destruct ER as ([t rl] & G1 & G2).
  destruct (heap_ok_nth _ _ _ _ (inv_heap _ _ _ _ _ I) G1) as (cl & Ecl).
  destruct (proj2 (inv_heap _ _ _ _ _ I) _ _ Ecl) as (t' & envl & r' & O1 & O2 & O3 & O4).
  rewrite G1 in O2. inversion O2; subst t' r'.
  exists r, t, rl, cl, envl. repeat split; auto.
Qed.

Lemma enter_inv root G c sc K x env l c' :
  inv root G c sc K -> ctrl c = (CTm (Var x), env) -> assoc env x = Some l ->
  enter l c = Next c' ->
  exists sc' K', inv root G c' sc' K'.
Proof.
  intros I Ec Ea E.
  destruct (var_cell _ _ _ _ _ _ _ _ I Ec Ea) as (r & t & rl & cl & envl & -> & SL & GL & Ecl & O1 & O3 & O4).
  pose proof (enter_bh_inv _ _ _ (inv_bh _ _ _ _ _ I) E) as BH.
  unfold enter in E. rewrite Ecl in E.
  destruct (st cl) eqn:Est; try discriminate.
  - (* Suspended *)
    destruct (no_update_needed (cur cl)) eqn:NU; inversion E; subst c'; clear E.
    + (* a value block: no update frame *)
      exists (SC t rl), ([] ++ K).
      apply (inv_pure root G c (SC (Var x) r) K G _ (SC t rl) [] [] [] [] (stack c) K); auto using ext_refl.
      * cbn. eapply heap_ok_upd; eauto using (inv_heap _ _ _ _ _ I).
        exists t, envl, rl. cbn. repeat split; auto. rewrite O4, O1 in NU |- *.
        unfold no_update_needed in NU; cbn in NU. destruct t; try discriminate.
        -- exists 1, (VNum n). split; [reflexivity|constructor].
        -- exists 1, (VBool b). split; [reflexivity|constructor].
      * cbn. rewrite O4, O1. now constructor.
      * now apply link_var.
    + (* push the update frame, black-hole the thunk *)
      exists (SC t rl), (SUpd :: K).
      assert (L0 : linked (sden (SC (Var x) r) []) (sden (SC t rl) [SUpd])).
      { eapply linked_ext; [reflexivity | | apply (link_var _ _ _ _ SL)]. intros n. reflexivity. }
      constructor; cbn.
      * eapply heap_ok_upd; eauto using (inv_heap _ _ _ _ _ I).
        exists t, envl, rl. cbn. repeat split; auto.
      * rewrite O4, O1. now constructor.
      * constructor; [constructor | apply (inv_stack _ _ _ _ _ I)].
      * exact BH.
      * split.
        -- exists t, rl. split; auto. eapply linked_ext; [reflexivity | | apply linked_refl].
           intros n. now rewrite sden_SC_nil.
        -- eapply obls_transfer; [exact L0 | apply (inv_obls _ _ _ _ _ I)].
      * apply (root_transfer root _ _ [] [SUpd] K L0). apply (inv_root _ _ _ _ _ I).
  - (* Evaluated *)
    inversion E; subst c'; clear E. destruct O4 as (n0 & v & EV & VR).
    exists (SV v), ([] ++ K).
    apply (inv_pure root G c (SC (Var x) r) K G _ (SV v) [] [] [] [] (stack c) K); auto using ext_refl.
    + cbn. apply (inv_heap _ _ _ _ _ I).
    + cbn. now constructor.
    + eapply linked_trans; [apply (link_var _ _ _ _ SL) | eapply link_evaluated; eauto].
Qed.

(* ---------------------------------------------------------------- returning a value *)

Lemma fields_assoc G f : forall fl fs,
  fields_rel G fl fs ->
  match assoc fl f with
  | Some (l, b) => exists c, assoc fs f = Some (c, b) /\ nth_error G l = Some c
  | None => assoc fs f = None
  end.
Proof.
  induction 1 as [|[f1 [l1 b1]] [f2 [c2 b2]] fl fs (H1 & H2 & H3) F IH]; cbn in *; auto.
  subst f2 b2. destruct (String.eqb f f1); eauto.
Qed.

Lemma fields_has_key G fl fs f : fields_rel G fl fs -> has_key fl f = has_key fs f.
Proof.
  intros F. pose proof (fields_assoc G f fl fs F) as A. unfold has_key.
  destruct (assoc fl f) as [[l b]|].
  - destruct A as (c & -> & _). reflexivity.
  - now rewrite A.
Qed.

Lemma fields_any_rev G fl fs : fields_rel G fl fs -> any_rev fl = sany_rev fs.
Proof.
  unfold any_rev, sany_rev. induction 1 as [|a b fl fs (H1 & H2 & H3) F IH]; cbn; auto.
  f_equal; [exact H2 | exact IH].
Qed.

Lemma left_part_rel G fl2 fs2 : fields_rel G fl2 fs2 -> forall fl1 fs1,
  fields_rel G fl1 fs1 -> fields_rel G (left_part fl1 fl2) (left_part fs1 fs2).
Proof.
  intros F2. induction 1 as [|a b fl1 fs1 (H1 & H2 & H3) F IH]; cbn; [constructor|].
  rewrite <- H1, (fields_has_key G fl2 fs2 (fst a) F2).
  destruct (has_key fs2 (fst a)); cbn; auto. constructor; auto.
Qed.

(* the fields present on both sides *)
Definition center_rel (G : ghost) (a : string * ((loc * bool) * (loc * bool)))
           (b : string * ((sclos * bool) * (sclos * bool))) : Prop :=
  fst a = fst b /\
  nth_error G (fst (fst (snd a))) = Some (fst (fst (snd b))) /\
  nth_error G (fst (snd (snd a))) = Some (fst (snd (snd b))).

Lemma center_part_rel G fl2 fs2 : fields_rel G fl2 fs2 -> forall fl1 fs1,
  fields_rel G fl1 fs1 -> Forall2 (center_rel G) (center_part fl1 fl2) (center_part fs1 fs2).
Proof.
  intros F2. induction 1 as [|[f1 [l1 b1]] [f1' [c1 b1']] fl1 fs1 (H1 & H2 & H3) F IH]; cbn in *; [constructor|].
  subst f1' b1'. pose proof (fields_assoc G f1 fl2 fs2 F2) as A.
  destruct (assoc fl2 f1) as [[l2 b2]|].
  - destruct A as (c2 & -> & G2). constructor; auto. repeat split; auto.
  - rewrite A. auto.
Qed.

Definition center_clos (b : string * ((sclos * bool) * (sclos * bool))) : sclos :=
  smerge_clos (fst (fst (snd b))) (fst (snd (snd b))).

Lemma env_rel_merge G l1 l2 c1 c2 :
  nth_error G l1 = Some c1 -> nth_error G l2 = Some c2 ->
  env_rel G [("%1", l1); ("%2", l2)] (snd (smerge_clos c1 c2)).
Proof.
  intros H1 H2 x. destruct c1 as [e1 r1], c2 as [e2 r2]. cbn.
  destruct (String.eqb x "%1"); eauto. destruct (String.eqb x "%2"); eauto.
Qed.

(* a copy (with the state reset) of a sound cell is a sound cell for the same ghost closure *)
Lemma copy_cell_cell_ok G G' l p c gc :
  ext G G' -> cell_ok G l c -> nth_error G l = Some gc -> nth_error G' p = Some gc ->
  cell_ok G' p (copy_cell false c).
Proof.
  intros X (t & env & r & O1 & O2 & O3 & O4) GL GP. rewrite GL in O2. inversion O2; subst gc.
  exists t, env, r. unfold copy_cell. cbn. repeat split; eauto using env_rel_ext.
  destruct (st c); auto. destruct O4 as (n & v & E & VR). eauto using val_rel_ext.
Qed.

Definition center_triple (b : string * ((sclos * bool) * (sclos * bool))) : list sclos :=
  [fst (fst (snd b)); fst (snd (snd b)); center_clos b].

(* the thunks allocated for the center fields, against their ghost closures *)
Lemma merge_center_rel (G G' : ghost) h :
  heap_ok G h -> ext G G' ->
  forall cs scs,
  Forall2 (center_rel G) cs scs ->
  forall base cells cfl,
  merge_center false h base cs = (cells, cfl) ->
  (forall i x, nth_error (flat_map center_triple scs) i = Some x -> nth_error G' (base + i) = Some x) ->
  length cells = length (flat_map center_triple scs) /\
  fields_rel G' cfl (map (fun b => (fst b, (center_clos b, false))) scs) /\
  (forall i c, nth_error cells i = Some c -> cell_ok G' (base + i) c).
Proof.
  intros HO EX.
  induction 1 as [|[f [p1 p2]] b cs scs (H1 & H2 & H3) F IH]; intros base cells cfl E NX.
  - inversion E; subst. repeat split; auto; [constructor|]. intros [|i] c X; discriminate.
  - rewrite merge_center_cons in E. cbn [fst snd] in H1, H2, H3.
    destruct (heap_ok_nth _ _ _ _ HO H2) as (c1 & E1). destruct (heap_ok_nth _ _ _ _ HO H3) as (c2 & E2).
    rewrite E1, E2 in E.
    destruct (merge_center false h (3 + base) cs) as [cells' cfl'] eqn:E'. inversion E; subst. clear E.
    destruct (IH (3 + base) cells' cfl' E') as (L & FR & CO).
    { intros i x Ex. specialize (NX (3 + i) x Ex). now replace (base + (3 + i)) with (3 + base + i) in NX by lia. }
    pose proof (NX 0 _ eq_refl) as N0. pose proof (NX 1 _ eq_refl) as N1. pose proof (NX 2 _ eq_refl) as N2.
    rewrite Nat.add_0_r in N0. replace (base + 1) with (S base) in N1 by lia.
    replace (base + 2) with (2 + base) in N2 by lia.
    repeat split.
    + cbn. now rewrite L.
    + cbn. constructor; [cbn; repeat split; auto|exact FR].
    + intros [|[|[|i]]] c X; cbn in X.
      * inversion X; subst c. rewrite Nat.add_0_r.
        exact (copy_cell_cell_ok G G' (fst p1) base c1 _ EX (proj2 HO _ _ E1) H2 N0).
      * inversion X; subst c. replace (base + 1) with (S base) by lia.
        exact (copy_cell_cell_ok G G' (fst p2) (S base) c2 _ EX (proj2 HO _ _ E2) H3 N1).
      * inversion X; subst c. replace (base + 2) with (2 + base) by lia.
        exists merge_body, [("%1", base); ("%2", S base)], (snd (center_clos b)). cbn [orig new_cell st cur].
        repeat split; auto. now apply env_rel_merge.
      * replace (base + S (S (S i))) with (3 + base + i) by lia. apply (CO i c X).
Qed.

Lemma binop_rel G h o a va b vb :
  heap_ok G h -> val_rel G a va -> val_rel G b vb ->
  match binop_eval false o a b h with
  | BVal r cells => exists X vr, sbinop o va vb = Val vr /\ val_rel (G ++ X) r vr /\ heap_ok (G ++ X) (h ++ cells)
  | BErr e => sbinop o va vb = Err e
  end.
Proof.
  intros HO Ha Hb.
  assert (NIL : forall r vr, val_rel G r vr -> forall v0, v0 = Val vr ->
            exists X vr', v0 = Val vr' /\ val_rel (G ++ X) r vr' /\ heap_ok (G ++ X) (h ++ [])).
  { intros r vr R v0 ->. exists [], vr. rewrite !app_nil_r. auto. }
  destruct Ha as [x ea|x ea|x bx ea ra ERa|fl1 ea fs1 F1], Hb as [y eb|y eb|y by_ eb rb ERb|fl2 eb fs2 F2];
    destruct o; cbn; auto;
    try (eapply NIL; [constructor|reflexivity]).
  - destruct (Z.eqb x y); auto. eapply NIL; [constructor|reflexivity].
  - destruct (Bool.eqb x y); auto. eapply NIL; [constructor|reflexivity].
  - (* record & record *)
    rewrite (fields_any_rev _ _ _ F1), (fields_any_rev _ _ _ F2).
    destruct (sany_rev fs1 || sany_rev fs2); auto.
    destruct (merge_center false h (length h) (center_part fl1 fl2)) as [cells cfl] eqn:EM.
    set (scs := center_part fs1 fs2).
    set (X := flat_map center_triple scs).
    assert (EX : ext G (G ++ X)) by (now exists X).
    pose proof (center_part_rel G fl2 fs2 F2 fl1 fs1 F1) as CR.
    destruct (merge_center_rel G (G ++ X) h HO EX _ _ CR (length h) cells cfl EM) as (L & FR & CO).
    { intros i x0 Ex. rewrite <- (proj1 HO). rewrite nth_error_app2 by lia.
      now replace (length G + i - length G) with i by lia. }
    exists X, (VRec (smerge_fields fs1 fs2)). split; auto. split.
    + constructor. unfold fields_rel, smerge_fields. apply Forall2_app; [|apply Forall2_app].
      * eapply Forall2_weaken; [|apply (left_part_rel G fl2 fs2 F2 fl1 fs1 F1)].
        intros p q (Q1 & Q2 & Q3). repeat split; eauto using ext_nth.
      * exact FR.
      * eapply Forall2_weaken; [|apply (left_part_rel G fl1 fs1 F1 fl2 fs2 F2)].
        intros p q (Q1 & Q2 & Q3). repeat split; eauto using ext_nth.
    + apply heap_ok_alloc; auto.
Qed.

Lemma env_rel_ptr G l ef re :
  nth_error G l = Some (ef, re) -> env_rel G [("%", l)] (ECons "%" ef re ENil).
Proof.
  intros H x. cbn. destruct (String.eqb x "%"); eauto.
Qed.

Lemma stack_cons_inv G fr S K :
  Forall2 (frame_rel G) (fr :: S) K -> exists k K0, K = k :: K0 /\ frame_rel G fr k /\ Forall2 (frame_rel G) S K0.
Proof. intros H. inversion H; subst. eauto. Qed.

Lemma ret_inv root G c v K c' :
  inv root G c (SV v) K -> val_rel G (ctrl c) v -> ret c = Next c' ->
  exists G' sc' K', ext G G' /\ inv root G' c' sc' K'.
Proof.
  intros I VR E.
  pose proof (ret_bh_inv _ _ (inv_bh _ _ _ _ _ I) E) as BH.
  unfold ret_gen in E. destruct (stack c) as [|fr S0] eqn:ES; try discriminate.
  destruct (stack_cons_inv _ _ _ _ ltac:(rewrite <- ES; apply (inv_stack _ _ _ _ _ I))) as (k & K0 & -> & FR & FS).
  destruct fr as [a|l|o c2|o v1c|ct ce|f|sq]; try discriminate.
  - (* update frame *)
    inversion E; subst c'; clear E. inversion FR; subst k.
    pose proof (inv_obls _ _ _ _ _ I) as OB. rewrite ES in OB. cbn in OB.
    destruct OB as [(t & r & GL & LK) OB].
    assert (B : blackholed (hp c) l).
    { apply (proj2 (inv_bh _ _ _ _ _ I)). rewrite ES. now left. }
    destruct B as (cl & Ecl & Bst).
    destruct (proj2 (inv_heap _ _ _ _ _ I) _ _ Ecl) as (t' & envl & r' & O1 & O2 & O3 & O4).
    rewrite GL in O2. inversion O2; subst t' r'.
    exists G, (SV v), K0. split; [apply ext_refl|]. constructor; cbn.
    + eapply heap_ok_upd; eauto using (inv_heap _ _ _ _ _ I).
      exists t, envl, r. cbn. repeat split; auto.
      destruct (proj2 LK 0) as (m & Em); [discriminate|].
      exists m, v. split; auto.
    + now constructor.
    + exact FS.
    + exact BH.
    + eapply obls_transfer; [|exact OB]. eapply linked_ext; [| |apply linked_refl]; reflexivity.
    + eapply linked_ext; [| |apply (inv_root _ _ _ _ _ I)]; reflexivity.
  - (* first operand evaluated: evaluate the second *)
    inversion E; subst c'; clear E. inversion FR; subst.
    exists G, (SC b r), ([SOp2Second o v] ++ K0). split; [apply ext_refl|].
    apply (inv_pure root G c (SV v) (SOp2First o b r :: K0) G _ (SC b r)
             [FOp2First o (CTm b, env)] [SOp2First o b r] [FOp2Second o (ctrl c)] [SOp2Second o v] S0 K0);
      auto using ext_refl.
    + constructor; [now constructor|constructor].
    + cbn. apply (inv_heap _ _ _ _ _ I).
    + cbn. now constructor.
    + eapply linked_ext; [| |apply linked_refl]; reflexivity.
  - (* both operands evaluated *)
    inversion FR; subst.
    match goal with H : val_rel G v1c ?v0 |- _ =>
      pose proof (binop_rel G (hp c) o v1c v0 (ctrl c) v (inv_heap _ _ _ _ _ I) H VR) as BR; rename v0 into va end.
    destruct (binop_eval false o v1c (ctrl c) (hp c)) as [rr cells|e]; inversion E; subst c'; clear E.
    destruct BR as (X & vr & SB & VRr & HOr).
    exists (G ++ X), (SV vr), ([] ++ K0). split; [apply ext_snoc|].
    apply (inv_pure root G c (SV v) (SOp2Second o va :: K0) (G ++ X) _ (SV vr)
             [FOp2Second o v1c] [SOp2Second o va] [] [] S0 K0); auto using ext_snoc.
    + cbn. now constructor.
    + eapply linked_ext; [| |apply linked_refl]; [reflexivity|].
      intros n. unfold sden. cbn. now rewrite SB.
  - (* if *)
    inversion FR; subst.
    destruct (fst (ctrl c)) as [[]|] eqn:EC; try discriminate.
    destruct (ctrl c) as [cc ce'] eqn:ECC. cbn in EC. subst cc.
    inversion VR; subst.
    destruct b; inversion E; subst c'; clear E.
    + exists G, (SC t rt), ([] ++ K0). split; [apply ext_refl|].
      apply (inv_pure root G c (SV (VBool true)) (SIf t rt e re :: K0) G _ (SC t rt)
               [FIf (CTm t, envt) (CTm e, enve)] [SIf t rt e re] [] [] S0 K0); auto using ext_refl.
      * cbn. apply (inv_heap _ _ _ _ _ I).
      * cbn. now constructor.
      * eapply linked_ext; [| |apply linked_refl]; reflexivity.
    + exists G, (SC e re), ([] ++ K0). split; [apply ext_refl|].
      apply (inv_pure root G c (SV (VBool false)) (SIf t rt e re :: K0) G _ (SC e re)
               [FIf (CTm t, envt) (CTm e, enve)] [SIf t rt e re] [] [] S0 K0); auto using ext_refl.
      * cbn. apply (inv_heap _ _ _ _ _ I).
      * cbn. now constructor.
      * eapply linked_ext; [| |apply linked_refl]; reflexivity.
  - (* field access *)
    inversion FR; subst.
    destruct (fst (ctrl c)) as [|fl] eqn:EC; try discriminate.
    destruct (ctrl c) as [cc ce'] eqn:ECC. cbn in EC. subst cc.
    inversion VR; subst.
    match goal with H : fields_rel G fl ?fs0 |- _ => pose proof (fields_assoc G f fl fs0 H) as FA; rename fs0 into fs end.
    destruct (assoc fl f) as [[l bb]|]; inversion E; subst c'; clear E.
    destruct FA as ([ef re] & A1 & A2).
    exists G, (SC (Var "%") (ECons "%" ef re ENil)), ([] ++ K0). split; [apply ext_refl|].
    apply (inv_pure root G c (SV (VRec fs)) (SProj f :: K0) G _ _
             [FProj f] [SProj f] [] [] S0 K0); auto using ext_refl.
    + cbn. apply (inv_heap _ _ _ _ _ I).
    + cbn. constructor. now apply env_rel_ptr.
    + eapply linked_ext; [| |apply linked_refl]; [reflexivity|].
      intros n. unfold sden. cbn. destruct n; auto. cbn. rewrite A1. cbn.
      now rewrite !bind_val.
  - (* seq: the value is dropped *)
    inversion E; subst c'; clear E. inversion FR; subst.
    exists G, (SC b r), ([] ++ K0). split; [apply ext_refl|].
    apply (inv_pure root G c (SV v) (SSeq b r :: K0) G _ (SC b r)
             [FSeq (CTm b, env)] [SSeq b r] [] [] S0 K0); auto using ext_refl.
    + cbn. apply (inv_heap _ _ _ _ _ I).
    + cbn. now constructor.
    + eapply linked_ext; [| |apply linked_refl]; reflexivity.
Qed.

(* ---------------------------------------------------------------- links of the direct steps *)

Lemma bind_val' {A} (r : res A) : bind r (fun v => Val v) = r.
Proof. destruct r; reflexivity. Qed.

Lemma link_step_same t r t' r' :
  (forall n, seval (S n) t r = seval n t' r') ->
  linked (sden (SC t r) []) (sden (SC t' r') []).
Proof.
  intros H. split.
  - intros n. rewrite !sden_SC_nil. destruct n; [apply approx_oof|]. rewrite H.
    apply seval_approx. lia.
  - intros n _. exists (S n). now rewrite !sden_SC_nil, H.
Qed.

Lemma seval_app n f a r :
  seval (S n) (App f a) r =
  bind (seval n f r) (fun vf => match vf with
                                | VClo x b rf => seval n b (ECons x a r rf)
                                | _ => Err ENotAFunc end).
Proof. reflexivity. Qed.

Lemma link_app f a r : linked (sden (SC (App f a) r) []) (sden (SC f r) [SArg a r]).
Proof.
  split.
  - intros n. rewrite sden_SC_nil. destruct n; [apply approx_oof|]. rewrite seval_app.
    unfold sden. cbn [sctrl_eval sapply]. apply approx_bind; [apply seval_approx; lia|].
    intros [| |x b rf|]; try apply approx_refl. rewrite bind_val'. apply seval_approx. lia.
  - intros n _. exists (S n). rewrite sden_SC_nil, seval_app. unfold sden. cbn [sctrl_eval sapply].
    destruct (seval n f r) as [[| |x b rf|]| |]; cbn [bind]; auto. now rewrite bind_val'.
Qed.

Lemma seval_op2 n o a b r :
  seval (S n) (Op2 o a b) r =
  bind (seval n a r) (fun va => bind (seval n b r) (fun vb => sbinop o va vb)).
Proof. reflexivity. Qed.

Lemma link_op2 o a b r : linked (sden (SC (Op2 o a b) r) []) (sden (SC a r) [SOp2First o b r]).
Proof.
  split.
  - intros n. rewrite sden_SC_nil. destruct n; [apply approx_oof|]. rewrite seval_op2.
    unfold sden. cbn [sctrl_eval sapply]. apply approx_bind; [apply seval_approx; lia|].
    intros va. apply approx_bind; [apply seval_approx; lia|].
    intros vb. rewrite bind_val'. apply approx_refl.
  - intros n _. exists (S n). rewrite sden_SC_nil, seval_op2. unfold sden. cbn [sctrl_eval sapply].
    destruct (seval n a r) as [va| |]; cbn [bind]; auto.
    destruct (seval n b r) as [vb| |]; cbn [bind]; auto. now rewrite bind_val'.
Qed.

Lemma seval_if n c t e r :
  seval (S n) (If c t e) r =
  bind (seval n c r) (fun vc => match vc with
                                | VBool true => seval n t r
                                | VBool false => seval n e r
                                | _ => Err ETypeErr end).
Proof. reflexivity. Qed.

Lemma link_if c t e r : linked (sden (SC (If c t e) r) []) (sden (SC c r) [SIf t r e r]).
Proof.
  split.
  - intros n. rewrite sden_SC_nil. destruct n; [apply approx_oof|]. rewrite seval_if.
    unfold sden. cbn [sctrl_eval sapply]. apply approx_bind; [apply seval_approx; lia|].
    intros [|[|]| |]; try apply approx_refl; rewrite bind_val'; apply seval_approx; lia.
  - intros n _. exists (S n). rewrite sden_SC_nil, seval_if. unfold sden. cbn [sctrl_eval sapply].
    destruct (seval n c r) as [[|[|]| |]| |]; cbn [bind]; auto; now rewrite bind_val'.
Qed.

Lemma seval_proj n e f r :
  seval (S n) (Proj e f) r =
  bind (seval n e r) (fun ve => match ve with
                                | VRec fs =>
                                    match assoc fs f with
                                    | Some (cf, _) => seval n (fst cf) (snd cf)
                                    | None => Err EFieldMissing
                                    end
                                | _ => Err ETypeErr end).
Proof. reflexivity. Qed.

Lemma link_proj e f r : linked (sden (SC (Proj e f) r) []) (sden (SC e r) [SProj f]).
Proof.
  split.
  - intros n. rewrite sden_SC_nil. destruct n; [apply approx_oof|]. rewrite seval_proj.
    unfold sden. cbn [sctrl_eval sapply]. apply approx_bind; [apply seval_approx; lia|].
    intros [| | |fs]; try apply approx_refl. destruct (assoc fs f) as [[cf bb]|]; try apply approx_refl.
    rewrite bind_val'. apply approx_refl.
  - intros n H. destruct n as [|n]; [exfalso; apply H; reflexivity|].
    exists (S (S n)). rewrite sden_SC_nil, seval_proj. unfold sden in *. cbn [sctrl_eval sapply] in *.
    destruct (seval (S n) e r) as [[| | |fs]| |]; cbn [bind] in *; auto.
    destruct (assoc fs f) as [[cf bb]|]; auto. rewrite bind_val' in *.
    apply seval_mono; auto.
Qed.

Lemma link_rec fs r : linked (sden (SC (Rec fs) r) []) (sden (SV (VRec (fields_of_lit fs r))) []).
Proof.
  split.
  - intros n. rewrite sden_SC_nil. destruct n; [apply approx_oof|apply approx_refl].
  - intros n _. exists 1. reflexivity.
Qed.

Lemma seval_seq n a b r :
  seval (S n) (Seq a b) r = bind (seval n a r) (fun _ => seval n b r).
Proof. reflexivity. Qed.

Lemma link_seq a b r : linked (sden (SC (Seq a b) r) []) (sden (SC a r) [SSeq b r]).
Proof.
  split.
  - intros n. rewrite sden_SC_nil. destruct n; [apply approx_oof|]. rewrite seval_seq.
    unfold sden. cbn [sctrl_eval sapply]. apply approx_bind; [apply seval_approx; lia|].
    intros _. rewrite bind_val'. apply seval_approx. lia.
  - intros n _. exists (S n). rewrite sden_SC_nil, seval_seq. unfold sden. cbn [sctrl_eval sapply].
    destruct (seval n a r); cbn [bind]; auto. now rewrite bind_val'.
Qed.

Lemma link_lam_apply x b r a ra :
  linked (sden (SV (VClo x b r)) [SArg a ra]) (sden (SC b (ECons x a ra r)) []).
Proof. eapply linked_ext; [| |apply linked_refl]; reflexivity. Qed.

(* ---------------------------------------------------------------- environments *)

Lemma env_rel_cons G env r x l t rt :
  env_rel G env r -> nth_error G l = Some (t, rt) -> env_rel G ((x, l) :: env) (ECons x t rt r).
Proof.
  intros H E y. cbn. destruct (String.eqb y x); eauto. apply H.
Qed.

Lemma env_rel_letrec G env r x l e :
  env_rel G env r -> nth_error G l = Some (e, ERec [(x, e)] r) ->
  env_rel G ((x, l) :: env) (ERec [(x, e)] r).
Proof.
  intros H E y. cbn. destruct (String.eqb y x); eauto. apply H.
Qed.

Lemma assoc_app {A} (l1 l2 : list (string * A)) x :
  assoc (l1 ++ l2) x = match assoc l1 x with Some a => Some a | None => assoc l2 x end.
Proof.
  induction l1 as [|[y a] l1 IH]; cbn; auto. destruct (String.eqb x y); auto.
Qed.

Lemma assoc_map_snd {A B} (g : A -> B) (l : list (string * A)) y :
  assoc (map (fun fe => (fst fe, g (snd fe))) l) y = option_map g (assoc l y).
Proof.
  induction l as [|[x a] l IH]; cbn; auto. destruct (String.eqb y x); auto.
Qed.

Lemma assoc_locs_of (fl : rfields) y : assoc (locs_of fl) y = option_map fst (assoc fl y).
Proof. apply (assoc_map_snd fst fl y). Qed.

Lemma assoc_fields_of_lit fs r y :
  assoc (fields_of_lit fs r) y =
  option_map (fun e => ((e, ERec fs r), fvb [] (map fst fs) e)) (assoc fs y).
Proof. apply (assoc_map_snd (fun e => ((e, ERec fs r), fvb [] (map fst fs) e)) fs y). Qed.

Lemma env_rel_rec G env r fs fl :
  env_rel G env r -> fields_rel G fl (fields_of_lit fs r) -> env_rel G (locs_of fl ++ env) (ERec fs r).
Proof.
  intros H F y. rewrite assoc_app, assoc_locs_of.
  pose proof (fields_assoc G y fl _ F) as FA. rewrite assoc_fields_of_lit in FA.
  cbn [slookup]. destruct (assoc fl y) as [[l b]|]; cbn [option_map fst].
  - destruct FA as (c & A1 & A2). destruct (assoc fs y) as [e|]; cbn in A1; [|discriminate].
    inversion A1; subst. eauto.
  - destruct (assoc fs y) as [e|]; cbn in FA; [discriminate|]. apply H.
Qed.

Lemma fields_rel_alloc (G' : ghost) fs0 r : forall fs base,
  (forall i fe, nth_error fs i = Some fe -> nth_error G' (base + i) = Some (snd fe, ERec fs0 r)) ->
  fields_rel G'
    (combine (map fst fs) (combine (seq base (length fs)) (map (fun fe => fvb [] (map fst fs0) (snd fe)) fs)))
    (map (fun fe => (fst fe, ((snd fe, ERec fs0 r), fvb [] (map fst fs0) (snd fe)))) fs).
Proof.
  induction fs as [|fe fs IH]; intros base H; cbn; constructor.
  - cbn. repeat split; auto. specialize (H 0 fe eq_refl). now rewrite Nat.add_0_r in H.
  - apply IH. intros i fe' E. specialize (H (S i) fe' E). now rewrite Nat.add_succ_r in H.
Qed.

Lemma ctrl_tm_inv G t env sc :
  ctrl_rel G (CTm t, env) sc -> is_value (CTm t, env) = false ->
  exists r, sc = SC t r /\ env_rel G env r.
Proof.
  intros C V. inversion C as [t0 env0 r ER|w v VR]; subst; eauto.
  apply val_rel_is_value in VR. congruence.
Qed.

(* ---------------------------------------------------------------- one step preserves the invariant *)

Lemma heap_ok_alloc1 G h gt gr t env :
  heap_ok G h -> env_rel (G ++ [(gt, gr)]) env gr -> gt = t ->
  heap_ok (G ++ [(gt, gr)]) (h ++ [new_cell (CTm t, env)]).
Proof.
  intros H ER ->. apply heap_ok_alloc; auto.
  intros [|i] c E; cbn in E; inversion E; subst; [|destruct i; discriminate].
  exists t, env, gr. cbn. repeat split; auto.
  rewrite Nat.add_0_r, <- (proj1 H). now rewrite nth_error_app2, Nat.sub_diag by lia.
Qed.


Theorem step_inv root G c sc K c' :
  inv root G c sc K -> step c = Next c' ->
  exists G' sc' K', ext G G' /\ inv root G' c' sc' K'.
Proof.
  intros I E.
  pose proof (step_bh_inv _ _ (inv_bh _ _ _ _ _ I) E) as BH.
  assert (RET : is_value (ctrl c) = true -> ret c = Next c' ->
                exists G' sc' K', ext G G' /\ inv root G' c' sc' K').
  { intros V R. destruct (inv_norm _ _ _ _ _ I V) as (v & VR & I').
    exact (ret_inv _ _ _ _ _ _ I' VR R). }
  pose proof (inv_heap _ _ _ _ _ I) as HO. pose proof (proj1 HO) as LG.
  unfold step_gen in E. destruct (ctrl c) as [code env] eqn:EC. cbn [fst snd] in E.
  destruct code as [t|fl]; [|apply RET; auto].
  destruct t.
  - (* Var *)
    destruct (assoc env x) as [l|] eqn:EA; try discriminate.
    destruct (enter_inv _ _ _ _ _ _ _ _ _ I EC EA E) as (sc' & K' & I'). exists G, sc', K'. split; auto using ext_refl.
  - (* Lam *)
    destruct (stack c) as [|[a| | | | | |] s] eqn:ES; try (apply RET; auto; fail).
    destruct (inv_norm _ _ _ _ _ I ltac:(rewrite EC; reflexivity)) as (v & VR & I').
    rewrite EC in VR. inversion VR as [| |x0 b0 env0 r ER|]; subst.
    destruct (stack_cons_inv _ _ _ _ ltac:(rewrite <- ES; apply (inv_stack _ _ _ _ _ I'))) as (k & K0 & -> & FR & FS).
    inversion FR as [a0 enva ra ERa| | | | | |]; subst. inversion E; subst c'; clear E.
    assert (ERx : env_rel (G ++ [(a0, ra)]) ((x, length (hp c)) :: env) (ECons x a0 ra r)).
    { apply env_rel_cons; [eapply env_rel_ext; [apply ext_snoc|auto]|].
      rewrite <- LG. now rewrite nth_error_app2, Nat.sub_diag by lia. }
    exists (G ++ [(a0, ra)]), (SC t (ECons x a0 ra r)), ([] ++ K0). split; [apply ext_snoc|].
    apply (inv_pure root G c (SV (VClo x t r)) (SArg a0 ra :: K0) (G ++ [(a0, ra)]) _ _
             [FArg (CTm a0, enva)] [SArg a0 ra] [] [] s K0); auto using ext_snoc.
    all: cbn [ctrl stack hp].
    all: lazymatch goal with
         | |- heap_ok _ _ => apply heap_ok_alloc1; auto; eapply env_rel_ext; [apply ext_snoc|auto]
         | |- ctrl_rel _ _ _ => now constructor
         | |- linked _ _ => apply link_lam_apply
         | |- _ => idtac
         end.
  - (* App *)
    destruct (ctrl_tm_inv _ _ _ _ ltac:(rewrite <- EC; apply (inv_ctrl _ _ _ _ _ I)) eq_refl) as (r & -> & ER).
    inversion E; subst c'; clear E.
    exists G, (SC t1 r), ([SArg t2 r] ++ K). split; [apply ext_refl|].
    apply (inv_pure root G c (SC (App t1 t2) r) K G _ _ [] [] [FArg (CTm t2, env)] [SArg t2 r] (stack c) K);
      auto using ext_refl.
    all: cbn [ctrl stack hp].
    all: lazymatch goal with
         | |- Forall2 _ _ _ => constructor; [now constructor|constructor]
         | |- ctrl_rel _ _ _ => now constructor
         | |- linked _ _ => apply link_app
         | |- _ => idtac
         end.
  - (* Let *)
    destruct (ctrl_tm_inv _ _ _ _ ltac:(rewrite <- EC; apply (inv_ctrl _ _ _ _ _ I)) eq_refl) as (r & -> & ER).
    inversion E; subst c'; clear E.
    assert (ERx : env_rel (G ++ [(t1, r)]) ((x, length (hp c)) :: env) (ECons x t1 r r)).
    { apply env_rel_cons; [eapply env_rel_ext; [apply ext_snoc|auto]|].
      rewrite <- LG. now rewrite nth_error_app2, Nat.sub_diag by lia. }
    exists (G ++ [(t1, r)]), (SC t2 (ECons x t1 r r)), ([] ++ K). split; [apply ext_snoc|].
    apply (inv_pure root G c (SC (Let x t1 t2) r) K (G ++ [(t1, r)]) _ _ [] [] [] [] (stack c) K);
      auto using ext_snoc.
    all: cbn [ctrl stack hp].
    all: lazymatch goal with
         | |- heap_ok _ _ => apply heap_ok_alloc1; auto; eapply env_rel_ext; [apply ext_snoc|auto]
         | |- ctrl_rel _ _ _ => now constructor
         | |- linked _ _ => apply link_step_same; reflexivity
         | |- _ => idtac
         end.
  - (* LetRec *)
    destruct (ctrl_tm_inv _ _ _ _ ltac:(rewrite <- EC; apply (inv_ctrl _ _ _ _ _ I)) eq_refl) as (r & -> & ER).
    inversion E; subst c'; clear E.
    assert (ER' : env_rel (G ++ [(t1, ERec [(x, t1)] r)]) ((x, length (hp c)) :: env) (ERec [(x, t1)] r)).
    { apply env_rel_letrec; [eapply env_rel_ext; [apply ext_snoc|auto]|].
      rewrite <- LG. now rewrite nth_error_app2, Nat.sub_diag by lia. }
    exists (G ++ [(t1, ERec [(x, t1)] r)]), (SC t2 (ERec [(x, t1)] r)), ([] ++ K). split; [apply ext_snoc|].
    apply (inv_pure root G c (SC (LetRec x t1 t2) r) K (G ++ [(t1, ERec [(x, t1)] r)]) _ _ [] [] [] [] (stack c) K);
      auto using ext_snoc.
    all: cbn [ctrl stack hp].
    all: lazymatch goal with
         | |- heap_ok _ _ => apply heap_ok_alloc1; auto
         | |- ctrl_rel _ _ _ => now constructor
         | |- linked _ _ => apply link_step_same; reflexivity
         | |- _ => idtac
         end.
  - apply RET; auto; now rewrite EC.
  - apply RET; auto; now rewrite EC.
  - (* Op2 *)
    destruct (ctrl_tm_inv _ _ _ _ ltac:(rewrite <- EC; apply (inv_ctrl _ _ _ _ _ I)) eq_refl) as (r & -> & ER).
    inversion E; subst c'; clear E.
    exists G, (SC t1 r), ([SOp2First o t2 r] ++ K). split; [apply ext_refl|].
    apply (inv_pure root G c (SC (Op2 o t1 t2) r) K G _ _ [] [] [FOp2First o (CTm t2, env)] [SOp2First o t2 r] (stack c) K);
      auto using ext_refl.
    all: cbn [ctrl stack hp].
    all: lazymatch goal with
         | |- Forall2 _ _ _ => constructor; [now constructor|constructor]
         | |- ctrl_rel _ _ _ => now constructor
         | |- linked _ _ => apply link_op2
         | |- _ => idtac
         end.
  - (* If *)
    destruct (ctrl_tm_inv _ _ _ _ ltac:(rewrite <- EC; apply (inv_ctrl _ _ _ _ _ I)) eq_refl) as (r & -> & ER).
    inversion E; subst c'; clear E.
    exists G, (SC t1 r), ([SIf t2 r t3 r] ++ K). split; [apply ext_refl|].
    apply (inv_pure root G c (SC (If t1 t2 t3) r) K G _ _ [] [] [FIf (CTm t2, env) (CTm t3, env)] [SIf t2 r t3 r] (stack c) K);
      auto using ext_refl.
    all: cbn [ctrl stack hp].
    all: lazymatch goal with
         | |- Forall2 _ _ _ => constructor; [now constructor|constructor]
         | |- ctrl_rel _ _ _ => now constructor
         | |- linked _ _ => apply link_if
         | |- _ => idtac
         end.
  - (* Rec *)
    destruct (ctrl_tm_inv _ _ _ _ ltac:(rewrite <- EC; apply (inv_ctrl _ _ _ _ _ I)) eq_refl) as (r & -> & ER).
    unfold alloc_rec in E. inversion E; subst c'; clear E.
    set (fl := combine (map fst fs) (combine (seq (length (hp c)) (length fs))
                                             (map (fun fe => fvb [] (map fst fs) (snd fe)) fs))).
    set (X := map (fun fe : string * tm => (snd fe, ERec fs r)) fs).
    assert (NX : forall i fe, nth_error fs i = Some fe ->
                              nth_error (G ++ X) (length (hp c) + i) = Some (snd fe, ERec fs r)).
    { intros i fe Ei. rewrite <- LG. rewrite nth_error_app2 by lia.
      replace (length G + i - length G) with i by lia. unfold X. now rewrite nth_error_map, Ei. }
    assert (FRl : fields_rel (G ++ X) fl (fields_of_lit fs r)) by (apply fields_rel_alloc; exact NX).
    assert (ER' : env_rel (G ++ X) (locs_of fl ++ env) (ERec fs r)).
    { apply env_rel_rec; auto. eapply env_rel_ext; [apply ext_snoc|auto]. }
    exists (G ++ X), (SV (VRec (fields_of_lit fs r))), ([] ++ K). split; [apply ext_snoc|].
    apply (inv_pure root G c (SC (Rec fs) r) K (G ++ X) _ _ [] [] [] [] (stack c) K);
      auto using ext_snoc.
    all: cbn [ctrl stack hp].
    all: lazymatch goal with
         | |- heap_ok _ _ =>
             apply heap_ok_alloc; auto;
             [ unfold X; now rewrite !map_length
             | intros i c0 Ei; rewrite nth_error_map in Ei;
               destruct (nth_error fs i) as [fe|] eqn:Efe; cbn in Ei; inversion Ei; subst c0;
               exists (snd fe), (locs_of fl ++ env), (ERec fs r); cbn; repeat split; auto ]
         | |- ctrl_rel _ _ _ => constructor; now constructor
         | |- linked _ _ => apply link_rec
         | |- _ => idtac
         end.
  - (* Proj *)
    destruct (ctrl_tm_inv _ _ _ _ ltac:(rewrite <- EC; apply (inv_ctrl _ _ _ _ _ I)) eq_refl) as (r & -> & ER).
    inversion E; subst c'; clear E.
    exists G, (SC t r), ([SProj f] ++ K). split; [apply ext_refl|].
    apply (inv_pure root G c (SC (Proj t f) r) K G _ _ [] [] [FProj f] [SProj f] (stack c) K);
      auto using ext_refl.
    all: cbn [ctrl stack hp].
    all: lazymatch goal with
         | |- Forall2 _ _ _ => constructor; [constructor|constructor]
         | |- ctrl_rel _ _ _ => now constructor
         | |- linked _ _ => apply link_proj
         | |- _ => idtac
         end.
  - (* Seq *)
    destruct (ctrl_tm_inv _ _ _ _ ltac:(rewrite <- EC; apply (inv_ctrl _ _ _ _ _ I)) eq_refl) as (r & -> & ER).
    inversion E; subst c'; clear E.
    exists G, (SC t1 r), ([SSeq t2 r] ++ K). split; [apply ext_refl|].
    apply (inv_pure root G c (SC (Seq t1 t2) r) K G _ _ [] [] [FSeq (CTm t2, env)] [SSeq t2 r] (stack c) K);
      auto using ext_refl.
    all: cbn [ctrl stack hp].
    all: lazymatch goal with
         | |- Forall2 _ _ _ => constructor; [now constructor|constructor]
         | |- ctrl_rel _ _ _ => now constructor
         | |- linked _ _ => apply link_seq
         | |- _ => idtac
         end.
  - discriminate.
Qed.

(* ---------------------------------------------------------------- final results and errors *)

Lemma ret_done_value c : ret c = Done -> stack c = [].
Proof.
  unfold ret_gen. destruct (stack c) as [|[a|l|o c2|o v1|t e|f|sq] s]; auto; try discriminate.
  - destruct (binop_eval false o v1 (ctrl c) (hp c)); discriminate.
  - destruct (fst (ctrl c)) as [[]|]; try discriminate. destruct b; discriminate.
  - destruct (fst (ctrl c)) as [|fl]; try discriminate. destruct (assoc fl f) as [[? ?]|]; discriminate.
Qed.

Lemma step_done_value c : step c = Done -> is_value (ctrl c) = true.
Proof.
  unfold step_gen, is_value. destruct (fst (ctrl c)) as [t|fl]; auto.
  destruct t; auto; try discriminate.
  - destruct (assoc (snd (ctrl c)) x) as [l|]; try discriminate. unfold enter.
    destruct (nth_error (hp c) l) as [cl|]; try discriminate.
    destruct (st cl); try discriminate. destruct (no_update_needed (cur cl)); discriminate.
Qed.

Theorem step_done_sound root G c sc K :
  inv root G c sc K -> step c = Done ->
  exists v m, val_rel G (ctrl c) v /\ root m = Val v.
Proof.
  intros I E. pose proof (step_done_stack _ E) as ES.
  destruct (inv_norm _ _ _ _ _ I (step_done_value _ E)) as (v & VR & I').
  pose proof (inv_stack _ _ _ _ _ I') as FS. rewrite ES in FS. inversion FS; subst.
  destruct (proj2 (inv_root _ _ _ _ _ I') 0) as (m & Em); [discriminate|].
  exists v, m. split; auto.
Qed.

Lemma root_error root sc K e n0 :
  linked root (sden sc K) -> sden sc K n0 = Err e -> exists m, root m = Err e.
Proof.
  intros [_ B] E. destruct (B n0) as (m & Em); [rewrite E; discriminate|].
  exists m. now rewrite Em.
Qed.

Lemma ret_raise root G c v K e :
  inv root G c (SV v) K -> val_rel G (ctrl c) v ->
  (forall x b, fst (ctrl c) = CTm (Lam x b) -> forall a s, stack c <> FArg a :: s) ->
  ret c = Raise e ->
  e <> EInfRec /\ exists n0, sden (SV v) K n0 = Err e.
Proof.
  intros I VR NL E. unfold ret_gen in E. destruct (stack c) as [|fr S0] eqn:ES; try discriminate.
  destruct (stack_cons_inv _ _ _ _ ltac:(rewrite <- ES; apply (inv_stack _ _ _ _ _ I))) as (k & K0 & -> & FR & FS).
  destruct fr as [a|l|o c2|o v1c|ct ce|f|sq]; try discriminate.
  - (* not a function *)
    inversion E; subst e. split; [discriminate|]. inversion FR; subst. exists 0.
    rewrite sden_SV. cbn. destruct VR; auto.
    exfalso. eapply NL; reflexivity.
  - inversion FR; subst.
    match goal with H : val_rel G v1c ?v0 |- _ =>
      pose proof (binop_rel G (hp c) o v1c v0 (ctrl c) v (inv_heap _ _ _ _ _ I) H VR) as BR end.
    destruct (binop_eval false o v1c (ctrl c) (hp c)) as [rr cells|e0] eqn:EB; inversion E; subst e0.
    split.
    + (* a primitive operation never reports an infinite recursion *)
      intros ->. unfold binop_eval in EB.
      destruct o; destruct (fst v1c) as [[]|]; destruct (fst (ctrl c)) as [[]|]; try discriminate;
        repeat match type of EB with (if ?x then _ else _) = _ => destruct x end; try discriminate;
        destruct (merge_center false (hp c) (length (hp c)) (center_part fs fs0)); discriminate.
    + exists 0. rewrite sden_SV. cbn. now rewrite BR.
  - inversion FR; subst.
    assert (T : e = ETypeErr /\ (forall b, v <> VBool b)).
    { destruct VR; cbn in E; try (inversion E; split; [auto|intros; discriminate]).
      destruct b; discriminate. }
    destruct T as [-> T]. split; [discriminate|]. exists 0. rewrite sden_SV. cbn.
    destruct v as [|b| |]; auto. exfalso. eapply T; eauto.
  - inversion FR; subst.
    destruct VR as [n env|b env|x b env r ER|fl env fs F]; cbn in E.
    + inversion E; subst e. split; [discriminate|]. exists 1. reflexivity.
    + inversion E; subst e. split; [discriminate|]. exists 1. reflexivity.
    + inversion E; subst e. split; [discriminate|]. exists 1. reflexivity.
    + pose proof (fields_assoc G f fl fs F) as FA.
      destruct (assoc fl f) as [[l bb]|]; inversion E; subst e. split; [discriminate|]. exists 1.
      rewrite sden_SV. cbn. now rewrite FA.
Qed.

(* an error raised by the machine is the error of the call-by-name meaning; a reported infinite
   recursion is a divergence of the call-by-name meaning *)
Theorem step_raise_sound root G c sc K e :
  inv root G c sc K -> step c = Raise e ->
  (e = EInfRec -> forall n, root n = OOF) /\ (e <> EInfRec -> exists m, root m = Err e).
Proof.
  intros I E.
  assert (RET : is_value (ctrl c) = true ->
                (forall x b, fst (ctrl c) = CTm (Lam x b) -> forall a s, stack c <> FArg a :: s) ->
                ret c = Raise e ->
                (e = EInfRec -> forall n, root n = OOF) /\ (e <> EInfRec -> exists m, root m = Err e)).
  { intros V NL R. destruct (inv_norm _ _ _ _ _ I V) as (v & VR & I').
    destruct (ret_raise _ _ _ _ _ _ I' VR NL R) as (NE & n0 & E0). split; [congruence|].
    intros _. eapply root_error; [apply (inv_root _ _ _ _ _ I')|exact E0]. }
  unfold step_gen in E. destruct (ctrl c) as [code env] eqn:EC. cbn [fst snd] in E.
  destruct code as [t|fl]; [|apply RET; auto; intros; discriminate].
  destruct t; try (apply RET; auto; intros; discriminate); try discriminate.
  - (* Var *)
    destruct (assoc env x) as [l|] eqn:EA.
    + destruct (var_cell _ _ _ _ _ _ _ _ I EC EA) as (r & t & rl & cl & envl & -> & SL & GL & Ecl & O1 & O3 & O4).
      unfold enter in E. rewrite Ecl in E. destruct (st cl) eqn:Est; try discriminate.
      { destruct (no_update_needed (cur cl)); discriminate. }
      inversion E; subst e; clear E. split; [intros _|congruence].
      (* the black-holed thunk has an update frame on the stack *)
      assert (IN : In l (upd_locs (stack c))).
      { apply (proj2 (inv_bh _ _ _ _ _ I)). exists cl. auto. }
      destruct (obls_lookup _ _ _ _ _ _ (inv_obls _ _ _ _ _ I) IN) as (K1 & t' & r' & GL' & LK).
      rewrite GL in GL'. inversion GL'; subst t' r'. cbn [app] in LK.
      assert (VAR : forall n X, sden (SC (Var x) r) X n <> OOF -> exists m, n = S m /\ seval m t rl <> OOF).
      { intros n X H. unfold sden in H. apply bind_not_oof in H. cbn [sctrl_eval] in H.
        destruct n as [|m]; [now elim H|]. rewrite seval_var, SL in H. eauto. }
      assert (DIV : forall n, seval n t rl = OOF).
      { apply diverges_by_descent. intros n H.
        destruct (proj1 LK n) as [F|F]; [congruence|].
        rewrite F in H. destruct (VAR _ _ H) as (m & -> & Hm). exists m. split; [lia|auto]. }
      intros n. destruct (proj1 (inv_root _ _ _ _ _ I) n) as [F|F]; auto.
      destruct (root n) eqn:ER; auto; exfalso.
      * destruct (VAR n K) as (m & _ & Hm); [rewrite <- F; discriminate|]. apply Hm, DIV.
      * destruct (VAR n K) as (m & _ & Hm); [rewrite <- F; discriminate|]. apply Hm, DIV.
    + inversion E; subst e; clear E. split; [discriminate|intros _].
      destruct (ctrl_tm_inv _ _ _ _ ltac:(rewrite <- EC; apply (inv_ctrl _ _ _ _ _ I)) eq_refl) as (r & -> & ER).
      specialize (ER x). rewrite EA in ER.
      eapply root_error; [apply (inv_root _ _ _ _ _ I)|]. instantiate (1 := 1).
      unfold sden. cbn [sctrl_eval]. rewrite seval_var, ER. reflexivity.
  - (* Lam *)
    destruct (stack c) as [|[a| | | | | |] s] eqn:ES; try discriminate;
      (apply RET; auto; intros; discriminate).
  - (* Fail *)
    inversion E; subst e; clear E. split; [discriminate|intros _].
    destruct (ctrl_tm_inv _ _ _ _ ltac:(rewrite <- EC; apply (inv_ctrl _ _ _ _ _ I)) eq_refl) as (r & -> & ER).
    eapply root_error; [apply (inv_root _ _ _ _ _ I)|]. instantiate (1 := 1). reflexivity.
Qed.

(* ---------------------------------------------------------------- runs *)

Definition result_ok (root : nat -> res sval) (G : ghost) (r : res clos) : Prop :=
  match r with
  | Val w => exists v m, val_rel G w v /\ root m = Val v
  | Err e => (e = EInfRec -> forall n, root n = OOF) /\ (e <> EInfRec -> exists m, root m = Err e)
  | OOF => True
  end.

Theorem run_sound fuel : forall c root G sc K r c' k,
  inv root G c sc K -> run fuel c = (r, c', k) ->
  exists G' sc' K', ext G G' /\ inv root G' c' sc' K' /\ result_ok root G' r.
Proof.
  induction fuel as [|n IH]; intros c root G sc K r c' k I E; cbn in E.
  - inversion E; subst. exists G, sc, K. split; [apply ext_refl|]. split; [exact I|constructor].
  - destruct (step c) as [c1| |e] eqn:ES.
    + destruct (step_inv _ _ _ _ _ _ I ES) as (G1 & sc1 & K1 & X1 & I1).
      destruct (IH _ _ _ _ _ _ _ _ I1 E) as (G2 & sc2 & K2 & X2 & I2 & R2).
      exists G2, sc2, K2. split; [eapply ext_trans; eauto|]. split; auto.
    + inversion E; subst. exists G, sc, K. split; [apply ext_refl|]. split; [exact I|].
      destruct (step_done_sound _ _ _ _ _ I ES) as (v & m & VR & Em). cbn. eauto.
    + inversion E; subst. exists G, sc, K. split; [apply ext_refl|]. split; [exact I|].
      apply (step_raise_sound _ _ _ _ _ _ I ES).
Qed.

Lemma init_inv G h c sc :
  heap_ok G h -> clean h -> ctrl_rel G c sc -> inv (sden sc []) G (mkcfg c [] h) sc [].
Proof.
  intros H C R. constructor; cbn; auto.
  - now apply bh_inv_nil.
  - apply linked_refl.
Qed.

Lemma unwind_heap_ok G s h : heap_ok G h -> bh_inv s h -> heap_ok G (unwind s h).
Proof.
  intros [L H] B. destruct (unwind_spec s h B) as [L' N]. split; [congruence|].
  intros l c E. rewrite N in E. destruct (nth_error h l) as [c0|] eqn:E0; cbn in E; inversion E; subst c.
  destruct (H _ _ E0) as (t & env & r & O1 & O2 & O3 & O4).
  exists t, env, r. unfold unwound. destruct (st c0) eqn:S0; cbn; rewrite ?S0; repeat split; auto.
Qed.

(* ---------------------------------------------------------------- sessions *)

Definition sinv (defs : list (string * tm)) (s : session) : Prop :=
  exists G, heap_ok G (sheap s) /\ env_rel G (stop s) (top_senv defs ENil) /\ clean (sheap s).

Lemma top_senv_snoc defs x e r :
  top_senv (defs ++ [(x, e)]) r = ECons x e (top_senv defs r) (top_senv defs r).
Proof. revert r; induction defs as [|[y d] defs IH]; intros r; cbn; auto. Qed.

Lemma seval_chain defs : forall e r n,
  seval (length defs + n) (chain defs e) r = seval n e (top_senv defs r).
Proof.
  induction defs as [|[x d] defs IH]; intros e r n; cbn [length chain top_senv plus]; auto.
  cbn. apply IH.
Qed.

Lemma seval_chain_oof defs : forall e r n,
  n <= length defs -> seval n (chain defs e) r = OOF \/ exists m, seval n (chain defs e) r = seval m e (top_senv defs r).
Proof.
  induction defs as [|[x d] defs IH]; intros e r n L; cbn [length chain top_senv] in *.
  - right. exists n. reflexivity.
  - destruct n; [now left|]. cbn. apply IH. lia.
Qed.

(* what a run started in a session state establishes *)
Lemma run_session G h c sc fuel r cf k :
  heap_ok G h -> clean h -> ctrl_rel G c sc ->
  run fuel (mkcfg c [] h) = (r, cf, k) ->
  exists G', ext G G' /\ heap_ok G' (hp cf) /\ bh_inv (stack cf) (hp cf) /\
             result_ok (sden sc []) G' r.
Proof.
  intros H C R E.
  destruct (run_sound _ _ _ _ _ _ _ _ _ (init_inv _ _ _ _ H C R) E) as (G' & sc' & K' & X & I & RO).
  exists G'. split; [exact X|]. split; [apply I|]. split; [apply I|exact RO].
Qed.

Lemma ctrl_rel_ptr G l t r : nth_error G l = Some (t, r) -> exists sc, ctrl_rel G (ptr l) sc.
Proof.
  intros H. exists (SC (Var "%") (ECons "%" t r ENil)). constructor. now apply env_rel_ptr.
Qed.

Lemma fields_rel_in G fl fs f l b :
  fields_rel G fl fs -> In (f, (l, b)) fl -> exists e re, nth_error G l = Some (e, re).
Proof.
  induction 1 as [|a0 [f0 [[e0 re0] b0]] fl' fs' (H1 & H2 & H3) F IH]; intros I; [destruct I|].
  destruct I as [->|I]; eauto. cbn in H3. eauto.
Qed.

(* the drivers of `eval_full` and `:query` keep the heap sound *)
Ltac fin_bh := first [assumption | now apply bh_inv_nil].
Ltac fin4 G0 :=
  exists G0; split; [solve [eauto using ext_refl, ext_trans]|];
  split; [solve [auto]|]; split; [fin_bh|]; try (intros ? ?; discriminate); auto.
Ltac fin3q G0 :=
  exists G0; split; [solve [eauto using ext_refl, ext_trans]|];
  split; [solve [auto]|]; fin_bh.

Lemma force_heap_ok d : forall k G h c r fr h' k',
  heap_ok G h -> clean h -> (exists sc, ctrl_rel G c sc) ->
  force d k h c = (r, (fr, h', k')) ->
  exists G', ext G G' /\ heap_ok G' h' /\ bh_inv fr h' /\ (forall a, r = Val a -> fr = []).
Proof.
  induction d as [|d IH]; intros k G h c r fr h' k' H C [sc R] E; cbn in E.
  - inversion E; subst. fin4 G.
  - destruct (run k (mkcfg c [] h)) as [[r0 cf] k0] eqn:Er.
    destruct (run_session _ _ _ _ _ _ _ _ H C R Er) as (G1 & X1 & H1 & B1 & RO).
    destruct r0 as [w|e|].
    2:{ inversion E; subst. fin4 G1. }
    2:{ inversion E; subst. fin4 G1. }
    pose proof (run_val_clean _ _ _ _ _ _ C Er) as C1.
    destruct RO as (v & m & VR & _).
    assert (base : forall (a : data), (Val a, ([] : list frame, hp cf, k0)) = (r, (fr, h', k')) ->
                   exists G', ext G G' /\ heap_ok G' h' /\ bh_inv fr h' /\ (forall a, r = Val a -> fr = [])).
    { intros a X. inversion X; subst. fin4 G1. }
    destruct w as [wc we]. cbn [fst] in E. destruct wc as [t|fl].
    + destruct t; try (eapply base; exact E).
    + clear base. inversion VR as [| | |fl0 env0 fs FRl]; subst.
      match type of E with map_res _ (?F fl (hp cf) k0) = _ => set (fields := F) in * end.
      assert (FL : forall fl0 G2 h1 k1 r1 fr1 h2 k2,
                 (forall f l, In (f, l) fl0 -> In (f, l) fl) ->
                 ext G1 G2 -> heap_ok G2 h1 -> clean h1 ->
                 fields fl0 h1 k1 = (r1, (fr1, h2, k2)) ->
                 exists G3, ext G2 G3 /\ heap_ok G3 h2 /\ bh_inv fr1 h2 /\ (forall a, r1 = Val a -> fr1 = [])).
      { clear E. intros fl0.
        induction fl0 as [|[f [l bb]] fl0 IHfl]; intros G2 h1 k1 r1 fr1 h2 k2 SUB X2 H2 C2 E1; cbn in E1.
        - inversion E1; subst. fin4 G2.
        - destruct (fields fl0 h1 k1) as [r2 [[fr2 h3] k3]] eqn:E2.
          destruct (IHfl G2 h1 k1 r2 fr2 h3 k3) as (G3 & X3 & H3 & B3 & V3); auto.
          { intros f' l' I'. apply SUB. now right. }
          destruct r2 as [ds|e|].
          2:{ inversion E1; subst. fin4 G3. }
          2:{ inversion E1; subst. fin4 G3. }
          rewrite (V3 ds eq_refl) in B3. apply bh_inv_nil in B3.
          destruct (force d k3 h3 (ptr l)) as [r4 [[fr4 h4] k4]] eqn:E4.
          destruct (fields_rel_in _ _ _ f l bb FRl (SUB f (l, bb) (or_introl eq_refl))) as (ef & re & GL).
          destruct (IH _ G3 _ _ _ _ _ _ H3 B3
                       (ctrl_rel_ptr G3 l ef re (ext_nth _ _ _ _ (ext_trans _ _ _ X2 X3) GL)) E4)
            as (G4 & X4 & H4 & B4 & V4).
          destruct r4 as [dv|e|]; cbn in E1; inversion E1; subst; fin4 G4.
          intros a _. eapply V4; eauto. }
      destruct (fields fl (hp cf) k0) as [r1 [[fr1 h2] k2]] eqn:E1.
      destruct (FL fl G1 _ _ _ _ _ _ (fun _ _ I => I) (ext_refl G1) H1 C1 E1) as (G3 & X3 & H3 & B3 & V3).
      destruct r1 as [ds|e|]; cbn in E; inversion E; subst; fin4 G3.
      intros a _. eapply V3; eauto.
Qed.

Lemma query_heap_ok path : forall k G h c r fr h' k',
  heap_ok G h -> clean h -> (exists sc, ctrl_rel G c sc) ->
  query k h c path = (r, (fr, h', k')) ->
  exists G', ext G G' /\ heap_ok G' h' /\ bh_inv fr h'.
Proof.
  induction path as [|f path IH]; intros k G h c r fr h' k' H C [sc R] E; cbn in E;
    destruct (run k (mkcfg c [] h)) as [[r0 cf] k0] eqn:Er;
    destruct (run_session _ _ _ _ _ _ _ _ H C R Er) as (G1 & X1 & H1 & B1 & RO);
    destruct r0 as [w|e|]; try (inversion E; subst; fin3q G1);
    pose proof (run_val_clean _ _ _ _ _ _ C Er) as C1.
  - inversion E; subst. fin3q G1.
  - destruct RO as (v & m & VR & _). destruct w as [wc we]. cbn [fst] in E. destruct wc as [t|fl].
    + inversion E; subst. fin3q G1.
    + inversion VR as [| | |fl0 env0 fs FRl]; subst.
      pose proof (fields_assoc G1 f fl fs FRl) as FA.
      destruct (assoc fl f) as [[l bb]|].
      * destruct FA as ([ef re] & _ & GL).
        destruct (IH _ G1 _ _ _ _ _ _ H1 C1 (ctrl_rel_ptr G1 l ef re GL) E) as (G2 & X2 & H2 & B2).
        fin3q G2.
      * inversion E; subst. fin3q G1.
Qed.

Lemma heap_ok_set_locked G h l b : heap_ok G h -> heap_ok G (upd_nth h l (set_locked b)).
Proof.
  intros H. destruct (nth_error h l) as [cl|] eqn:E.
  - eapply heap_ok_upd; eauto. destruct (proj2 H _ _ E) as (t & env & r & O1 & O2 & O3 & O4).
    exists t, env, r. cbn. auto.
  - split; [rewrite upd_nth_length; apply H|]. intros l' c' E'. rewrite nth_error_upd_nth in E'.
    destruct (Nat.eqb_spec l l') as [<-|N]; [rewrite E in E'; discriminate|]. now apply H.
Qed.

(* eval_record_spine keeps the heap sound *)
Lemma spine_heap_ok d : forall k G h l t rt r h' k',
  heap_ok G h -> clean h -> nth_error G l = Some (t, rt) ->
  spine_with true unwind d k h l = (r, (h', k')) ->
  exists G', ext G G' /\ heap_ok G' h'.
Proof.
  induction d as [|d IH]; intros k G h l t rt r h' k' H C GL E; cbn in E.
  - inversion E; subst. exists G. split; auto using ext_refl.
  - destruct (nth_error h l) as [cl|] eqn:Ecl.
    2:{ inversion E; subst. exists G. split; auto using ext_refl. }
    destruct (locked cl) eqn:LK.
    { inversion E; subst. exists G. split; auto using ext_refl. }
    set (h1 := upd_nth h l (set_locked true)) in *.
    assert (H1 : heap_ok G h1) by now apply heap_ok_set_locked.
    assert (C1 : clean h1) by now apply clean_upd_locked.
    assert (FIN : forall r0 G2 h2 k2,
              ext G G2 -> heap_ok G2 h2 ->
              (r0, (upd_nth h2 l (set_locked false), k2)) = (r, (h', k')) ->
              exists G', ext G G' /\ heap_ok G' h').
    { intros r0 G2 h2 k2 X2 H2 X. inversion X; subst. exists G2. split; auto.
      now apply heap_ok_set_locked. }
    destruct (ctrl_rel_ptr G l t rt GL) as (sc & CR).
    destruct (run k (mkcfg (ptr l) [] h1)) as [[r0 cf] k0] eqn:Er.
    destruct (run_session _ _ _ _ _ _ _ _ H1 C1 CR Er) as (G1 & X1 & HO1 & B1 & RO).
    destruct r0 as [w|e|].
    2:{ cbn in E. eapply FIN; [exact X1| |exact E]. now apply unwind_heap_ok. }
    2:{ cbn in E. eapply FIN; [exact X1| |exact E]. now apply unwind_heap_ok. }
    pose proof (run_val_clean _ _ _ _ _ _ C1 Er) as C0.
    destruct RO as (v & m & VR & _).
    destruct w as [wc we]. cbn [fst] in E. destruct wc as [tw|fl].
    + destruct tw; cbn in E; (eapply FIN; [exact X1|exact HO1|exact E]).
    + inversion VR as [| | |fl0 env0 fs FRl]; subst.
      match type of E with context [?F fl (hp cf) k0] => set (fields := F) in * end.
      assert (FL : forall fl0 G3 h3 k3 r3 h4 k4,
                 (forall f lf, In (f, lf) fl0 -> In (f, lf) fl) ->
                 ext G1 G3 -> heap_ok G3 h3 -> clean h3 ->
                 fields fl0 h3 k3 = (r3, (h4, k4)) ->
                 exists G4, ext G3 G4 /\ heap_ok G4 h4).
      { clear E FIN. intros fl0.
        induction fl0 as [|[f [lf bb]] fl0 IHfl]; intros G3 h3 k3 r3 h4 k4 SUB X3 H3 C3 E3; cbn in E3.
        - inversion E3; subst. exists G3. split; auto using ext_refl.
        - destruct (spine_with true unwind d k3 h3 lf) as [r5 [h5 k5]] eqn:E5.
          destruct (fields_rel_in _ _ _ f lf bb FRl (SUB f (lf, bb) (or_introl eq_refl))) as (ef & ref & GLf).
          destruct (IH _ G3 _ _ _ _ _ _ _ H3 C3 (ext_nth _ _ _ _ X3 GLf) E5) as (G5 & X5 & H5).
          destruct (spine_good _ _ _ _ _ _ _ C3 E5) as [C5 _].
          destruct r5 as [dv|e|]; try (inversion E3; subst; exists G5; split; auto; fail).
          destruct (fields fl0 h5 k5) as [r6 [h6 k6]] eqn:E6.
          destruct (IHfl G5 h5 k5 r6 h6 k6) as (G6 & X6 & H6); auto.
          { intros f' l' I'. apply SUB. now right. }
          { eapply ext_trans; eauto. }
          destruct r6 as [ds|e|]; inversion E3; subst; exists G6; split; eauto using ext_trans. }
      destruct (fields fl (hp cf) k0) as [r3 [h4 k4]] eqn:E3.
      destruct (FL fl G1 _ _ _ _ _ (fun _ _ I => I) (ext_refl G1) HO1 C0 E3) as (G4 & X4 & H4).
      destruct r3 as [ds|e|]; cbn in E; (eapply FIN; [eapply ext_trans; eauto|exact H4|exact E]).
Qed.

Theorem sess_step_sinv defs s i :
  sinv defs s ->
  sinv (match i with IDef x e => defs ++ [(x, e)] | _ => defs end) (fst (sess_step s i)).
Proof.
  intros (G & H & ER & C). destruct i as [x e|k e|k e|k x path|k e]; unfold sess_step, sess_step_with, sess_step_gen.
  - (* let x = e *)
    cbn [fst sheap stop]. exists (G ++ [(e, top_senv defs ENil)]). split; [|split].
    + apply heap_ok_alloc1; auto. eapply env_rel_ext; [apply ext_snoc|auto].
    + rewrite top_senv_snoc. apply env_rel_cons; [eapply env_rel_ext; [apply ext_snoc|auto]|].
      rewrite <- (proj1 H). now rewrite nth_error_app2, Nat.sub_diag by lia.
    + intros l B. apply (C l). revert B. apply blackholed_app. intros c [<-|[]]. apply new_cell_not_bh.
  - destruct (run k (mkcfg (CTm e, stop s) [] (sheap s))) as [[r cf] k'] eqn:Er. cbn [fst sheap stop].
    destruct (run_session G _ _ (SC e (top_senv defs ENil)) _ _ _ _ H C (CR_tm G e (stop s) _ ER) Er)
      as (G1 & X1 & H1 & B1 & _).
    exists G1. split; [now apply unwind_heap_ok|]. split; [eapply env_rel_ext; eauto|].
    apply (unwind_clean_thm _ _ B1).
  - destruct (force (S k) k (sheap s) (CTm e, stop s)) as [r [[fr h] k']] eqn:Ef. cbn [fst sheap stop].
    destruct (force_heap_ok _ _ G _ _ _ _ _ _ H C
                (ex_intro _ (SC e (top_senv defs ENil)) (CR_tm G e (stop s) _ ER)) Ef) as (G1 & X1 & H1 & B1 & _).
    exists G1. split; [now apply unwind_heap_ok|]. split; [eapply env_rel_ext; eauto|].
    apply (unwind_clean_thm _ _ B1).
  - destruct (query k (sheap s) (CTm (Var x), stop s) path) as [r [[fr h] k']] eqn:Eq. cbn [fst sheap stop].
    destruct (query_heap_ok _ _ G _ _ _ _ _ _ H C
                (ex_intro _ (SC (Var x) (top_senv defs ENil)) (CR_tm G (Var x) (stop s) _ ER)) Eq) as (G1 & X1 & H1 & B1).
    exists G1. split; [now apply unwind_heap_ok|]. split; [eapply env_rel_ext; eauto|].
    apply (unwind_clean_thm _ _ B1).
  - (* eval_record_spine: the main term is one fresh thunk *)
    destruct (spine_with true unwind (S k) k (sheap s ++ [new_cell (CTm e, stop s)]) (length (sheap s)))
      as [r [h k']] eqn:Es. cbn [fst sheap stop].
    set (G0 := G ++ [(e, top_senv defs ENil)]).
    assert (H0 : heap_ok G0 (sheap s ++ [new_cell (CTm e, stop s)])).
    { apply heap_ok_alloc1; auto. eapply env_rel_ext; [apply ext_snoc|auto]. }
    assert (C0 : clean (sheap s ++ [new_cell (CTm e, stop s)])).
    { intros l B. apply (C l). revert B. apply blackholed_app. intros c [<-|[]]. apply new_cell_not_bh. }
    assert (GL : nth_error G0 (length (sheap s)) = Some (e, top_senv defs ENil)).
    { unfold G0. rewrite <- (proj1 H). now rewrite nth_error_app2, Nat.sub_diag by lia. }
    destruct (spine_heap_ok _ _ G0 _ _ _ _ _ _ _ H0 C0 GL Es) as (G1 & X1 & H1).
    destruct (spine_good _ _ _ _ _ _ _ C0 Es) as [C1 _].
    exists G1. split; auto. split; auto.
    eapply env_rel_ext; [eapply ext_trans; [apply ext_snoc|exact X1]|auto].
Qed.

Lemma defs_of_app h1 h2 : defs_of (h1 ++ h2) = defs_of h1 ++ defs_of h2.
Proof.
  induction h1 as [|i h1 IH]; cbn; auto. destruct i; cbn; auto. now rewrite IH.
Qed.

Lemma sess_fold_sinv h : forall defs s,
  sinv defs s ->
  sinv (defs ++ defs_of h) (fold_left (fun s i => fst (sess_step s i)) h s).
Proof.
  induction h as [|i h IH]; intros defs s I; cbn.
  - now rewrite app_nil_r.
  - pose proof (sess_step_sinv defs s i I) as I'. apply IH in I'.
    destruct i; cbn in *; auto. now rewrite <- app_assoc in I'.
Qed.

Lemma sinv_empty : sinv [] empty_session.
Proof.
  exists []. split; [|split].
  - split; auto. intros [|l] c E; discriminate.
  - intros x. reflexivity.
  - intros l (c & E & _). destruct l; discriminate.
Qed.

Theorem session_sinv h : sinv (defs_of h) (fst (sess_run empty_session h)).
Proof. rewrite sess_run_fst. apply (sess_fold_sinv h [] _ sinv_empty). Qed.

(* ---------------------------------------------------------------- the property *)

Lemma fields_rel_names G fl fs : fields_rel G fl fs -> map fst fl = map fst fs.
Proof.
  unfold fields_rel. induction 1 as [|a b fl' fs' (H1 & H2 & H3) F IH]; cbn; auto. f_equal; assumption.
Qed.

Lemma obs_rel G w v : val_rel G w v -> obs_of w = sobs v.
Proof.
  destruct 1 as [| | |fl env fs F]; cbn; auto. f_equal. eapply fields_rel_names; eauto.
Qed.

Lemma spec_run_oof defs e :
  (forall n, seval n e (top_senv defs ENil) = OOF) -> forall n, spec_run n defs e = OOF.
Proof.
  intros D n. unfold spec_run. destruct (le_lt_dec (length defs) n) as [L|L].
  - replace n with (length defs + (n - length defs)) by lia. rewrite seval_chain. apply D.
  - destruct (seval_chain_oof defs e ENil n) as [O|(m & O)]; [lia|auto|]. rewrite O. apply D.
Qed.

(* The soundness of memoised cells, for every configuration reached while evaluating an input
   after any history: every cell stands for a call-by-name closure with the same term and a
   pointwise corresponding environment, and an Evaluated cell holds the call-by-name value of
   that closure. *)
Theorem evaluated_cells_sound_thm (h : list input) (e : tm) (fuel : nat) :
  let s := fst (sess_run empty_session h) in
  forall r cf k, run fuel (mkcfg (CTm e, stop s) [] (sheap s)) = (r, cf, k) ->
  exists G, heap_ok G (hp cf).
Proof.
  intros s r cf k E. destruct (session_sinv h) as (G & H & ER & C). fold s in H, ER, C.
  destruct (run_session G _ _ _ _ _ _ _ H C (CR_tm G e (stop s) _ ER) E) as (G1 & _ & H1 & _).
  eauto.
Qed.

Definition outcome_matches_spec (o : outcome) (spec : nat -> res sval) : Prop :=
  match o with
  | OOk ob => exists n v, spec n = Val v /\ sobs v = ob
  | OErr EInfRec => forall n, spec n = OOF
  | OErr c => exists n, spec n = Err c
  | OBudget => True
  | OBound | OData _ => False
  end.

Theorem session_equiv_thm (h : list input) (k : nat) (e : tm) :
  outcome_matches_spec
    (snd (sess_step (fst (sess_run empty_session h)) (IEval k e)))
    (fun n => spec_run n (defs_of h) e).
Proof.
  set (s := fst (sess_run empty_session h)).
  destruct (session_sinv h) as (G & H & ER & C). fold s in H, ER, C.
  unfold sess_step, sess_step_with, sess_step_gen.
  destruct (run k (mkcfg (CTm e, stop s) [] (sheap s))) as [[r cf] k'] eqn:Er. cbn [snd].
  destruct (run_session G _ _ _ _ _ _ _ H C (CR_tm G e (stop s) _ ER) Er) as (G1 & _ & _ & _ & RO).
  assert (SP : forall n, sden (SC e (top_senv (defs_of h) ENil)) [] n
                         = spec_run (length (defs_of h) + n) (defs_of h) e).
  { intros n. rewrite sden_SC_nil. unfold spec_run. now rewrite seval_chain. }
  destruct r as [w|c|]; cbn in RO |- *; auto.
  - destruct RO as (v & m & VR & Em). rewrite SP in Em. exists (length (defs_of h) + m), v.
    split; auto. symmetry. eapply obs_rel; eauto.
  - destruct RO as [R1 R2]. destruct c;
      try (destruct R2 as (m & Em); [discriminate|]; rewrite SP in Em; eauto).
    apply spec_run_oof. intros n. rewrite <- sden_SC_nil. now apply R1.
Qed.

(* Same statement, against the fresh machine: whenever both terminate within their budgets, the
   session and the stand-alone program give the same observable result / error class. *)
Lemma outcome_matches_det o1 o2 spec :
  (forall n m a b, spec n = a -> spec m = b -> a <> OOF -> b <> OOF -> a = b) ->
  outcome_matches_spec o1 spec -> outcome_matches_spec o2 spec ->
  o1 <> OBudget -> o2 <> OBudget -> o1 = o2.
Proof.
  intros D M1 M2 N1 N2.
  assert (VV : forall n m v1 v2, spec n = Val v1 -> spec m = Val v2 -> v1 = v2).
  { intros n m v1 v2 E1 E2. assert (Val v1 = Val v2) by (eapply D; eauto; discriminate). congruence. }
  assert (VE : forall n m v c, spec n = Val v -> spec m = Err c -> False).
  { intros n m v c E1 E2. assert (Val v = Err c) by (eapply D; eauto; discriminate). discriminate. }
  assert (EE : forall n m c1 c2, spec n = Err c1 -> spec m = Err c2 -> c1 = c2).
  { intros n m c1 c2 E1 E2. assert (@Err sval c1 = Err c2) by (eapply D; eauto; discriminate). congruence. }
  assert (M : forall o, outcome_matches_spec o spec -> o <> OBudget ->
              (exists n v, spec n = Val v /\ o = OOk (sobs v)) \/
              (o = OErr EInfRec /\ forall n, spec n = OOF) \/
              (exists n c, spec n = Err c /\ o = OErr c /\ c <> EInfRec)).
  { intros o Mo No. destruct o as [|ob|d|c|]; cbn in Mo; try contradiction; try congruence.
    - destruct Mo as (n & v & E1 & E2). left. exists n, v. split; congruence.
    - destruct c; try (destruct Mo as (n & E1); right; right; eexists n, _; split; [exact E1|split; [reflexivity|discriminate]]).
      right; left. auto. }
  destruct (M o1 M1 N1) as [(n1 & v1 & A1 & ->)|[[-> A1]|(n1 & c1 & A1 & -> & B1)]];
  destruct (M o2 M2 N2) as [(n2 & v2 & A2 & ->)|[[-> A2]|(n2 & c2 & A2 & -> & B2)]]; auto.
  - f_equal. f_equal. eapply VV; eauto.
  - rewrite A2 in A1. discriminate.
  - exfalso. eapply VE; eauto.
  - rewrite A1 in A2. discriminate.
  - rewrite A1 in A2. discriminate.
  - exfalso. eapply VE; eauto.
  - rewrite A2 in A1. discriminate.
  - f_equal. eapply EE; eauto.
Qed.

Theorem session_vs_fresh_thm (h : list input) (k k' : nat) (e : tm) :
  let o_session := snd (sess_step (fst (sess_run empty_session h)) (IEval k e)) in
  let o_fresh := fresh_eval k' (defs_of h) e in
  o_session <> OBudget -> o_fresh <> OBudget -> o_session = o_fresh.
Proof.
  intros o1 o2 N1 N2.
  apply (outcome_matches_det o1 o2 (fun n => spec_run n (defs_of h) e)); auto.
  - intros n m a b Ea Eb Na Nb. unfold spec_run in *. eapply seval_det; eauto.
  - apply session_equiv_thm.
  - pose proof (session_equiv_thm [] k' (chain (defs_of h) e)) as F. exact F.
Qed.
