From Coq Require Import List Arith Bool Lia.
Import ListNotations.
From NV Require Import Vector.Model Vector.History.

Lemma vnew_wf : forall B, 2 <= B -> check_invariants B (@vnew nat) = true.
Proof.
  intros B HB. unfold check_invariants, vnew; cbn [root vlen height].
  unfold height_for_length, ilog. cbn [Nat.sub Nat.max ilog_fuel].
  destruct (Nat.ltb_spec 1 B); [reflexivity | lia].
Qed.
