(* Umbrella of the C17 development: the statements exported to Props/C17.v, in exactly the form
   pinned there (hypothesis [2 <= B] after the universally quantified data). *)
From Coq Require Import List Arith Bool.
Import ListNotations.
From NV Require Import Vector.Model Vector.History Vector.Wf Vector.HistoryAbs Vector.VecProofs Vector.ExtendProofs Vector.IterMutProofs
  Vector.SliceProofs Vector.HistoryProofs Vector.BitOps Vector.RcHeap Vector.RcHeapProofs.

(* ---- the property: histories over families of handles refine independent lists *)
Lemma history_refines_stmt : forall B ops, 2 <= B ->
  Forall2 (fun (x : res * istate) (y : res * sstate) =>
             fst x = fst y /\ abs (snd x) = snd y /\ all_wf B (snd x))
          (irun B iinit ops) (srun sinit ops).
Proof. intros B ops HB. exact (history_refines B HB ops). Qed.

Lemma history_refines_from_stmt : forall B st ops, 2 <= B -> all_wf B st ->
  Forall2 (fun (x : res * istate) (y : res * sstate) =>
             fst x = fst y /\ abs (snd x) = snd y /\ all_wf B (snd x))
          (irun B st ops) (srun (abs st) ops).
Proof. intros B st ops HB W. exact (run_refines B HB ops st W). Qed.

Lemma frame_vec_stmt : forall B st o j, 2 <= B -> all_wf B st ->
  match o with
  | VPush k _ | VPop k | VSet k _ _ | VTrunc k _ | VExtend k _ | VMapFrom k _ _ | VDrop k => j <> k
  | _ => True
  end ->
  j < length (ivs st) ->
  option_map (@to_list nat) (nth j (ivs (fst (istep B st o))) None)
  = option_map (@to_list nat) (nth j (ivs st) None).
Proof. intros B st o j HB. exact (frame_vec B HB st o j). Qed.

Lemma frame_slice_stmt : forall B st o j, 2 <= B -> all_wf B st ->
  match o with
  | SPush k _ | SPop k | SSet k _ _ | SSlice k _ _ | SExtend k _ | SExtendFrom k _ | SMap k _ | SDrop k => j <> k
  | _ => True
  end ->
  j < length (iss st) ->
  option_map (@sl_list nat) (nth j (iss (fst (istep B st o))) None)
  = option_map (@sl_list nat) (nth j (iss st) None).
Proof. intros B st o j HB. exact (frame_slice B HB st o j). Qed.

(* ---- the invariant and the executable check of the crate *)
Lemma new_wf_stmt : forall A B, wf B (@vnew A) /\ to_list (@vnew A) = [].
Proof. intros A B. exact (conj (@vnew_wf A B) (@vnew_list A)). Qed.

Lemma wf_check_invariants_stmt : forall A B (v : @vec A), 2 <= B -> wf B v -> check_invariants B v = true.
Proof. intros A B v HB. exact (wf_check_invariants B HB v). Qed.

Lemma wf_length_stmt : forall A B (v : @vec A), 2 <= B -> wf B v -> length (to_list v) = vlen v.
Proof. intros A B v HB. exact (wf_length B HB v). Qed.

(* ---- every Vector operation keeps [wf], does not panic in contract, and refines the list operation *)
Lemma push_stmt : forall A B (v : @vec A) x, 2 <= B -> wf B v ->
  exists v', vpush B v x = Some v' /\ wf B v' /\ to_list v' = to_list v ++ [x] /\ vlen v' = vlen v + 1.
Proof. intros A B v x HB. exact (vpush_spec B HB v x). Qed.

Lemma pop_stmt : forall A B (v : @vec A), 2 <= B -> wf B v ->
  exists v', vpop v = Some (last_opt (to_list v), v') /\ wf B v'
             /\ to_list v' = removelast (to_list v) /\ vlen v' = vlen v - 1
             /\ (to_list v = [] -> v' = v).
Proof. intros A B v HB. exact (vpop_spec B HB v). Qed.

Lemma get_stmt : forall A B (v : @vec A) idx, 2 <= B -> wf B v ->
  vget B v idx = nth_error (to_list v) idx.
Proof. intros A B v idx HB. exact (vget_spec B HB v idx). Qed.

Lemma set_stmt : forall A B (v : @vec A) idx x, 2 <= B -> wf B v -> idx < vlen v ->
  exists v', vset B v idx x = Some v' /\ wf B v' /\ to_list v' = list_set (to_list v) idx x
             /\ vlen v' = vlen v.
Proof. intros A B v idx x HB. exact (vset_spec B HB v idx x). Qed.

Lemma set_out_of_bounds_stmt : forall A B (v : @vec A) idx x, 2 <= B -> vlen v <= idx ->
  vset B v idx x = None.
Proof. intros A B v idx x HB. exact (vset_out_of_bounds B HB v idx x). Qed.

Lemma truncate_stmt : forall A B (v : @vec A) len, 2 <= B -> wf B v ->
  exists v', vtruncate B v len = Some v' /\ wf B v' /\ to_list v' = firstn len (to_list v)
             /\ vlen v' = Nat.min len (vlen v).
Proof. intros A B v len HB. exact (vtruncate_spec B HB v len). Qed.

Lemma extend_stmt : forall A B (v : @vec A) it, 2 <= B -> wf B v ->
  exists v', vextend B v it = Some v' /\ wf B v' /\ to_list v' = to_list v ++ it
             /\ vlen v' = vlen v + length it.
Proof. intros A B v it HB. exact (vextend_spec B HB v it). Qed.

Lemma iter_from_stmt : forall A B (v : @vec A) idx, 2 <= B -> wf B v ->
  viter_from B v idx = if idx <=? vlen v then Some (skipn idx (to_list v)) else None.
Proof. intros A B v idx HB. exact (viter_from_spec B HB v idx). Qed.

(* ---- the slice layer *)
Lemma slice_new_stmt : forall A B, 2 <= B -> swf B (@snew A) /\ sl_list (@snew A) = [].
Proof. intros A B HB. exact (conj (@snew_swf A B HB) (@snew_list A)). Qed.

Lemma slice_from_list_stmt : forall A B (l : list A), 2 <= B ->
  exists s', sfrom_list B l = Some s' /\ swf B s' /\ sl_list s' = l.
Proof. intros A B l HB. exact (sfrom_list_spec B HB l). Qed.

Lemma slice_push_stmt : forall A B (s : @slice A) x, 2 <= B -> swf B s ->
  exists s', spush B s x = Some s' /\ swf B s' /\ sl_list s' = sl_list s ++ [x].
Proof. intros A B s x HB. exact (spush_spec B HB s x). Qed.

Lemma slice_pop_stmt : forall A B (s : @slice A), 2 <= B -> swf B s ->
  exists s', spop B s = Some (last_opt (sl_list s), s') /\ swf B s'
             /\ sl_list s' = removelast (sl_list s) /\ (sl_list s = [] -> s' = s).
Proof. intros A B s HB. exact (spop_spec B HB s). Qed.

Lemma slice_get_stmt : forall A B (s : @slice A) idx, 2 <= B -> swf B s ->
  sget B s idx = nth_error (sl_list s) idx.
Proof. intros A B s idx HB. exact (sget_spec B HB s idx). Qed.

Lemma slice_set_stmt : forall A B (s : @slice A) idx x, 2 <= B -> swf B s -> idx < slen s ->
  exists s', sset B s idx x = Some s' /\ swf B s' /\ sl_list s' = list_set (sl_list s) idx x.
Proof. intros A B s idx x HB. exact (sset_spec B HB s idx x). Qed.

Lemma slice_slice_stmt : forall A B (s : @slice A) a b, 2 <= B -> swf B s ->
  if (a <=? b) && (b <=? slen s)
  then exists s', sslice s a b = Some s' /\ swf B s'
                  /\ sl_list s' = firstn (b - a) (skipn a (sl_list s))
  else sslice s a b = None.
Proof. intros A B s a b HB. exact (sslice_spec B HB s a b). Qed.

Lemma slice_extend_stmt : forall A B (s : @slice A) it, 2 <= B -> swf B s ->
  exists s', sextend B s it = Some s' /\ swf B s' /\ sl_list s' = sl_list s ++ it.
Proof. intros A B s it HB. exact (sextend_spec B HB s it). Qed.

Lemma slice_iter_stmt : forall A B (s : @slice A), 2 <= B -> swf B s -> siter B s = Some (sl_list s).
Proof. intros A B s HB. exact (siter_spec B HB s). Qed.

Lemma slice_length_stmt : forall A B (s : @slice A), 2 <= B -> swf B s -> length (sl_list s) = slen s.
Proof. intros A B s HB. exact (sl_length B HB s). Qed.

(* ---- shifts and masks of the Rust code vs div/mod of the model, for N = 2^k *)
Lemma bit_ops_agree_stmt : forall k idx h,
  Nat.land (Nat.shiftr idx (Nat.log2 (2 ^ k) * h)) (2 ^ k - 1) = extract_index (2 ^ k) idx h.
Proof. exact bit_ops_agree. Qed.

Lemma leaf_mask_agrees_stmt : forall k idx, Nat.land idx (2 ^ k - 1) = idx mod 2 ^ k.
Proof. exact leaf_mask_agrees. Qed.

(* ---- mutable iteration: [iter_mut_starting_at(idx)] with a consumer that takes [bd] elements and
   replaces each by [f] of it; [Slice::iter_mut] *)
Lemma iter_mut_from_stmt : forall A B (f : A -> A) (v : @vec A) idx bd, 2 <= B -> wf B v ->
  (idx <= vlen v ->
   exists v', vmap_from B v idx f bd = Some v' /\ wf B v'
              /\ to_list v' = firstn idx (to_list v)
                              ++ (map f (firstn bd (skipn idx (to_list v))) ++ skipn bd (skipn idx (to_list v)))
              /\ vlen v' = vlen v)
  /\ (vlen v < idx -> vmap_from B v idx f bd = None).
Proof. intros A B f v idx bd HB. exact (vmap_from_spec B HB f v idx bd). Qed.

Lemma slice_iter_mut_stmt : forall A B (s : @slice A) (f : A -> A), 2 <= B -> swf B s ->
  exists s', smap B s f = Some s' /\ swf B s' /\ sl_list s' = map f (sl_list s).
Proof. intros A B s f HB. exact (smap_spec B HB s f). Qed.

(* ---- T1: the same operations over an explicit heap of reference-counted nodes (Vector/RcHeap.v).
   [hinv] = counts are exact w.r.t. the live handles; an operation through the handle in the middle
   of [pre ++ v :: post] refines the value-level operation and leaves every other handle's
   abstraction unchanged (frame). *)
Lemma rc_set_refines_frame_stmt : forall A B (hp : @heap A) pre v post idx x vv vv',
  hinv hp (pre ++ v :: post) -> vabs hp v = Some vv -> vset B vv idx x = Some vv' ->
  exists hp' v', hvset B hp v idx x = Some (hp', v')
    /\ hinv hp' (pre ++ v' :: post) /\ vabs hp' v' = Some vv'
    /\ (forall w, In w (pre ++ post) -> vabs hp' w = vabs hp w).
Proof. intros A B. exact (@hvset_refines_frame A B). Qed.

Lemma rc_push_refines_frame_stmt : forall A B (hp : @heap A) pre v post x vv vv',
  hinv hp (pre ++ v :: post) -> vabs hp v = Some vv -> vpush B vv x = Some vv' ->
  exists hp' v', hvpush B hp v x = Some (hp', v')
    /\ hinv hp' (pre ++ v' :: post) /\ vabs hp' v' = Some vv'
    /\ (forall w, In w (pre ++ post) -> vabs hp' w = vabs hp w).
Proof. intros A B. exact (@hvpush_refines_frame A B). Qed.

Lemma rc_clone_stmt : forall A (hp : @heap A) hs v, hinv hp hs -> In v hs ->
  let (hp', v') := hvclone hp v in
  hinv hp' (v' :: hs) /\ vabs hp' v' = vabs hp v /\ forall w, vabs hp' w = vabs hp w.
Proof. intros A. exact (@hvclone_spec A). Qed.

Lemma rc_get_stmt : forall A B (hp : @heap A) v vv idx, vabs hp v = Some vv -> hvget B hp v idx = vget B vv idx.
Proof. intros A B. exact (@hvget_refines A B). Qed.

Lemma rc_new_stmt : forall A (hp : @heap A) hs, hinv hp hs ->
  hinv hp (hvnew :: hs) /\ vabs hp hvnew = Some (@vnew A).
Proof. intros A. exact (@hvnew_spec A). Qed.

Lemma rc_init_stmt : forall A, hinv (@nil (@cell A)) [].
Proof. intros A. exact (@hinv_empty A). Qed.
