(* Operation histories over families of vector / slice handles: the implementation-shaped run
   ([run_impl], on the tree model) and the specification run ([run_spec], on plain lists). *)
From Coq Require Import List Arith Bool Lia.
Import ListNotations.
From NV Require Import Vector.Model.
Open Scope bool_scope.

Inductive op : Type :=
| VNew | VFrom (l : list nat) | VClone (k : nat) | VDrop (k : nat)
| VPush (k x : nat) | VPop (k : nat) | VSet (k i x : nat) | VGet (k i : nat)
| VTrunc (k n : nat) | VExtend (k : nat) (l : list nat) | VIterFrom (k i : nat) | VMapFrom (k i d : nat)
| SNew | SFrom (l : list nat) | SClone (k : nat) | SDrop (k : nat)
| SPush (k x : nat) | SPop (k : nat) | SSet (k i x : nat) | SGet (k i : nat)
| SSlice (k a b : nat) | SExtend (k : nat) (l : list nat) | SExtendFrom (k j : nat) | SIter (k : nat) | SMap (k d : nat).

(* what the histories do to the elements they visit through [iter_mut] *)
Definition bump (d x : nat) : nat := (x + d) mod 10.

(* what an operation returns to its caller *)
Inductive res : Type :=
| ROk | RDead | RPanic | RNone | RSome (x : nat) | RIter (l : list nat).

Fixpoint upd {X} (l : list (option X)) (k : nat) (x : option X) : list (option X) :=
  match l, k with
  | [], _ => []
  | _ :: t, 0 => x :: t
  | a :: t, S k' => a :: upd t k' x
  end.

Definition live {X} (l : list (option X)) (k : nat) : option X :=
  match nth_error l k with Some (Some x) => Some x | _ => None end.

Section Impl.
Variable B : nat.
Notation vec := (@vec nat).
Notation slice := (@slice nat).

Record istate := mkI { ivs : list (option vec); iss : list (option slice) }.
Definition iinit : istate := mkI [] [].

Definition with_v (st : istate) (k : nat) (f : vec -> istate * res) : istate * res :=
  match live (ivs st) k with Some v => f v | None => (st, RDead) end.
Definition with_s (st : istate) (k : nat) (f : slice -> istate * res) : istate * res :=
  match live (iss st) k with Some s => f s | None => (st, RDead) end.
Definition setv (st : istate) k v := mkI (upd (ivs st) k (Some v)) (iss st).
Definition sets (st : istate) k s := mkI (ivs st) (upd (iss st) k (Some s)).

Definition istep (st : istate) (o : op) : istate * res :=
  match o with
  | VNew => (mkI (ivs st ++ [Some vnew]) (iss st), ROk)
  | VFrom l => match vextend B vnew l with
               | Some v => (mkI (ivs st ++ [Some v]) (iss st), ROk)
               | None => (st, RPanic) end
  | VClone k => with_v st k (fun v => (mkI (ivs st ++ [Some v]) (iss st), ROk))
  | VDrop k => with_v st k (fun _ => (mkI (upd (ivs st) k None) (iss st), ROk))
  | VPush k x => with_v st k (fun v => match vpush B v x with
                                       | Some v' => (setv st k v', ROk) | None => (st, RPanic) end)
  | VPop k => with_v st k (fun v => match vpop v with
                                    | Some (Some x, v') => (setv st k v', RSome x)
                                    | Some (None, v') => (setv st k v', RNone)
                                    | None => (st, RPanic) end)
  | VSet k i x => with_v st k (fun v => match vset B v i x with
                                        | Some v' => (setv st k v', ROk) | None => (st, RPanic) end)
  | VGet k i => with_v st k (fun v => (st, match vget B v i with Some x => RSome x | None => RNone end))
  | VTrunc k n => with_v st k (fun v => match vtruncate B v n with
                                        | Some v' => (setv st k v', ROk) | None => (st, RPanic) end)
  | VExtend k l => with_v st k (fun v => match vextend B v l with
                                         | Some v' => (setv st k v', ROk) | None => (st, RPanic) end)
  | VIterFrom k i => with_v st k (fun v => (st, match viter_from B v i with
                                                | Some l => RIter l | None => RPanic end))
  | VMapFrom k i d => with_v st k (fun v => match vmap_from B v i (bump d) (vlen v) with
                                            | Some v' => (setv st k v', ROk) | None => (st, RPanic) end)
  | SNew => (mkI (ivs st) (iss st ++ [Some snew]), ROk)
  | SFrom l => match sfrom_list B l with
               | Some s => (mkI (ivs st) (iss st ++ [Some s]), ROk)
               | None => (st, RPanic) end
  | SClone k => with_s st k (fun s => (mkI (ivs st) (iss st ++ [Some s]), ROk))
  | SDrop k => with_s st k (fun _ => (mkI (ivs st) (upd (iss st) k None), ROk))
  | SPush k x => with_s st k (fun s => match spush B s x with
                                       | Some s' => (sets st k s', ROk) | None => (st, RPanic) end)
  | SPop k => with_s st k (fun s => match spop B s with
                                    | Some (Some x, s') => (sets st k s', RSome x)
                                    | Some (None, s') => (sets st k s', RNone)
                                    | None => (st, RPanic) end)
  | SSet k i x => with_s st k (fun s => match sset B s i x with
                                        | Some s' => (sets st k s', ROk) | None => (st, RPanic) end)
  | SGet k i => with_s st k (fun s => (st, match sget B s i with Some x => RSome x | None => RNone end))
  | SSlice k a b => with_s st k (fun s => match sslice s a b with
                                          | Some s' => (sets st k s', ROk) | None => (st, RPanic) end)
  | SExtend k l => with_s st k (fun s => match sextend B s l with
                                         | Some s' => (sets st k s', ROk) | None => (st, RPanic) end)
  | SExtendFrom k j =>
      with_s st k (fun s => match live (iss st) j with
                            | Some s2 =>
                                match siter B s2 with
                                | Some l => match sextend B s l with
                                            | Some s' => (sets st k s', ROk) | None => (st, RPanic) end
                                | None => (st, RPanic)
                                end
                            | None => (st, RDead) end)
  | SIter k => with_s st k (fun s => (st, match siter B s with Some l => RIter l | None => RPanic end))
  | SMap k d => with_s st k (fun s => match smap B s (bump d) with
                                      | Some s' => (sets st k s', ROk) | None => (st, RPanic) end)
  end.

(* the whole trace: result of every operation and the state after it *)
Fixpoint irun (st : istate) (ops : list op) : list (res * istate) :=
  match ops with
  | [] => []
  | o :: t => let (st', r) := istep st o in (r, st') :: irun st' t
  end.

(* observable contents of a state *)
Definition iview (st : istate) : list (option (list nat)) * list (option (option (list nat))) :=
  (map (option_map (@to_list nat)) (ivs st), map (option_map (siter B)) (iss st)).

End Impl.

(* ------------------------------------------------------------------ specification: plain lists *)
Record sstate := mkS { svs : list (option (list nat)); sss : list (option (list nat)) }.
Definition sinit : sstate := mkS [] [].

Definition swith (hs : list (option (list nat))) (k : nat)
           (st : sstate) (f : list nat -> sstate * res) : sstate * res :=
  match live hs k with Some l => f l | None => (st, RDead) end.

Definition ssetv (st : sstate) k l := mkS (upd (svs st) k (Some l)) (sss st).
Definition ssets (st : sstate) k l := mkS (svs st) (upd (sss st) k (Some l)).

Definition sstep (st : sstate) (o : op) : sstate * res :=
  match o with
  | VNew => (mkS (svs st ++ [Some []]) (sss st), ROk)
  | VFrom l => (mkS (svs st ++ [Some l]) (sss st), ROk)
  | VClone k => swith (svs st) k st (fun l => (mkS (svs st ++ [Some l]) (sss st), ROk))
  | VDrop k => swith (svs st) k st (fun _ => (mkS (upd (svs st) k None) (sss st), ROk))
  | VPush k x => swith (svs st) k st (fun l => (ssetv st k (l ++ [x]), ROk))
  | VPop k => swith (svs st) k st (fun l => match last_opt l with
                                            | Some x => (ssetv st k (removelast l), RSome x)
                                            | None => (st, RNone) end)
  | VSet k i x => swith (svs st) k st (fun l => if i <? length l then (ssetv st k (list_set l i x), ROk)
                                                else (st, RPanic))
  | VGet k i => swith (svs st) k st (fun l => (st, match nth_error l i with Some x => RSome x | None => RNone end))
  | VTrunc k n => swith (svs st) k st (fun l => (ssetv st k (firstn n l), ROk))
  | VExtend k l2 => swith (svs st) k st (fun l => (ssetv st k (l ++ l2), ROk))
  | VIterFrom k i => swith (svs st) k st (fun l => (st, if i <=? length l then RIter (skipn i l) else RPanic))
  | VMapFrom k i d => swith (svs st) k st (fun l => if i <=? length l
                                                     then (ssetv st k (firstn i l ++ map (bump d) (skipn i l)), ROk)
                                                     else (st, RPanic))
  | SNew => (mkS (svs st) (sss st ++ [Some []]), ROk)
  | SFrom l => (mkS (svs st) (sss st ++ [Some l]), ROk)
  | SClone k => swith (sss st) k st (fun l => (mkS (svs st) (sss st ++ [Some l]), ROk))
  | SDrop k => swith (sss st) k st (fun _ => (mkS (svs st) (upd (sss st) k None), ROk))
  | SPush k x => swith (sss st) k st (fun l => (ssets st k (l ++ [x]), ROk))
  | SPop k => swith (sss st) k st (fun l => match last_opt l with
                                            | Some x => (ssets st k (removelast l), RSome x)
                                            | None => (st, RNone) end)
  | SSet k i x => swith (sss st) k st (fun l => if i <? length l then (ssets st k (list_set l i x), ROk)
                                                else (st, RPanic))
  | SGet k i => swith (sss st) k st (fun l => (st, match nth_error l i with Some x => RSome x | None => RNone end))
  | SSlice k a b => swith (sss st) k st (fun l => if (a <=? b) && (b <=? length l)
                                                  then (ssets st k (firstn (b - a) (skipn a l)), ROk)
                                                  else (st, RPanic))
  | SExtend k l2 => swith (sss st) k st (fun l => (ssets st k (l ++ l2), ROk))
  | SExtendFrom k j => swith (sss st) k st (fun l => match live (sss st) j with
                                                     | Some l2 => (ssets st k (l ++ l2), ROk)
                                                     | None => (st, RDead) end)
  | SIter k => swith (sss st) k st (fun l => (st, RIter l))
  | SMap k d => swith (sss st) k st (fun l => (ssets st k (map (bump d) l), ROk))
  end.

Fixpoint srun (st : sstate) (ops : list op) : list (res * sstate) :=
  match ops with
  | [] => []
  | o :: t => let (st', r) := sstep st o in (r, st') :: srun st' t
  end.
