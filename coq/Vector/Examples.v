(* Non-vacuity: concrete values satisfying the hypotheses of the C17 theorems. *)
From Coq Require Import List Arith Bool Lia.
Import ListNotations.
From NV Require Import Vector.Model Vector.History Vector.Wf Vector.HistoryAbs Vector.ListLemmas
  Vector.NodeProofs Vector.VecProofs Vector.ExtendProofs Vector.SliceProofs Vector.HistoryProofs.

(* a three-level vector (height 2) with branching factor 2 and a partially filled right edge *)
Definition three_levels : @vec nat :=
  mkVec (Some (Interior [Interior [Leaf [1; 2]; Leaf [3; 4]]; Interior [Leaf [5]]])) 5 2.

Example three_levels_wf : wf 2 three_levels.
Proof.
  unfold wf, three_levels. cbn [root vlen height].
  split; [reflexivity|]. split; [vm_compute; reflexivity|]. right. split; [|cbn; lia].
  assert (L12 : pk 2 0 false (Leaf [1; 2])) by (cbn; lia).
  assert (L34 : pk 2 0 false (Leaf [3; 4])) by (cbn; lia).
  assert (L5 : pk 2 0 true (Leaf [5])) by (cbn; repeat split; try lia; discriminate).
  assert (I1 : pk 2 1 false (Interior [Leaf [1; 2]; Leaf [3; 4]])).
  { cbn [pk length]. split; [lia|]. split; [reflexivity|]. apply pkl_cons; [exact L12|apply pkl_last; exact L34]. }
  assert (I2 : pk 2 1 true (Interior [Leaf [5]])).
  { cbn [pk length]. split; [lia|]. split; [discriminate|]. apply pkl_last; exact L5. }
  cbn [pk length]. split; [lia|]. split; [discriminate|]. apply pkl_cons; [exact I1|apply pkl_last; exact I2].
Qed.

Example three_levels_is_extend : vextend 2 vnew [1; 2; 3; 4; 5] = Some three_levels.
Proof. vm_compute. reflexivity. Qed.

Example three_levels_checked : check_invariants 2 three_levels = true.
Proof. apply wf_check_invariants; [lia|apply three_levels_wf]. Qed.

(* branching factor 3 (not a power of two), height 2, 11 elements *)
Example wf_B3 : exists v, vextend 3 vnew (seq 0 11) = Some v /\ height v = 2 /\ wf 3 v.
Proof.
  destruct (vextend_spec 3 ltac:(lia) vnew (seq 0 11) (@vnew_wf nat 3)) as (v & E & W & _).
  exists v. split; [exact E|]. split; [|exact W].
  vm_compute in E. injection E as <-. reflexivity.
Qed.

(* a well-formed slice whose backing vector extends beyond its window on both sides *)
Example slice_window_wf : swf 2 (mkSlice three_levels 1 3) /\ sl_list (mkSlice three_levels 1 3) = [2; 3].
Proof. split; [|reflexivity]. split; [apply three_levels_wf|cbn; lia]. Qed.

(* a history in which a clone is taken, the original is then pushed, truncated below its height and
   extended across a level, and a slice of a shared vector is pushed: the clone keeps its contents *)
Definition demo_history : list op :=
  [VFrom [1; 2; 3; 4; 5]; VClone 0; VPush 0 6; VTrunc 0 2; VExtend 0 [7; 8; 9; 10; 11; 12; 13];
   VGet 1 4; VPop 1; SFrom [1; 2; 3; 4; 5]; SClone 0; SSlice 0 1 3; SPush 0 9; SGet 1 3; SIter 0; VSet 1 7 0].

Example demo_results :
  map fst (irun 2 iinit demo_history)
  = [ROk; ROk; ROk; ROk; ROk; RSome 5; RSome 5; ROk; ROk; ROk; ROk; RSome 4; RIter [2; 3; 9]; RPanic].
Proof. vm_compute. reflexivity. Qed.

Example demo_final_state :
  option_map (fun x => abs (snd x)) (last_opt (irun 2 iinit demo_history))
  = Some (mkS [Some [1; 2; 7; 8; 9; 10; 11; 12; 13]; Some [1; 2; 3; 4]]
              [Some [2; 3; 9]; Some [1; 2; 3; 4; 5]]).
Proof. vm_compute. reflexivity. Qed.

(* a state satisfying [all_wf] with live and dropped handles *)
Example all_wf_example :
  all_wf 2 (mkI [Some three_levels; None; Some vnew] [Some (mkSlice three_levels 1 3); None]).
Proof.
  split; cbn [ivs iss].
  - constructor; [exact three_levels_wf|]. constructor; [exact I|]. constructor; [apply vnew_wf|constructor].
  - constructor; [exact (proj1 slice_window_wf)|]. constructor; [exact I|constructor].
Qed.

(* The crate's own [check_invariants] (via [is_packed]) is weaker than [wf]: below an interior node it
   forgets that the node is not on the right edge.  This tree has a partially filled leaf in the
   middle, passes [check_invariants], and [get 3] on it misses the element [4]. *)
Definition badly_packed : @vec nat :=
  mkVec (Some (Interior [Interior [Leaf [1; 2]; Leaf [3]]; Interior [Leaf [4; 5]; Leaf [6]]])) 6 2.

Example check_invariants_incomplete :
  check_invariants 2 badly_packed = true /\ ~ wf 2 badly_packed
  /\ vget 2 badly_packed 3 = None /\ nth_error (to_list badly_packed) 3 = Some 4.
Proof.
  split; [vm_compute; reflexivity|]. split; [|split; vm_compute; reflexivity].
  intros W. pose proof (vget_spec 2 ltac:(lia) badly_packed 3 W) as H. vm_compute in H. discriminate.
Qed.
