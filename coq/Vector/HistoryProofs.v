(* The history theorem: every run of the implementation-shaped model [irun] over a family of
   vector and slice handles is, step by step, the run [srun] of independent lists: same results
   (including exactly the same panics), every live handle well-formed and denoting the list the
   specification holds for it. *)
From Coq Require Import List Arith Bool Lia.
Import ListNotations.
From NV Require Import Vector.Model Vector.History Vector.Wf Vector.HistoryAbs Vector.ListLemmas
  Vector.NodeProofs Vector.VecProofs Vector.ExtendProofs Vector.IterMutProofs Vector.SliceProofs.

(* ---- handle tables *)
Section Tables.
Context {X Y : Type}.
Variable f : X -> Y.

Lemma live_map : forall (l : list (option X)) k,
  live (map (option_map f) l) k = option_map f (live l k).
Proof.
  intros l k. unfold live. rewrite nth_error_map.
  destruct (nth_error l k) as [[x|]|]; reflexivity.
Qed.

Lemma upd_map : forall (l : list (option X)) k o,
  upd (map (option_map f) l) k (option_map f o) = map (option_map f) (upd l k o).
Proof.
  induction l as [|a l IH]; intros [|k] o; cbn [map upd]; try reflexivity.
  rewrite IH. reflexivity.
Qed.

Lemma upd_same : forall (l : list (option X)) k x, live l k = Some x -> upd l k (Some x) = l.
Proof.
  unfold live. induction l as [|a l IH]; intros [|k] x H; cbn [nth_error upd] in *; try reflexivity.
  - destruct a; [injection H as ->; reflexivity|discriminate].
  - rewrite IH by exact H. reflexivity.
Qed.

Lemma Forall_upd : forall (P : option X -> Prop) l k o, Forall P l -> P o -> Forall P (upd l k o).
Proof.
  intros P l k o H Ho. revert k. induction H as [|a l Ha Hl IH]; intros [|k]; cbn [upd]; constructor; auto.
Qed.

Lemma live_Forall : forall (P : option X -> Prop) l k x, Forall P l -> live l k = Some x -> P (Some x).
Proof.
  intros P l k x H E. unfold live in E. destruct (nth_error l k) as [[y|]|] eqn:En; try discriminate.
  injection E as ->. apply nth_error_In in En. rewrite Forall_forall in H. apply H. exact En.
Qed.

Lemma Forall_snoc : forall (P : option X -> Prop) l o, Forall P l -> P o -> Forall P (l ++ [o]).
Proof. intros P l o H Ho. apply Forall_app. split; [exact H|constructor; [exact Ho|constructor]]. Qed.

End Tables.

Section Hist.
Variable B : nat.
Hypothesis HB : 2 <= B.
Notation vec := (@vec nat).
Notation slice := (@slice nat).

Lemma abs_setv : forall st k v, abs (setv st k v) = ssetv (abs st) k (to_list v).
Proof.
  intros st k v. unfold abs, setv, ssetv. cbn [ivs iss svs sss]. f_equal.
  symmetry. apply (upd_map (@to_list nat) (ivs st) k (Some v)).
Qed.

Lemma abs_sets : forall st k s, abs (sets st k s) = ssets (abs st) k (sl_list s).
Proof.
  intros st k s. unfold abs, sets, ssets. cbn [ivs iss svs sss]. f_equal.
  symmetry. apply (upd_map (@sl_list nat) (iss st) k (Some s)).
Qed.

Lemma abs_addv : forall st v,
  abs (mkI (ivs st ++ [Some v]) (iss st)) = mkS (svs (abs st) ++ [Some (to_list v)]) (sss (abs st)).
Proof. intros. unfold abs. cbn [ivs iss svs sss]. rewrite map_app. reflexivity. Qed.

Lemma abs_adds : forall st s,
  abs (mkI (ivs st) (iss st ++ [Some s])) = mkS (svs (abs st)) (sss (abs st) ++ [Some (sl_list s)]).
Proof. intros. unfold abs. cbn [ivs iss svs sss]. rewrite map_app. reflexivity. Qed.

Lemma abs_dropv : forall st k,
  abs (mkI (upd (ivs st) k None) (iss st)) = mkS (upd (svs (abs st)) k None) (sss (abs st)).
Proof.
  intros. unfold abs. cbn [ivs iss svs sss]. f_equal.
  symmetry. apply (upd_map (@to_list nat) (ivs st) k None).
Qed.

Lemma abs_drops : forall st k,
  abs (mkI (ivs st) (upd (iss st) k None)) = mkS (svs (abs st)) (upd (sss (abs st)) k None).
Proof.
  intros. unfold abs. cbn [ivs iss svs sss]. f_equal.
  symmetry. apply (upd_map (@sl_list nat) (iss st) k None).
Qed.

Lemma live_absv : forall st k, live (svs (abs st)) k = option_map (@to_list nat) (live (ivs st) k).
Proof. intros. apply live_map. Qed.

Lemma live_abss : forall st k, live (sss (abs st)) k = option_map (@sl_list nat) (live (iss st) k).
Proof. intros. apply live_map. Qed.

Lemma setv_same : forall st k v, live (ivs st) k = Some v -> setv st k v = st.
Proof. intros [vs ss] k v H. unfold setv. cbn [ivs iss] in *. rewrite upd_same by exact H. reflexivity. Qed.

Lemma sets_same : forall st k s, live (iss st) k = Some s -> sets st k s = st.
Proof. intros [vs ss] k s H. unfold sets. cbn [ivs iss] in *. rewrite upd_same by exact H. reflexivity. Qed.

Lemma all_wf_setv : forall st k v, all_wf B st -> wf B v -> all_wf B (setv st k v).
Proof. intros st k v [H1 H2] W. split; cbn [setv ivs iss]; [apply Forall_upd; assumption|exact H2]. Qed.

Lemma all_wf_sets : forall st k s, all_wf B st -> swf B s -> all_wf B (sets st k s).
Proof. intros st k s [H1 H2] W. split; cbn [sets ivs iss]; [exact H1|apply Forall_upd; assumption]. Qed.

Lemma all_wf_addv : forall st v, all_wf B st -> wf B v -> all_wf B (mkI (ivs st ++ [Some v]) (iss st)).
Proof. intros st v [H1 H2] W. split; cbn [ivs iss]; [apply Forall_snoc; assumption|exact H2]. Qed.

Lemma all_wf_adds : forall st s, all_wf B st -> swf B s -> all_wf B (mkI (ivs st) (iss st ++ [Some s])).
Proof. intros st s [H1 H2] W. split; cbn [ivs iss]; [exact H1|apply Forall_snoc; assumption]. Qed.

Lemma all_wf_dropv : forall st k, all_wf B st -> all_wf B (mkI (upd (ivs st) k None) (iss st)).
Proof. intros st k [H1 H2]. split; cbn [ivs iss]; [apply Forall_upd; [assumption|exact I]|exact H2]. Qed.

Lemma all_wf_drops : forall st k, all_wf B st -> all_wf B (mkI (ivs st) (upd (iss st) k None)).
Proof. intros st k [H1 H2]. split; cbn [ivs iss]; [exact H1|apply Forall_upd; [assumption|exact I]]. Qed.

Lemma live_wfv : forall st k v, all_wf B st -> live (ivs st) k = Some v -> wf B v.
Proof. intros st k v [H1 _] E. exact (live_Forall (okv B) _ _ _ H1 E). Qed.

Lemma live_wfs : forall st k s, all_wf B st -> live (iss st) k = Some s -> swf B s.
Proof. intros st k s [_ H2] E. exact (live_Forall (oks B) _ _ _ H2 E). Qed.

(* ---- one step *)
Lemma step_refines : forall st o, all_wf B st ->
  sstep (abs st) o = (abs (fst (istep B st o)), snd (istep B st o))
  /\ all_wf B (fst (istep B st o)).
Proof.
  intros st o W.
  destruct o as [ | l | k | k | k x | k | k i x | k i | k n | k l | k i | k i d
                | | l | k | k | k x | k | k i x | k i | k a b | k l | k j | k | k d ];
    cbn [istep sstep]; unfold with_v, with_s, swith;
    try rewrite live_absv; try rewrite live_abss.
  - (* VNew *) cbn [fst snd]. rewrite abs_addv. split; [reflexivity|].
    apply all_wf_addv; [exact W|apply vnew_wf].
  - (* VFrom *)
    destruct (vextend_spec B HB vnew l (@vnew_wf nat B)) as (v & -> & Wv & Lv & _).
    cbn [fst snd]. rewrite abs_addv, Lv. split; [reflexivity|]. apply all_wf_addv; assumption.
  - (* VClone *)
    destruct (live (ivs st) k) as [v|] eqn:E; cbn [option_map fst snd]; [|auto].
    rewrite abs_addv. split; [reflexivity|]. apply all_wf_addv; [exact W|exact (live_wfv _ _ _ W E)].
  - (* VDrop *)
    destruct (live (ivs st) k) as [v|] eqn:E; cbn [option_map fst snd]; [|auto].
    rewrite abs_dropv. split; [reflexivity|]. apply all_wf_dropv; exact W.
  - (* VPush *)
    destruct (live (ivs st) k) as [v|] eqn:E; cbn [option_map fst snd]; [|auto].
    destruct (vpush_spec B HB v x (live_wfv _ _ _ W E)) as (v' & -> & Wv & Lv & _).
    cbn [fst snd]. rewrite abs_setv, Lv. split; [reflexivity|]. apply all_wf_setv; assumption.
  - (* VPop *)
    destruct (live (ivs st) k) as [v|] eqn:E; cbn [option_map fst snd]; [|auto].
    destruct (vpop_spec B HB v (live_wfv _ _ _ W E)) as (v' & -> & Wv & Lv & _ & Hsame).
    destruct (last_opt (to_list v)) as [x|] eqn:El; cbn [fst snd].
    + rewrite abs_setv, Lv. split; [reflexivity|]. apply all_wf_setv; assumption.
    + apply last_opt_nil_iff in El. rewrite (Hsame El), (setv_same _ _ _ E). auto.
  - (* VSet *)
    destruct (live (ivs st) k) as [v|] eqn:E; cbn [option_map fst snd]; [|auto].
    pose proof (live_wfv _ _ _ W E) as Wv0. rewrite (wf_length B HB _ Wv0).
    destruct (Nat.ltb_spec i (vlen v)) as [Hlt|Hge].
    + destruct (vset_spec B HB v i x Wv0 Hlt) as (v' & -> & Wv & Lv & _).
      cbn [fst snd]. rewrite abs_setv, Lv. split; [reflexivity|]. apply all_wf_setv; assumption.
    + rewrite (vset_out_of_bounds B HB v i x Hge). cbn [fst snd]. auto.
  - (* VGet *)
    destruct (live (ivs st) k) as [v|] eqn:E; cbn [option_map fst snd]; [|auto].
    rewrite (vget_spec B HB v i (live_wfv _ _ _ W E)). auto.
  - (* VTrunc *)
    destruct (live (ivs st) k) as [v|] eqn:E; cbn [option_map fst snd]; [|auto].
    destruct (vtruncate_spec B HB v n (live_wfv _ _ _ W E)) as (v' & -> & Wv & Lv & _).
    cbn [fst snd]. rewrite abs_setv, Lv. split; [reflexivity|]. apply all_wf_setv; assumption.
  - (* VExtend *)
    destruct (live (ivs st) k) as [v|] eqn:E; cbn [option_map fst snd]; [|auto].
    destruct (vextend_spec B HB v l (live_wfv _ _ _ W E)) as (v' & -> & Wv & Lv & _).
    cbn [fst snd]. rewrite abs_setv, Lv. split; [reflexivity|]. apply all_wf_setv; assumption.
  - (* VIterFrom *)
    destruct (live (ivs st) k) as [v|] eqn:E; cbn [option_map fst snd]; [|auto].
    pose proof (live_wfv _ _ _ W E) as Wv0.
    rewrite (viter_from_spec B HB v i Wv0), (wf_length B HB _ Wv0).
    destruct (i <=? vlen v); auto.
  - (* VMapFrom *)
    destruct (live (ivs st) k) as [v|] eqn:E; cbn [option_map fst snd]; [|auto].
    pose proof (live_wfv _ _ _ W E) as Wv0. rewrite (wf_length B HB _ Wv0).
    destruct (vmap_from_spec B HB (bump d) v i (vlen v) Wv0) as [Hok Hbad].
    destruct (Nat.leb_spec i (vlen v)) as [Hle|Hgt].
    + destruct (Hok Hle) as (v' & -> & Wv & Lv & _).
      cbn [fst snd]. rewrite abs_setv, Lv.
      rewrite map_take_all by (rewrite skipn_length, (wf_length B HB _ Wv0); lia).
      split; [reflexivity|]. apply all_wf_setv; assumption.
    + rewrite (Hbad Hgt). cbn [fst snd]. auto.
  - (* SNew *) cbn [fst snd]. rewrite abs_adds. split; [reflexivity|].
    apply all_wf_adds; [exact W|apply (snew_swf B HB)].
  - (* SFrom *)
    destruct (sfrom_list_spec B HB l) as (s & -> & Ws & Ls).
    cbn [fst snd]. rewrite abs_adds, Ls. split; [reflexivity|]. apply all_wf_adds; assumption.
  - (* SClone *)
    destruct (live (iss st) k) as [s|] eqn:E; cbn [option_map fst snd]; [|auto].
    rewrite abs_adds. split; [reflexivity|]. apply all_wf_adds; [exact W|exact (live_wfs _ _ _ W E)].
  - (* SDrop *)
    destruct (live (iss st) k) as [s|] eqn:E; cbn [option_map fst snd]; [|auto].
    rewrite abs_drops. split; [reflexivity|]. apply all_wf_drops; exact W.
  - (* SPush *)
    destruct (live (iss st) k) as [s|] eqn:E; cbn [option_map fst snd]; [|auto].
    destruct (spush_spec B HB s x (live_wfs _ _ _ W E)) as (s' & -> & Ws & Ls).
    cbn [fst snd]. rewrite abs_sets, Ls. split; [reflexivity|]. apply all_wf_sets; assumption.
  - (* SPop *)
    destruct (live (iss st) k) as [s|] eqn:E; cbn [option_map fst snd]; [|auto].
    destruct (spop_spec B HB s (live_wfs _ _ _ W E)) as (s' & -> & Ws & Ls & Hsame).
    destruct (last_opt (sl_list s)) as [x|] eqn:El; cbn [fst snd].
    + rewrite abs_sets, Ls. split; [reflexivity|]. apply all_wf_sets; assumption.
    + apply last_opt_nil_iff in El. rewrite (Hsame El), (sets_same _ _ _ E). auto.
  - (* SSet *)
    destruct (live (iss st) k) as [s|] eqn:E; cbn [option_map fst snd]; [|auto].
    pose proof (live_wfs _ _ _ W E) as Ws0. rewrite (sl_length B HB _ Ws0).
    destruct (Nat.ltb_spec i (slen s)) as [Hlt|Hge].
    + destruct (sset_spec B HB s i x Ws0 Hlt) as (s' & -> & Ws & Ls).
      cbn [fst snd]. rewrite abs_sets, Ls. split; [reflexivity|]. apply all_wf_sets; assumption.
    + rewrite (sset_out_of_bounds B HB s i x Hge). cbn [fst snd]. auto.
  - (* SGet *)
    destruct (live (iss st) k) as [s|] eqn:E; cbn [option_map fst snd]; [|auto].
    rewrite (sget_spec B HB s i (live_wfs _ _ _ W E)). auto.
  - (* SSlice *)
    destruct (live (iss st) k) as [s|] eqn:E; cbn [option_map fst snd]; [|auto].
    pose proof (live_wfs _ _ _ W E) as Ws0. rewrite (sl_length B HB _ Ws0).
    pose proof (sslice_spec B HB s a b Ws0) as Hs.
    destruct ((a <=? b) && (b <=? slen s)).
    + destruct Hs as (s' & -> & Ws & Ls).
      cbn [fst snd]. rewrite abs_sets, Ls. split; [reflexivity|]. apply all_wf_sets; assumption.
    + rewrite Hs. cbn [fst snd]. auto.
  - (* SExtend *)
    destruct (live (iss st) k) as [s|] eqn:E; cbn [option_map fst snd]; [|auto].
    destruct (sextend_spec B HB s l (live_wfs _ _ _ W E)) as (s' & -> & Ws & Ls).
    cbn [fst snd]. rewrite abs_sets, Ls. split; [reflexivity|]. apply all_wf_sets; assumption.
  - (* SExtendFrom *)
    destruct (live (iss st) k) as [s|] eqn:E; cbn [option_map fst snd]; [|auto].
    rewrite live_abss.
    destruct (live (iss st) j) as [s2|] eqn:E2; cbn [option_map fst snd]; [|auto].
    rewrite (siter_spec B HB s2 (live_wfs _ _ _ W E2)).
    destruct (sextend_spec B HB s (sl_list s2) (live_wfs _ _ _ W E)) as (s' & -> & Ws & Ls).
    cbn [fst snd]. rewrite abs_sets, Ls. split; [reflexivity|]. apply all_wf_sets; assumption.
  - (* SIter *)
    destruct (live (iss st) k) as [s|] eqn:E; cbn [option_map fst snd]; [|auto].
    rewrite (siter_spec B HB s (live_wfs _ _ _ W E)). auto.
  - (* SMap *)
    destruct (live (iss st) k) as [s|] eqn:E; cbn [option_map fst snd]; [|auto].
    destruct (smap_spec B HB s (bump d) (live_wfs _ _ _ W E)) as (s' & -> & Ws & Ls).
    cbn [fst snd]. rewrite abs_sets, Ls. split; [reflexivity|]. apply all_wf_sets; assumption.
Qed.

(* ---- whole histories *)
Lemma run_refines : forall ops st, all_wf B st ->
  Forall2 (step_rel B) (irun B st ops) (srun (abs st) ops).
Proof.
  induction ops as [|o ops IH]; intros st W; cbn [irun srun]; [constructor|].
  destruct (step_refines st o W) as [E W'].
  destruct (istep B st o) as [st' r] eqn:Ei. cbn [fst snd] in *. rewrite E.
  constructor; [|apply IH; exact W'].
  unfold step_rel. cbn [fst snd]. auto.
Qed.

Lemma iinit_wf : all_wf B iinit.
Proof. split; constructor. Qed.

Theorem history_refines : forall ops,
  Forall2 (step_rel B) (irun B iinit ops) (srun sinit ops).
Proof. intros ops. apply (run_refines ops iinit iinit_wf). Qed.

(* Consequence spelled out for one step: an operation through one handle never changes what any
   other live handle denotes. *)
Theorem frame_vec : forall st o j, all_wf B st ->
  match o with
  | VPush k _ | VPop k | VSet k _ _ | VTrunc k _ | VExtend k _ | VMapFrom k _ _ | VDrop k => j <> k
  | _ => True
  end ->
  j < length (ivs st) ->
  option_map (@to_list nat) (nth j (ivs (fst (istep B st o))) None)
  = option_map (@to_list nat) (nth j (ivs st) None).
Proof.
  intros st o j W Hj Hlt.
  destruct (step_refines st o W) as [E _].
  assert (Hs : svs (fst (sstep (abs st) o)) = svs (abs (fst (istep B st o)))) by (rewrite E; reflexivity).
  assert (Hn : forall st0, option_map (@to_list nat) (nth j (ivs st0) None) = nth j (svs (abs st0)) None).
  { intros st0. unfold abs. cbn [svs]. rewrite <- (map_nth (option_map (@to_list nat))). reflexivity. }
  rewrite !Hn, <- Hs. clear E Hs Hn.
  assert (Hlt' : j < length (svs (abs st))) by (unfold abs; cbn [svs]; rewrite map_length; exact Hlt).
  assert (Hupd : forall l k (x : option (list nat)), j <> k -> nth j (upd l k x) None = nth j l None).
  { clear. intros l k x. revert j k. induction l as [|a l IH]; intros [|j] [|k] H; cbn [upd nth]; auto; try congruence. }
  assert (Happ : forall (l : list (option (list nat))) x, j < length l -> nth j (l ++ [x]) None = nth j l None).
  { intros l x H. apply app_nth1. exact H. }
  generalize dependent (abs st). intros sa Hlt'.
  destruct o; cbn [sstep]; unfold swith, ssetv, ssets;
    repeat match goal with
           | |- context [match ?x with _ => _ end] => destruct x; cbn [fst svs]
           end; cbn [fst svs]; auto.
Qed.

Theorem frame_slice : forall st o j, all_wf B st ->
  match o with
  | SPush k _ | SPop k | SSet k _ _ | SSlice k _ _ | SExtend k _ | SExtendFrom k _ | SMap k _ | SDrop k => j <> k
  | _ => True
  end ->
  j < length (iss st) ->
  option_map (@sl_list nat) (nth j (iss (fst (istep B st o))) None)
  = option_map (@sl_list nat) (nth j (iss st) None).
Proof.
  intros st o j W Hj Hlt.
  destruct (step_refines st o W) as [E _].
  assert (Hs : sss (fst (sstep (abs st) o)) = sss (abs (fst (istep B st o)))) by (rewrite E; reflexivity).
  assert (Hn : forall st0, option_map (@sl_list nat) (nth j (iss st0) None) = nth j (sss (abs st0)) None).
  { intros st0. unfold abs. cbn [sss]. rewrite <- (map_nth (option_map (@sl_list nat))). reflexivity. }
  rewrite !Hn, <- Hs. clear E Hs Hn.
  assert (Hlt' : j < length (sss (abs st))) by (unfold abs; cbn [sss]; rewrite map_length; exact Hlt).
  assert (Hupd : forall l k (x : option (list nat)), j <> k -> nth j (upd l k x) None = nth j l None).
  { clear. intros l k x. revert j k. induction l as [|a l IH]; intros [|j] [|k] H; cbn [upd nth]; auto; try congruence. }
  assert (Happ : forall (l : list (option (list nat))) x, j < length l -> nth j (l ++ [x]) None = nth j l None).
  { intros l x H. apply app_nth1. exact H. }
  generalize dependent (abs st). intros sa Hlt'.
  destruct o; cbn [sstep]; unfold swith, ssetv, ssets;
    repeat match goal with
           | |- context [match ?x with _ => _ end] => destruct x; cbn [fst sss]
           end; cbn [fst sss]; auto.
Qed.

End Hist.
