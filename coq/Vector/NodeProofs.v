(* Node-level lemmas: the packed-tree predicate [pk], sizes, and the specification of every
   [Node::*] operation of the model with respect to [node_list]. *)
From Coq Require Import List Arith Bool Lia.
Import ListNotations.
From NV Require Import Vector.Model Vector.Wf Vector.ListLemmas.

(* ------------------------------------------------------------------ pkl *)
Section PKL.
Context {A : Type}.
Notation node := (@node A).
Variable P : bool -> node -> Prop.

Lemma pkl_nonempty : forall rm l, pkl P rm l -> l <> [].
Proof. intros rm l H. destruct H; discriminate. Qed.

Lemma pkl_snoc : forall rm init c, Forall (P false) init -> P rm c -> pkl P rm (init ++ [c]).
Proof.
  intros rm init c Hi Hc. induction Hi as [|a init Ha _ IH]; cbn [app].
  - apply pkl_last. exact Hc.
  - apply pkl_cons; assumption.
Qed.

Lemma pkl_inv : forall rm l, pkl P rm l ->
  exists init c, l = init ++ [c] /\ Forall (P false) init /\ P rm c.
Proof.
  intros rm l H. induction H as [c Hc|c l Hc _ (init & c' & -> & Hi & Hc')].
  - exists [], c. repeat split; auto.
  - exists (c :: init), c'. repeat split; auto.
Qed.

Lemma pkl_snoc_inv : forall rm init c, pkl P rm (init ++ [c]) -> Forall (P false) init /\ P rm c.
Proof.
  intros rm init c H. destruct (pkl_inv _ _ H) as (i2 & c2 & E & Hi & Hc).
  apply app_inj_tail in E. destruct E as [-> ->]. split; assumption.
Qed.

Lemma pkl_at : forall rm l b c, pkl P rm l -> nth_error l b = Some c ->
  Forall (P false) (firstn b l) /\ P (rm && (S b =? length l)) c.
Proof.
  intros rm l b c H. revert b. induction H as [c0 Hc0|c0 l Hc0 Hl IH]; intros b Hb.
  - destruct b as [|b]; cbn [nth_error] in Hb.
    + injection Hb as ->. cbn. rewrite andb_true_r. split; [constructor|exact Hc0].
    + destruct b; discriminate.
  - destruct b as [|b]; cbn [nth_error] in Hb.
    + injection Hb as ->. cbn [firstn length]. split; [constructor|].
      pose proof (pkl_nonempty _ _ Hl). destruct l; [congruence|].
      cbn [length Nat.eqb]. rewrite andb_false_r. exact Hc0.
    + destruct (IH _ Hb) as [H1 H2]. cbn [firstn length]. split; [constructor; assumption|].
      exact H2.
Qed.

Lemma pkl_list_set : forall rm l b c, pkl P rm l -> b < length l ->
  P (rm && (S b =? length l)) c -> pkl P rm (list_set l b c).
Proof.
  intros rm l b c H. revert b. induction H as [c0 Hc0|c0 l Hc0 Hl IH]; intros b Hb Hc.
  - cbn [length] in Hb. assert (b = 0) by lia. subst b. cbn in Hc. rewrite andb_true_r in Hc.
    cbn [list_set]. apply pkl_last. exact Hc.
  - destruct b as [|b]; cbn [list_set].
    + apply pkl_cons; [|exact Hl]. pose proof (pkl_nonempty _ _ Hl). destruct l; [congruence|].
      cbn [length Nat.eqb] in Hc. rewrite andb_false_r in Hc. exact Hc.
    + apply pkl_cons; [exact Hc0|]. apply IH; [cbn [length] in Hb; lia|exact Hc].
Qed.

Lemma pkl_of_Forall : forall rm l, (forall c, P false c -> P rm c) ->
  Forall (P false) l -> l <> [] -> pkl P rm l.
Proof.
  intros rm l W H Hne. destruct (snoc_cases l) as [->|(init & c & ->)]; [congruence|].
  apply Forall_app in H. destruct H as [Hi Hc]. inversion Hc; subst.
  apply pkl_snoc; auto.
Qed.

End PKL.

(* ------------------------------------------------------------------ generic flat_map positions *)
Section Flat.
Context {X Y : Type}.
Variable f : X -> list Y.
Variable m : nat.

Lemma split_at : forall (l : list X) b c, nth_error l b = Some c ->
  l = firstn b l ++ c :: skipn (S b) l /\ length (firstn b l) = b.
Proof.
  induction l as [|a l IH]; intros [|b] c H; cbn [nth_error] in H; try discriminate.
  - injection H as ->. split; reflexivity.
  - destruct (IH _ _ H) as [E L]. cbn [firstn skipn app length]. split; [f_equal; exact E|lia].
Qed.

Lemma list_set_split : forall (l : list X) b c x, nth_error l b = Some c ->
  list_set l b x = firstn b l ++ x :: skipn (S b) l.
Proof.
  intros l b c x H. destruct (split_at _ _ _ H) as [E L].
  rewrite E at 1.
  transitivity (list_set (firstn b l ++ c :: skipn (S b) l) (length (firstn b l)) x);
    [rewrite L; reflexivity|apply list_set_mid].
Qed.

Lemma flat_mid : forall l1 c l2, flat_map f (l1 ++ c :: l2) = flat_map f l1 ++ f c ++ flat_map f l2.
Proof. intros. rewrite flat_map_app. reflexivity. Qed.

End Flat.

Section Three.
Context {Y : Type}.
Implicit Types F C R : list Y.

Lemma nth3 : forall F C R p r, length F = p -> r < length C ->
  nth_error (F ++ C ++ R) (p + r) = nth_error C r.
Proof.
  intros F C R p r <- Hr. rewrite nth_error_app2 by lia.
  replace (length F + r - length F) with r by lia. apply nth_error_app1. exact Hr.
Qed.

Lemma set3 : forall F C R p r x, length F = p -> r < length C ->
  list_set (F ++ C ++ R) (p + r) x = F ++ list_set C r x ++ R.
Proof.
  intros F C R p r x <- Hr. rewrite list_set_app_r. rewrite list_set_app_l by exact Hr. reflexivity.
Qed.

Lemma skip3 : forall F C R p r, length F = p -> r <= length C ->
  skipn (p + r) (F ++ C ++ R) = skipn r C ++ R.
Proof.
  intros F C R p r <- Hr. rewrite skipn_app.
  replace (length F + r - length F) with r by lia.
  rewrite skipn_all2 by lia. cbn [app].
  rewrite skipn_app. replace (r - length C) with 0 by lia. reflexivity.
Qed.

Lemma first3 : forall F C R p r, length F = p -> r <= length C ->
  firstn (p + r) (F ++ C ++ R) = F ++ firstn r C.
Proof.
  intros F C R p r <- Hr. rewrite firstn_app.
  replace (length F + r - length F) with r by lia.
  rewrite firstn_all2 by lia. f_equal. apply firstn_app_le. exact Hr.
Qed.

End Three.


(* ------------------------------------------------------------------ pk *)
Section PK.
Context {A : Type}.
Variable B : nat.
Hypothesis HB : 2 <= B.
Notation node := (@node A).
Notation pk := (@pk A B).
Notation cap := (cap B).
Notation nl := (@node_list A).

Lemma cap_S : forall h, cap (S h) = B * cap h.
Proof. intros. unfold cap. apply pow_S. Qed.

Lemma cap_0 : cap 0 = B.
Proof. unfold cap. apply Nat.pow_1_r. Qed.

Lemma cap_pos : forall h, 2 <= cap h.
Proof.
  intros h. unfold cap. rewrite pow_S. pose proof (pow_pos B HB h). nia.
Qed.

Lemma cap_mono : forall a b, a <= b -> cap a <= cap b.
Proof. intros. unfold cap. apply pow_mono; lia. Qed.

Lemma pk_weaken : forall h rm n, pk h false n -> pk h rm n.
Proof.
  induction h as [|h IH]; intros rm n H; destruct n as [d|ch]; cbn [Wf.pk] in *; try contradiction.
  - destruct H as (H1 & H2 & H3). auto.
  - destruct H as (H1 & H2 & H3). split; [exact H1|]. split; [auto|].
    destruct (pkl_inv _ _ _ H3) as (init & c & -> & Hi & Hc).
    apply pkl_snoc; auto.
Qed.

Lemma pk_true : forall h rm n, pk h rm n -> pk h true n.
Proof. intros h [|] n H; [exact H|apply pk_weaken; exact H]. Qed.

Lemma pk_flag : forall h rm b n, pk h (rm && b) n -> pk h rm n.
Proof.
  intros h rm b n H. destruct rm; [apply pk_true in H; exact H|exact H].
Qed.

Lemma pk_0_inv : forall rm n, pk 0 rm n ->
  exists d, n = Leaf d /\ 1 <= length d /\ length d <= B /\ (rm = false -> length d = B).
Proof. intros rm [d|ch] H; cbn in H; [eauto|contradiction]. Qed.

Lemma pk_S_inv : forall h rm n, pk (S h) rm n ->
  exists init c, n = Interior (init ++ [c]) /\ length init + 1 <= B
                 /\ (rm = false -> length init + 1 = B)
                 /\ Forall (pk h false) init /\ pk h rm c.
Proof.
  intros h rm [d|ch] H; cbn [Wf.pk] in H; [contradiction|].
  destruct H as (H1 & H2 & H3). destruct (pkl_inv _ _ _ H3) as (init & c & -> & Hi & Hc).
  rewrite app_length in *. cbn [length] in *. exists init, c. auto 6.
Qed.

Lemma pk_S_intro : forall h rm init c, length init + 1 <= B -> (rm = false -> length init + 1 = B) ->
  Forall (pk h false) init -> pk h rm c -> pk (S h) rm (Interior (init ++ [c])).
Proof.
  intros h rm init c H1 H2 Hi Hc. cbn [Wf.pk]. rewrite app_length. cbn [length].
  split; [exact H1|]. split; [exact H2|]. apply pkl_snoc; assumption.
Qed.

Lemma pk_S_ch : forall h rm ch, pk (S h) rm (Interior ch) ->
  1 <= length ch /\ length ch <= B /\ pkl (pk h) rm ch.
Proof.
  intros h rm ch H. cbn [Wf.pk] in H. destruct H as (H1 & H2 & H3).
  pose proof (pkl_nonempty _ _ _ H3). destruct ch; [congruence|]. cbn [length] in *. repeat split; auto. lia.
Qed.

Lemma pk_full_children : forall h ch, pk (S h) false (Interior ch) ->
  length ch = B /\ Forall (pk h false) ch.
Proof.
  intros h ch H. cbn [Wf.pk] in H. destruct H as (H1 & H2 & H3). split; [auto|].
  destruct (pkl_inv _ _ _ H3) as (init & c & -> & Hi & Hc). apply Forall_app. split; auto.
Qed.

(* ---- sizes *)
Lemma pk_len : forall h rm n, pk h rm n ->
  1 <= length (nl h n) /\ length (nl h n) <= cap h /\ (rm = false -> length (nl h n) = cap h).
Proof.
  induction h as [|h IH]; intros rm n H.
  - destruct (pk_0_inv _ _ H) as (d & -> & H1 & H2 & H3). cbn [node_list]. rewrite cap_0. auto.
  - destruct (pk_S_inv _ _ _ H) as (init & c & -> & H1 & H2 & Hi & Hc).
    cbn [node_list]. rewrite flat_map_snoc, app_length.
    rewrite (flat_map_length_const (nl h) (cap h) init).
    2:{ eapply Forall_impl; [|exact Hi]. intros a Ha. apply (IH false a Ha). reflexivity. }
    destruct (IH _ _ Hc) as (L1 & L2 & L3). rewrite cap_S.
    pose proof (cap_pos h).
    split; [lia|]. split; [nia|]. intros ->. rewrite L3 by reflexivity.
    specialize (H2 eq_refl). nia.
Qed.

Lemma pk_full_len : forall h n, pk h false n -> length (nl h n) = cap h.
Proof. intros h n H. apply (pk_len _ _ _ H). reflexivity. Qed.

Lemma pk_full_lens : forall h l, Forall (pk h false) l ->
  Forall (fun x => length (nl h x) = cap h) l.
Proof. intros h l H. eapply Forall_impl; [|exact H]. intros a Ha. apply pk_full_len. exact Ha. Qed.

Lemma nl_snoc : forall h init c, Forall (pk h false) init ->
  nl (S h) (Interior (init ++ [c])) = flat_map (nl h) init ++ nl h c
  /\ length (flat_map (nl h) init) = length init * cap h.
Proof.
  intros h init c Hi. cbn [node_list]. rewrite flat_map_snoc. split; [reflexivity|].
  apply flat_map_length_const. apply pk_full_lens. exact Hi.
Qed.

Lemma pk_full_of_len : forall h n, pk h true n -> length (nl h n) = cap h -> pk h false n.
Proof.
  induction h as [|h IH]; intros n H L.
  - destruct (pk_0_inv _ _ H) as (d & -> & H1 & H2 & H3). cbn [node_list] in L. rewrite cap_0 in L.
    cbn [Wf.pk]. auto.
  - destruct (pk_S_inv _ _ _ H) as (init & c & -> & H1 & H2 & Hi & Hc).
    destruct (nl_snoc h init c Hi) as [E Li]. rewrite E, app_length, Li, cap_S in L.
    destruct (pk_len _ _ _ Hc) as (L1 & L2 & _). pose proof (cap_pos h).
    assert (length init + 1 = B) by nia.
    assert (length (nl h c) = cap h) by nia.
    apply pk_S_intro; auto.
Qed.

Lemma pk_interior_len_le : forall h rm ch, pk (S h) rm (Interior ch) ->
  length (nl (S h) (Interior ch)) <= length ch * cap h.
Proof.
  intros h rm ch H. destruct (pk_S_inv _ _ _ H) as (init & c & E & H1 & H2 & Hi & Hc).
  injection E as ->. destruct (nl_snoc h init c Hi) as [E Li]. rewrite E, !app_length, Li.
  destruct (pk_len _ _ _ Hc) as (L1 & L2 & _). cbn [length]. nia.
Qed.

Lemma root_ok_iff : forall h r, pk h true r ->
  (root_children_ok r <-> (h = 0 \/ B ^ h < length (nl h r))).
Proof.
  intros [|h] r H.
  - destruct (pk_0_inv _ _ H) as (d & -> & _). cbn. tauto.
  - destruct (pk_S_inv _ _ _ H) as (init & c & -> & H1 & H2 & Hi & Hc).
    destruct (nl_snoc h init c Hi) as [E Li]. rewrite E, app_length, Li.
    destruct (pk_len _ _ _ Hc) as (L1 & L2 & _). fold (cap h). pose proof (cap_pos h).
    unfold root_children_ok. rewrite app_length. cbn [length].
    split.
    + intros Hc2. right. nia.
    + intros [Hc2|Hc2]; [discriminate|]. destruct init; cbn [length] in *; lia.
Qed.

(* ---- a child and everything to its left *)
Lemma pk_child_at : forall h rm ch b c, pk (S h) rm (Interior ch) -> nth_error ch b = Some c ->
  Forall (pk h false) (firstn b ch)
  /\ pk h (rm && (S b =? length ch)) c /\ b < length ch /\ length ch <= B
  /\ nl (S h) (Interior ch)
     = flat_map (nl h) (firstn b ch) ++ nl h c ++ flat_map (nl h) (skipn (S b) ch)
  /\ length (flat_map (nl h) (firstn b ch)) = b * cap h.
Proof.
  intros h rm ch b c H Hb. destruct (pk_S_ch _ _ _ H) as (L1 & L2 & Hp).
  destruct (split_at _ _ _ Hb) as [E L]. destruct (pkl_at _ _ _ _ _ Hp Hb) as [F Pc].
  assert (b < length ch) by (apply nth_error_Some; congruence).
  repeat split; auto.
  - transitivity (flat_map (nl h) (firstn b ch ++ c :: skipn (S b) ch));
      [cbn [node_list]; f_equal; exact E|apply flat_mid].
  - rewrite (flat_map_length_const _ _ _ (pk_full_lens _ _ F)), L. reflexivity.
Qed.

Lemma pk_replace_child : forall h rm ch b c, pk (S h) rm (Interior ch) -> b < length ch ->
  pk h (rm && (S b =? length ch)) c -> pk (S h) rm (Interior (list_set ch b c)).
Proof.
  intros h rm ch b c H Hb Hc. cbn [Wf.pk] in *. rewrite list_set_length.
  destruct H as (H1 & H2 & H3). split; [exact H1|]. split; [exact H2|].
  apply pkl_list_set; assumption.
Qed.

(* position of index [idx] inside a node of height [S h] *)
Lemma idx_pos : forall idx h,
  idx mod cap (S h) = extract_index B idx (S h) * cap h + idx mod cap h
  /\ extract_index B idx (S h) < B /\ idx mod cap h < cap h.
Proof. intros. unfold cap. apply (idx_split B HB idx (S h)). Qed.

(* the last child is the only one that may be incomplete *)
Lemma child_len_cases : forall h rm ch b c, pk (S h) rm (Interior ch) -> nth_error ch b = Some c ->
  length (nl h c) = cap h
  \/ length (nl (S h) (Interior ch)) = b * cap h + length (nl h c).
Proof.
  intros h rm ch b c H Hn.
  destruct (pk_child_at _ _ _ _ _ H Hn) as (Ff & Pc & Hb & _ & Enl & LF).
  destruct (Nat.eqb_spec (S b) (length ch)) as [Hl|Hl].
  - right. assert (Hs : skipn (S b) ch = []) by (apply skipn_all2; lia).
    rewrite Enl, Hs. cbn [flat_map]. rewrite !app_length. cbn [length]. lia.
  - left. rewrite andb_false_r in Pc. apply pk_full_len. exact Pc.
Qed.

(* if the position is inside the node, its bucket exists and the remainder is inside the child *)
Lemma pos_in_child : forall h rm ch idx, pk (S h) rm (Interior ch) ->
  idx mod cap (S h) < length (nl (S h) (Interior ch)) ->
  exists c, nth_error ch (extract_index B idx (S h)) = Some c /\ idx mod cap h < length (nl h c).
Proof.
  intros h rm ch idx H Hlt. destruct (idx_pos idx h) as (E & Hb & Hr).
  set (b := extract_index B idx (S h)) in *. set (r := idx mod cap h) in *. clearbody b r.
  pose proof (pk_interior_len_le _ _ _ H) as Hle.
  assert (Hbl : b < length ch) by nia.
  destruct (nth_error ch b) as [c|] eqn:Hn; [|apply nth_error_None in Hn; lia].
  exists c. split; [reflexivity|].
  destruct (child_len_cases _ _ _ _ _ H Hn) as [Hc|Hc]; lia.
Qed.

(* ---- Node::get *)
Lemma node_get_spec : forall h rm n idx, pk h rm n ->
  node_get B h n idx = nth_error (nl h n) (idx mod cap h).
Proof.
  induction h as [|h IH]; intros rm n idx H.
  - destruct (pk_0_inv _ _ H) as (d & -> & _). cbn [node_get node_list]. rewrite cap_0. reflexivity.
  - destruct n as [d|ch]; [cbn in H; contradiction|]. cbn [node_get].
    destruct (idx_pos idx h) as (E & _ & Hr0).
    destruct (nth_error ch (extract_index B idx (S h))) as [c|] eqn:Hn.
    + destruct (pk_child_at _ _ _ _ _ H Hn) as (Ff & Pc & Hb & _ & Enl & LF).
      rewrite (IH _ _ idx Pc). rewrite E.
      destruct (Nat.lt_ge_cases (idx mod cap h) (length (nl h c))) as [Hr|Hr].
      * rewrite Enl. symmetry. apply nth3; assumption.
      * rewrite (proj2 (nth_error_None _ _) Hr). symmetry. apply nth_error_None.
        destruct (child_len_cases _ _ _ _ _ H Hn) as [Hc|Hc]; lia.
    + symmetry. apply nth_error_None. apply nth_error_None in Hn. rewrite E.
      pose proof (pk_interior_len_le _ _ _ H). nia.
Qed.

(* ---- spine *)
Lemma spine_spec : forall h (x : A), pk h true (spine h x) /\ nl h (spine h x) = [x].
Proof.
  induction h as [|h IH]; intros x.
  - cbn. repeat split; try lia; try discriminate.
  - destruct (IH x) as [P L]. cbn [spine]. split.
    + apply (pk_S_intro h true [] (spine h x)); cbn [length]; auto; try lia; try discriminate.
    + cbn [node_list flat_map]. rewrite L. reflexivity.
Qed.

(* ---- Node::set on an existing position *)
Lemma node_set_in : forall h rm n idx x, pk h rm n -> idx mod cap h < length (nl h n) ->
  exists n', node_set B h n idx x = Some n' /\ pk h rm n'
             /\ nl h n' = list_set (nl h n) (idx mod cap h) x.
Proof.
  induction h as [|h IH]; intros rm n idx x H Hlt.
  - destruct (pk_0_inv _ _ H) as (d & -> & H1 & H2 & H3). cbn [node_set node_list] in *.
    rewrite cap_0 in *. destruct (Nat.ltb_spec (idx mod B) (length d)); [|lia].
    eexists. split; [reflexivity|]. cbn [Wf.pk node_list]. rewrite list_set_length. auto.
  - destruct n as [d|ch]; [cbn in H; contradiction|]. cbn [node_set].
    destruct (pos_in_child _ _ _ _ H Hlt) as (c & Hn & Hr).
    destruct (pk_child_at _ _ _ _ _ H Hn) as (Ff & Pc & Hb & _ & Enl & LF).
    destruct (Nat.ltb_spec (extract_index B idx (S h)) (length ch)); [|lia].
    rewrite Hn. destruct (IH _ _ idx x Pc Hr) as (c' & -> & Pc' & Lc').
    eexists. split; [reflexivity|]. split; [apply pk_replace_child; assumption|].
    destruct (idx_pos idx h) as (E & _ & _). rewrite E, Enl.
    rewrite (set3 _ _ _ _ _ _ LF Hr). rewrite <- Lc'.
    rewrite (list_set_split _ _ _ c' Hn). cbn [node_list]. apply flat_mid.
Qed.

(* ---- Node::set one past the end (what [push] does) *)
Lemma node_set_push : forall h n idx x, pk h true n -> idx mod cap h = length (nl h n) ->
  exists n', node_set B h n idx x = Some n' /\ pk h true n' /\ nl h n' = nl h n ++ [x].
Proof.
  induction h as [|h IH]; intros n idx x H Hpos.
  - destruct (pk_0_inv _ _ H) as (d & -> & H1 & H2 & H3). cbn [node_set node_list] in *.
    rewrite cap_0 in *. pose proof (Nat.mod_upper_bound idx B ltac:(lia)).
    destruct (Nat.ltb_spec (idx mod B) (length d)); [lia|].
    destruct (Nat.eqb_spec (idx mod B) (length d)); [|lia].
    eexists. split; [reflexivity|]. cbn [Wf.pk node_list]. rewrite app_length. cbn [length].
    split; [|reflexivity]. repeat split; try lia; try discriminate.
  - destruct (pk_S_inv _ _ _ H) as (init & c & -> & H1 & H2 & Hi & Hc).
    destruct (nl_snoc h init c Hi) as [E Li].
    destruct (pk_len _ _ _ Hc) as (L1 & L2 & _).
    destruct (idx_pos idx h) as (Ep & Hb & Hr).
    pose proof (Nat.mod_upper_bound idx (cap (S h)) ltac:(pose proof (cap_pos (S h)); lia)) as Hup.
    rewrite Hpos in Hup. rewrite Ep in Hpos. rewrite E, app_length, Li in Hpos, Hup. rewrite cap_S in Hup.
    cbn [node_set]. set (b := extract_index B idx (S h)) in *.
    rewrite app_length. cbn [length].
    destruct (Nat.eq_dec (length (nl h c)) (cap h)) as [Hfull|Hnf].
    + (* last child complete: start a new spine *)
      assert (b = length init + 1) by nia.
      destruct (Nat.ltb_spec b (length init + 1)); [lia|].
      destruct (Nat.eqb_spec b (length init + 1)); [|lia].
      destruct (spine_spec h x) as [Ps Ls].
      eexists. split; [reflexivity|]. split.
      * apply pk_S_intro; [rewrite app_length; cbn [length]; nia|discriminate| |exact Ps].
        apply Forall_app. split; [exact Hi|]. constructor; [|constructor].
        apply pk_full_of_len; assumption.
      * cbn [node_list]. rewrite !flat_map_snoc, Ls. reflexivity.
    + assert (Hbi : b = length init) by nia. assert (Hri : idx mod cap h = length (nl h c)) by nia.
      destruct (Nat.ltb_spec b (length init + 1)); [|lia].
      rewrite Hbi. rewrite nth_error_snoc.
      destruct (IH c idx x Hc Hri) as (c' & -> & Pc' & Lc').
      eexists. split; [reflexivity|]. rewrite list_set_mid. split.
      * apply pk_S_intro; auto.
      * cbn [node_list]. rewrite !flat_map_snoc, Lc'. rewrite app_assoc. reflexivity.
Qed.

(* ---- Node::pop *)
Lemma node_pop_spec : forall h n, pk h true n ->
  exists x n' e, node_pop h n = Some (x, n', e) /\ nl h n = nl h n' ++ [x]
                 /\ (e = true -> nl h n' = [])
                 /\ (e = false -> pk h true n').
Proof.
  induction h as [|h IH]; intros n H.
  - destruct (pk_0_inv _ _ H) as (d & -> & H1 & H2 & H3). cbn [node_pop node_list].
    destruct (snoc_cases d) as [->|(d' & x & ->)]; [cbn in H1; lia|].
    rewrite last_opt_snoc, removelast_last. rewrite app_length in H2. cbn [length] in H2.
    exists x, (Leaf d'). eexists. split; [reflexivity|]. cbn [node_list]. split; [reflexivity|].
    destruct d'; split; intros He; try discriminate; try reflexivity.
    cbn [Wf.pk length] in *. repeat split; try lia; try discriminate.
  - destruct (pk_S_inv _ _ _ H) as (init & c & -> & H1 & H2 & Hi & Hc).
    cbn [node_pop]. rewrite last_opt_snoc.
    destruct (IH c Hc) as (x & c' & e & -> & Lc & He1 & He2).
    rewrite removelast_last, list_set_snoc.
    exists x. destruct e.
    + exists (Interior init). eexists. split; [reflexivity|].
      cbn [node_list]. rewrite flat_map_snoc, Lc, (He1 eq_refl). split; [reflexivity|].
      destruct init as [|a init]; split; intros He; try discriminate; try reflexivity.
      cbn [Wf.pk]. cbn [length] in *. split; [lia|]. split; [discriminate|].
      apply pkl_of_Forall; [intros; apply pk_weaken; assumption|exact Hi|discriminate].
    + exists (Interior (init ++ [c'])). eexists. split; [reflexivity|].
      cbn [node_list]. rewrite !flat_map_snoc, Lc, app_assoc. split; [reflexivity|].
      destruct (init ++ [c']) eqn:E; [destruct init; discriminate|]. rewrite <- E.
      split; intros He; try discriminate.
      apply pk_S_intro; auto; discriminate.
Qed.

(* ---- Node::truncate *)
Lemma node_truncate_spec : forall h rm n len, pk h rm n -> 1 <= len -> len <= length (nl h n) ->
  exists n', node_truncate B h n len = Some n' /\ pk h true n' /\ nl h n' = firstn len (nl h n).
Proof.
  induction h as [|h IH]; intros rm n len H Hlen Hle.
  - destruct (pk_0_inv _ _ H) as (d & -> & H1 & H2 & H3). cbn [node_truncate node_list] in *.
    destruct (Nat.leb_spec len (length d)); [|lia].
    eexists. split; [reflexivity|]. cbn [Wf.pk node_list]. rewrite firstn_length.
    split; [|reflexivity]. repeat split; try lia; try discriminate.
  - destruct n as [d|ch]; [cbn in H; contradiction|]. cbn [node_truncate].
    fold (cap h). pose proof (cap_pos h) as Hcp.
    pose proof (Nat.div_mod len (cap h) ltac:(lia)) as Hdm.
    pose proof (Nat.mod_upper_bound len (cap h) ltac:(lia)) as Hmu.
    set (q := len / cap h) in *. set (e := len mod cap h) in *. clearbody q e.
    pose proof (pk_interior_len_le _ _ _ H) as Hle2.
    destruct (pk_S_ch _ _ _ H) as (Lc1 & Lc2 & Hp).
    destruct (Nat.ltb_spec 0 e) as [He|He].
    + (* partial last child *)
      assert (Hq : q < length ch) by nia.
      destruct (nth_error ch q) as [c|] eqn:Hn; [|apply nth_error_None in Hn; lia].
      rewrite Nat.add_1_r. rewrite nth_error_firstn_lt by lia. rewrite Hn.
      destruct (pk_child_at _ _ _ _ _ H Hn) as (Ff & Pc & _ & _ & Enl & LF).
      assert (Hec : e <= length (nl h c)).
      { destruct (child_len_cases _ _ _ _ _ H Hn) as [Hc|Hc]; lia. }
      destruct (IH _ c e Pc He Hec) as (c' & -> & Pc' & Lc').
      eexists. split; [reflexivity|].
      rewrite (firstn_snoc_nth _ _ _ Hn).
      replace (list_set (firstn q ch ++ [c]) q c') with (firstn q ch ++ [c']).
      2:{ symmetry. transitivity (list_set (firstn q ch ++ [c]) (length (firstn q ch)) c');
          [f_equal; symmetry; apply firstn_length_le; lia|apply list_set_mid]. }
      split.
      * apply pk_S_intro; [rewrite firstn_length_le by lia; lia|discriminate|exact Ff|exact Pc'].
      * rewrite Enl. cbn [node_list]. rewrite flat_map_snoc, Lc'.
        replace len with (q * cap h + e) by lia.
        symmetry. apply first3; assumption.
    + assert (e = 0) by lia. assert (Hq : 1 <= q) by nia. assert (Hq2 : q <= length ch) by nia.
      destruct (Nat.leb_spec q (length ch)); [|lia].
      eexists. split; [reflexivity|].
      destruct (Nat.eq_dec q (length ch)) as [Hql|Hql].
      * rewrite Hql, firstn_all. split; [apply (pk_true _ _ _ H)|].
        rewrite firstn_all2; [reflexivity|]. nia.
      * destruct (nth_error ch q) as [c|] eqn:Hn; [|apply nth_error_None in Hn; lia].
        destruct (pk_child_at _ _ _ _ _ H Hn) as (Ff & Pc & _ & _ & Enl & LF).
        split.
        -- cbn [Wf.pk]. rewrite firstn_length_le by lia. split; [lia|]. split; [discriminate|].
           apply pkl_of_Forall; [intros; apply pk_weaken; assumption|exact Ff|].
           intros E. apply (f_equal (@length _)) in E. rewrite firstn_length_le in E by lia.
           cbn in E. lia.
        -- rewrite Enl. cbn [node_list].
           replace len with (q * cap h + 0) by lia.
           rewrite (first3 _ _ _ _ _ LF) by lia. cbn [firstn]. rewrite app_nil_r. reflexivity.
Qed.

(* ---- iter_starting_at below the root *)
Lemma node_iter_from_spec : forall h rm n idx, pk h rm n -> idx mod cap h < length (nl h n) ->
  node_iter_from B h n idx = Some (skipn (idx mod cap h) (nl h n)).
Proof.
  induction h as [|h IH]; intros rm n idx H Hlt.
  - destruct (pk_0_inv _ _ H) as (d & -> & _). cbn [node_iter_from node_list]. rewrite cap_0. reflexivity.
  - destruct n as [d|ch]; [cbn in H; contradiction|]. cbn [node_iter_from].
    destruct (pos_in_child _ _ _ _ H Hlt) as (c & Hn & Hr).
    destruct (pk_child_at _ _ _ _ _ H Hn) as (Ff & Pc & _ & _ & Enl & LF).
    rewrite (skipn_nth_cons _ _ _ Hn). rewrite (IH _ _ idx Pc Hr). f_equal.
    destruct (idx_pos idx h) as (E & _ & _). rewrite E, Enl.
    symmetry. apply skip3; [exact LF|lia].
Qed.

(* ---- the first-child descent of [truncate] *)
Lemma first_descent_full : forall k h n, pk h false n -> k <= h ->
  exists n', first_descent k n = Some n' /\ pk (h - k) false n'
             /\ nl (h - k) n' = firstn (cap (h - k)) (nl h n).
Proof.
  induction k as [|k IH]; intros h n H Hk.
  - exists n. rewrite Nat.sub_0_r. split; [reflexivity|]. split; [exact H|].
    rewrite firstn_all2; [reflexivity|]. rewrite (pk_full_len _ _ H). lia.
  - destruct h as [|h]; [lia|]. destruct n as [d|ch]; [cbn in H; contradiction|].
    destruct (pk_full_children _ _ H) as [L F].
    destruct ch as [|c0 rest]; [cbn in L; lia|]. cbn [first_descent].
    pose proof (Forall_inv F) as Pc0.
    destruct (IH h c0 Pc0 ltac:(lia)) as (n' & -> & Pn' & Ln').
    exists n'. cbn [Nat.sub]. split; [reflexivity|]. split; [exact Pn'|].
    rewrite Ln'. cbn [node_list flat_map]. symmetry. apply firstn_app_le.
    rewrite (pk_full_len _ _ Pc0). apply cap_mono. lia.
Qed.

End PK.
