(* List and arithmetic facts used by the vector proofs. *)
From Coq Require Import List Arith Bool Lia.
Import ListNotations.
From NV Require Import Vector.Model.

Section Lists.
Context {X : Type}.
Implicit Types l : list X.

Lemma last_opt_snoc : forall l (x : X), last_opt (l ++ [x]) = Some x.
Proof.
  induction l as [|a l IH]; intros x; [reflexivity|].
  cbn [app last_opt]. destruct (l ++ [x]) eqn:E.
  - destruct l; discriminate.
  - rewrite <- E. apply IH.
Qed.

Lemma last_opt_nil_iff : forall l, last_opt l = None <-> l = [].
Proof.
  split.
  - induction l as [|a l IH]; intros H; [reflexivity|].
    cbn [last_opt] in H. destruct l; [discriminate|]. specialize (IH H). discriminate.
  - intros ->. reflexivity.
Qed.

Lemma snoc_cases : forall l, l = [] \/ exists init x, l = init ++ [x].
Proof.
  intros l. destruct l as [|a l]; [left; reflexivity|right].
  exists (removelast (a :: l)), (last (a :: l) a). apply app_removelast_last. discriminate.
Qed.

Lemma last_opt_Some : forall l x, last_opt l = Some x -> exists init, l = init ++ [x].
Proof.
  intros l x H. destruct (snoc_cases l) as [->|(init & y & ->)]; [discriminate|].
  rewrite last_opt_snoc in H. injection H as ->. eauto.
Qed.

Lemma list_set_length : forall l i (x : X), length (list_set l i x) = length l.
Proof.
  induction l as [|a l IH]; intros [|i] x; cbn [list_set length]; auto.
Qed.

Lemma list_set_app_l : forall l1 l2 i (x : X), i < length l1 ->
  list_set (l1 ++ l2) i x = list_set l1 i x ++ l2.
Proof.
  induction l1 as [|a l1 IH]; intros l2 i x Hi; cbn [length] in Hi; [lia|].
  destruct i as [|i]; cbn [app list_set]; [reflexivity|]. rewrite IH by lia. reflexivity.
Qed.

Lemma list_set_app_r : forall l1 l2 i (x : X),
  list_set (l1 ++ l2) (length l1 + i) x = l1 ++ list_set l2 i x.
Proof.
  induction l1 as [|a l1 IH]; intros l2 i x; cbn [app length Nat.add list_set]; [reflexivity|].
  rewrite IH. reflexivity.
Qed.

Lemma list_set_snoc : forall l (c x : X), list_set (l ++ [c]) (length (l ++ [c]) - 1) x = l ++ [x].
Proof.
  intros l c x. rewrite app_length. cbn [length].
  replace (length l + 1 - 1) with (length l + 0) by lia. rewrite list_set_app_r. reflexivity.
Qed.

Lemma list_set_mid : forall l1 (c : X) l2 x, list_set (l1 ++ c :: l2) (length l1) x = l1 ++ x :: l2.
Proof.
  intros. replace (length l1) with (length l1 + 0) by lia. rewrite list_set_app_r. reflexivity.
Qed.

Lemma list_set_beyond : forall l i (x : X), length l <= i -> list_set l i x = l.
Proof.
  induction l as [|a l IH]; intros i x Hi; [destruct i; reflexivity|].
  cbn [length] in Hi. destruct i as [|i]; [lia|]. cbn [list_set]. rewrite IH by lia. reflexivity.
Qed.

Lemma nth_error_mid : forall l1 (c : X) l2, nth_error (l1 ++ c :: l2) (length l1) = Some c.
Proof.
  intros. rewrite nth_error_app2 by lia. rewrite Nat.sub_diag. reflexivity.
Qed.

Lemma nth_error_snoc : forall l (c : X), nth_error (l ++ [c]) (length l) = Some c.
Proof. intros. apply nth_error_mid. Qed.

Lemma firstn_snoc_nth : forall l n (c : X), nth_error l n = Some c -> firstn (S n) l = firstn n l ++ [c].
Proof.
  induction l as [|a l IH]; intros [|n] c H; cbn [nth_error] in H; try discriminate.
  - injection H as ->. reflexivity.
  - cbn [firstn app]. f_equal. apply IH. exact H.
Qed.

Lemma skipn_nth_cons : forall l n (c : X), nth_error l n = Some c -> skipn n l = c :: skipn (S n) l.
Proof.
  induction l as [|a l IH]; intros [|n] c H; cbn [nth_error] in H; try discriminate.
  - injection H as ->. reflexivity.
  - cbn [skipn]. rewrite (IH n c H). reflexivity.
Qed.

Lemma nth_error_firstn_lt : forall l n i, i < n -> nth_error (firstn n l) i = nth_error l i.
Proof.
  induction l as [|a l IH]; intros n i Hi; [rewrite firstn_nil; reflexivity|].
  destruct n as [|n]; [lia|]. destruct i as [|i]; cbn [firstn nth_error]; [reflexivity|].
  apply IH. lia.
Qed.

Lemma nth_error_skipn : forall l n i, nth_error (skipn n l) i = nth_error l (n + i).
Proof.
  induction l as [|a l IH]; intros n i; [rewrite skipn_nil; destruct i, n; reflexivity|].
  destruct n as [|n]; [reflexivity|]. cbn [skipn Nat.add nth_error]. apply IH.
Qed.

Lemma firstn_list_set_ge : forall l n i (x : X), n <= i -> firstn n (list_set l i x) = firstn n l.
Proof.
  induction l as [|a l IH]; intros n i x H; [destruct i; reflexivity|].
  destruct n as [|n]; [reflexivity|]. destruct i as [|i]; [lia|].
  cbn [list_set firstn]. f_equal. apply IH. lia.
Qed.

Lemma skipn_list_set_lt : forall l n i (x : X), i < n -> skipn n (list_set l i x) = skipn n l.
Proof.
  induction l as [|a l IH]; intros n i x H; [destruct i; reflexivity|].
  destruct n as [|n]; [lia|]. destruct i as [|i]; cbn [list_set skipn]; [reflexivity|].
  apply IH. lia.
Qed.

Lemma skipn_list_set_ge : forall l n i (x : X), skipn n (list_set l (n + i) x) = list_set (skipn n l) i x.
Proof.
  induction l as [|a l IH]; intros n i x.
  - rewrite skipn_nil. destruct (n + i); cbn [list_set]; rewrite skipn_nil; destruct i; reflexivity.
  - destruct n as [|n]; [reflexivity|]. cbn [Nat.add list_set skipn]. apply IH.
Qed.

Lemma firstn_list_set_lt : forall l n i (x : X), i < n -> firstn n (list_set l i x) = list_set (firstn n l) i x.
Proof.
  induction l as [|a l IH]; intros n i x H; [destruct i; cbn [list_set]; rewrite firstn_nil; reflexivity|].
  destruct n as [|n]; [lia|]. destruct i as [|i]; cbn [list_set firstn]; [reflexivity|].
  f_equal. apply IH. lia.
Qed.

Lemma last_opt_skipn : forall l n, n < length l -> last_opt (skipn n l) = last_opt l.
Proof.
  intros l n Hn. destruct (snoc_cases l) as [->|(init & x & ->)]; [cbn in Hn; lia|].
  rewrite app_length in Hn. cbn [length] in Hn.
  rewrite skipn_app. replace (n - length init) with 0 by lia. cbn [skipn].
  rewrite !last_opt_snoc. reflexivity.
Qed.

Lemma removelast_skipn : forall l n, n < length l -> removelast (skipn n l) = skipn n (removelast l).
Proof.
  intros l n Hn. destruct (snoc_cases l) as [->|(init & x & ->)]; [cbn in Hn; lia|].
  rewrite app_length in Hn. cbn [length] in Hn.
  rewrite skipn_app. replace (n - length init) with 0 by lia. cbn [skipn].
  rewrite !removelast_last. reflexivity.
Qed.

Lemma last_opt_removelast : forall l x, last_opt l = Some x -> l = removelast l ++ [x].
Proof.
  intros l x H. destruct (last_opt_Some _ _ H) as [init ->]. rewrite removelast_last. reflexivity.
Qed.

Lemma flat_map_length_const : forall {Y} (f : X -> list Y) m l,
  Forall (fun c => length (f c) = m) l -> length (flat_map f l) = length l * m.
Proof.
  intros Y f m l H. induction H as [|c l Hc _ IH]; [reflexivity|].
  cbn [flat_map length]. rewrite app_length, IH, Hc. lia.
Qed.

Lemma flat_map_snoc : forall {Y} (f : X -> list Y) l c, flat_map f (l ++ [c]) = flat_map f l ++ f c.
Proof. intros. rewrite flat_map_app. cbn [flat_map]. rewrite app_nil_r. reflexivity. Qed.

Lemma firstn_app_exact : forall l1 l2, firstn (length l1) (l1 ++ l2) = l1.
Proof.
  intros. rewrite firstn_app, Nat.sub_diag, firstn_all. cbn [firstn]. apply app_nil_r.
Qed.

Lemma skipn_app_exact : forall l1 l2, skipn (length l1) (l1 ++ l2) = l2.
Proof.
  intros. rewrite skipn_app, Nat.sub_diag, skipn_all. reflexivity.
Qed.

Lemma firstn_app_le : forall l1 l2 n, n <= length l1 -> firstn n (l1 ++ l2) = firstn n l1.
Proof.
  intros. rewrite firstn_app. replace (n - length l1) with 0 by lia. cbn [firstn]. apply app_nil_r.
Qed.

End Lists.

(* ------------------------------------------------------------------ powers, div, mod *)
Section Arith.
Variable B : nat.
Hypothesis HB : 2 <= B.

Lemma pow_pos : forall h, 1 <= B ^ h.
Proof. intros h. pose proof (Nat.pow_nonzero B h). lia. Qed.

Lemma pow_S : forall h, B ^ S h = B * B ^ h.
Proof. intros. apply Nat.pow_succ_r'. Qed.

Lemma pow_lt_S : forall h, B ^ h < B ^ S h.
Proof. intros h. rewrite pow_S. pose proof (pow_pos h). nia. Qed.

Lemma pow_mono : forall a b, a <= b -> B ^ a <= B ^ b.
Proof. intros. apply Nat.pow_le_mono_r; lia. Qed.

Lemma pow_lt_mono : forall a b, a < b -> B ^ a < B ^ b.
Proof. intros. apply Nat.pow_lt_mono_r; lia. Qed.

(* the index arithmetic of a node at height [S h]: bucket and remainder *)
Lemma idx_split : forall idx h,
  idx mod B ^ S h = extract_index B idx h * B ^ h + idx mod B ^ h
  /\ extract_index B idx h < B /\ idx mod B ^ h < B ^ h.
Proof.
  intros idx h. unfold extract_index. pose proof (pow_pos h) as Hp.
  rewrite pow_S, (Nat.mul_comm B (B ^ h)).
  rewrite Nat.mod_mul_r by lia.
  repeat split.
  - lia.
  - apply Nat.mod_upper_bound. lia.
  - apply Nat.mod_upper_bound. lia.
Qed.

Lemma idx_split0 : forall idx, idx mod B ^ 1 = idx mod B.
Proof. intros. rewrite Nat.pow_1_r. reflexivity. Qed.

(* ---- ilog / height_for_length *)
Lemma ilog_fuel_spec : forall fuel n, n <= fuel -> 1 <= n ->
  B ^ ilog_fuel B fuel n <= n < B ^ S (ilog_fuel B fuel n).
Proof.
  induction fuel as [|f IH]; intros n Hf Hn; [lia|].
  cbn [ilog_fuel]. destruct (Nat.ltb_spec n B) as [Hlt|Hge].
  - cbn [Nat.pow]. lia.
  - assert (Hq : 1 <= n / B) by (apply Nat.div_le_lower_bound; lia).
    assert (Hq2 : n / B <= f).
    { assert (n / B < n) by (apply Nat.div_lt; lia). lia. }
    specialize (IH (n / B) Hq2 Hq). set (k := ilog_fuel B f (n / B)) in *.
    rewrite (pow_S (S k)). rewrite (pow_S k) in *.
    pose proof (Nat.div_mod n B ltac:(lia)) as Hdm.
    pose proof (Nat.mod_upper_bound n B ltac:(lia)) as Hm.
    generalize dependent (B ^ k). intros P IH. generalize dependent (n / B). intros q Hq Hq2 IH Hdm.
    generalize dependent (n mod B). intros r Hdm Hr.
    split; nia.
Qed.

Lemma pow_sandwich_unique : forall a b n, B ^ a <= n < B ^ S a -> B ^ b <= n < B ^ S b -> a = b.
Proof.
  intros a b n Ha Hb.
  destruct (Nat.lt_trichotomy a b) as [H|[H|H]]; [exfalso|exact H|exfalso].
  - pose proof (pow_mono (S a) b ltac:(lia)). lia.
  - pose proof (pow_mono (S b) a ltac:(lia)). lia.
Qed.

Lemma hfl_small : forall len, len <= B -> height_for_length B len = 0.
Proof.
  intros len H. unfold height_for_length, ilog.
  assert (Hm : 1 <= Nat.max (len - 1) 1) by lia.
  pose proof (ilog_fuel_spec _ _ (le_n _) Hm) as Hs.
  apply (pow_sandwich_unique _ 0 _ Hs). cbn [Nat.pow]. lia.
Qed.

Lemma hfl_of_bounds : forall len h, 1 <= h -> B ^ h < len -> len <= B ^ S h ->
  height_for_length B len = h.
Proof.
  intros len h Hh Hlo Hhi. unfold height_for_length, ilog.
  pose proof (pow_pos h).
  assert (Hm : 1 <= Nat.max (len - 1) 1) by lia.
  pose proof (ilog_fuel_spec _ _ (le_n _) Hm) as Hs.
  apply (pow_sandwich_unique _ h _ Hs). lia.
Qed.

(* what [height_for_length len = h] says about [len] *)
Lemma hfl_bounds : forall len, len <= B ^ S (height_for_length B len)
  /\ (1 <= height_for_length B len -> B ^ height_for_length B len < len).
Proof.
  intros len. unfold height_for_length, ilog.
  assert (Hm : 1 <= Nat.max (len - 1) 1) by lia.
  pose proof (ilog_fuel_spec _ _ (le_n _) Hm) as Hs.
  set (k := ilog_fuel B (Nat.max (len - 1) 1) (Nat.max (len - 1) 1)) in *.
  split; [lia|]. intros Hk.
  destruct (Nat.le_gt_cases len 1) as [Hl|Hl]; [|lia].
  exfalso. replace (Nat.max (len - 1) 1) with 1 in Hs by lia.
  pose proof (pow_lt_mono 0 k ltac:(lia)). cbn [Nat.pow] in *. lia.
Qed.

Lemma hfl_correct : forall len h,
  height_for_length B len = h <-> ((h = 0 /\ len <= B) \/ (1 <= h /\ B ^ h < len <= B ^ S h)).
Proof.
  intros len h. split.
  - intros <-. pose proof (hfl_bounds len) as [H1 H2].
    destruct (height_for_length B len) as [|k] eqn:E.
    + left. split; [reflexivity|]. rewrite Nat.pow_1_r in H1. exact H1.
    + right. split; [lia|]. split; [apply H2; lia|exact H1].
  - intros [[-> H]|(H1 & H2 & H3)]; [apply hfl_small; exact H|apply hfl_of_bounds; assumption].
Qed.

End Arith.
