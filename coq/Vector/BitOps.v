(* The Rust code computes positions with shifts and masks ([N] is a power of two); the model uses
   division and remainder.  They agree. *)
From Coq Require Import Arith Lia.
From NV Require Import Vector.Model.

(* [extract_index::<N>(idx, height) = (idx >> (N.ilog2() * height)) & (N - 1)] *)
Theorem bit_ops_agree : forall k idx h,
  Nat.land (Nat.shiftr idx (Nat.log2 (2 ^ k) * h)) (2 ^ k - 1) = extract_index (2 ^ k) idx h.
Proof.
  intros k idx h. unfold extract_index.
  rewrite Nat.log2_pow2 by lia.
  rewrite Nat.shiftr_div_pow2, Nat.sub_1_r, <- Nat.ones_equiv, Nat.land_ones, Nat.pow_mul_r.
  reflexivity.
Qed.

(* the leaf position [idx & (N - 1)] *)
Theorem leaf_mask_agrees : forall k idx, Nat.land idx (2 ^ k - 1) = idx mod 2 ^ k.
Proof.
  intros k idx. rewrite Nat.sub_1_r, <- Nat.ones_equiv, Nat.land_ones. reflexivity.
Qed.

(* [max_child_len = N.pow(height)] in [Node::truncate] is [B ^ h] literally; [is_full] compares
   with [N.pow(height + 1)]. *)
Example bit_ops_example : Nat.land (Nat.shiftr 27 (Nat.log2 4 * 1)) (4 - 1) = 2 /\ extract_index 4 27 1 = 2.
Proof. split; reflexivity. Qed.
