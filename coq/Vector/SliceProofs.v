(* The slice layer: [swf] is preserved and every [Slice] operation refines the list operation on
   [sl_list] (the window [start, end) of the backing vector). *)
From Coq Require Import List Arith Bool Lia.
Import ListNotations.
From NV Require Import Vector.Model Vector.Wf Vector.ListLemmas Vector.NodeProofs Vector.VecProofs
  Vector.ExtendProofs Vector.IterMutProofs.

Lemma skipn_skipn_add : forall {X} b a (l : list X), skipn a (skipn b l) = skipn (b + a) l.
Proof.
  intros X b. induction b as [|b IH]; intros a l; [reflexivity|].
  destruct l as [|x l]; [rewrite !skipn_nil; reflexivity|]. cbn [skipn Nat.add]. apply IH.
Qed.

Section Slice.
Context {A : Type}.
Variable B : nat.
Hypothesis HB : 2 <= B.
Notation vec := (@vec A).
Notation slice := (@slice A).
Notation wf := (@wf A B).
Notation swf := (@swf A B).

Lemma sl_list_alt : forall s : slice,
  sl_list s = skipn (sstart s) (firstn (send s) (to_list (svec s))).
Proof. intros s. unfold sl_list. symmetry. apply skipn_firstn_comm. Qed.

Lemma sl_length : forall s, swf s -> length (sl_list s) = slen s.
Proof.
  intros s (W & H1 & H2). unfold sl_list, slen. rewrite firstn_length, skipn_length.
  rewrite (wf_length B HB _ W). lia.
Qed.

Lemma snew_swf : swf snew.
Proof. unfold Wf.swf, snew. cbn. split; [apply (@vnew_wf A B)|lia]. Qed.

Lemma snew_list : sl_list (@snew A) = [].
Proof. reflexivity. Qed.

(* truncating the backing vector to the end of the window *)
Lemma trunc_to_end : forall s, swf s ->
  exists v1, vtruncate B (svec s) (send s) = Some v1 /\ wf v1
             /\ to_list v1 = firstn (send s) (to_list (svec s)) /\ vlen v1 = send s
             /\ length (to_list v1) = send s.
Proof.
  intros s (W & H1 & H2). destruct (vtruncate_spec B HB (svec s) (send s) W) as (v1 & E & W1 & L1 & N1).
  exists v1. split; [exact E|]. split; [exact W1|]. split; [exact L1|].
  assert (vlen v1 = send s) by lia. split; [assumption|]. rewrite (wf_length B HB _ W1). assumption.
Qed.

Theorem spush_spec : forall s x, swf s ->
  exists s', spush B s x = Some s' /\ swf s' /\ sl_list s' = sl_list s ++ [x].
Proof.
  intros s x H. destruct (trunc_to_end s H) as (v1 & E1 & W1 & L1 & N1 & Len1).
  destruct H as (W & H1 & H2).
  destruct (vpush_spec B HB v1 x W1) as (v2 & E2 & W2 & L2 & N2).
  unfold spush. rewrite E1, E2. eexists. split; [reflexivity|]. split.
  - unfold Wf.swf. cbn [svec sstart send]. split; [exact W2|lia].
  - rewrite !sl_list_alt. cbn [svec sstart send]. rewrite L2.
    rewrite firstn_all2 by (rewrite app_length; cbn [length]; lia).
    rewrite skipn_app. replace (sstart s - length (to_list v1)) with 0 by lia.
    cbn [skipn]. rewrite L1. reflexivity.
Qed.

Theorem spop_spec : forall s, swf s ->
  exists s', spop B s = Some (last_opt (sl_list s), s') /\ swf s'
             /\ sl_list s' = removelast (sl_list s) /\ (sl_list s = [] -> s' = s).
Proof.
  intros s H. pose proof (sl_length s H) as HLen. unfold slen in HLen.
  unfold spop. destruct (Nat.eqb_spec (send s) (sstart s)) as [E|NE].
  - assert (E0 : sl_list s = []) by (apply length_zero_iff_nil; lia).
    rewrite E0. exists s. cbn. auto.
  - destruct (trunc_to_end s H) as (v1 & E1 & W1 & L1 & N1 & Len1).
    destruct H as (W & H1 & H2).
    destruct (vpop_spec B HB v1 W1) as (v2 & E2 & W2 & L2 & N2 & _).
    rewrite E1, E2. rewrite sl_list_alt, <- L1.
    rewrite last_opt_skipn by lia.
    eexists. split; [reflexivity|]. split; [|split].
    + unfold Wf.swf. cbn [svec sstart send]. split; [exact W2|lia].
    + rewrite sl_list_alt. cbn [svec sstart send]. rewrite L2.
      rewrite firstn_all2.
      * symmetry. apply removelast_skipn. lia.
      * rewrite <- L2, (wf_length B HB _ W2). lia.
    + intros E. apply (f_equal (@length _)) in E. rewrite skipn_length in E. cbn in E. lia.
Qed.

Theorem sget_spec : forall s idx, swf s -> sget B s idx = nth_error (sl_list s) idx.
Proof.
  intros s idx H. pose proof (sl_length s H) as HLen. destruct H as (W & H1 & H2).
  unfold sget. destruct (Nat.leb_spec (slen s) idx) as [Hle|Hlt].
  - symmetry. apply nth_error_None. lia.
  - rewrite (vget_spec B HB _ _ W). unfold sl_list. unfold slen in Hlt.
    rewrite nth_error_firstn_lt by lia. rewrite nth_error_skipn. reflexivity.
Qed.

Theorem sset_spec : forall s idx x, swf s -> idx < slen s ->
  exists s', sset B s idx x = Some s' /\ swf s' /\ sl_list s' = list_set (sl_list s) idx x.
Proof.
  intros s idx x (W & H1 & H2) Hlt. unfold slen in Hlt.
  unfold sset, slen. destruct (Nat.leb_spec (send s - sstart s) idx) as [Hle|_]; [lia|].
  destruct (vset_spec B HB (svec s) (sstart s + idx) x W ltac:(lia)) as (v' & -> & W' & L' & N').
  eexists. split; [reflexivity|]. split.
  - unfold Wf.swf. cbn [svec sstart send]. split; [exact W'|lia].
  - unfold sl_list. cbn [svec sstart send]. rewrite L'.
    rewrite skipn_list_set_ge. apply firstn_list_set_lt. lia.
Qed.

Lemma sset_out_of_bounds : forall (s : slice) idx x, slen s <= idx -> sset B s idx x = None.
Proof. intros s idx x H. unfold sset. destruct (Nat.leb_spec (slen s) idx); [reflexivity|lia]. Qed.

Theorem sslice_spec : forall s a b, swf s ->
  if (a <=? b) && (b <=? slen s)
  then exists s', sslice s a b = Some s' /\ swf s'
                  /\ sl_list s' = firstn (b - a) (skipn a (sl_list s))
  else sslice s a b = None.
Proof.
  intros s a b (W & H1 & H2). unfold sslice.
  destruct ((a <=? b) && (b <=? slen s)) eqn:E; [|reflexivity].
  apply andb_true_iff in E. destruct E as [Ea Eb].
  apply Nat.leb_le in Ea. apply Nat.leb_le in Eb. unfold slen in Eb.
  eexists. split; [reflexivity|]. split.
  - unfold Wf.swf. cbn [svec sstart send]. split; [exact W|lia].
  - unfold sl_list. cbn [svec sstart send].
    rewrite skipn_firstn_comm, skipn_skipn_add, firstn_firstn.
    replace (sstart s + b - (sstart s + a)) with (b - a) by lia.
    replace (Nat.min (b - a) (send s - sstart s - a)) with (b - a) by lia.
    reflexivity.
Qed.

Theorem sextend_spec : forall s it, swf s ->
  exists s', sextend B s it = Some s' /\ swf s' /\ sl_list s' = sl_list s ++ it.
Proof.
  intros s it H. destruct (trunc_to_end s H) as (v1 & E1 & W1 & L1 & N1 & Len1).
  destruct H as (W & H1 & H2).
  destruct (vextend_spec B HB v1 it W1) as (v2 & E2 & W2 & L2 & N2).
  unfold sextend. rewrite E1, E2. eexists. split; [reflexivity|]. split.
  - unfold Wf.swf. cbn [svec sstart send]. split; [exact W2|lia].
  - rewrite !sl_list_alt. cbn [svec sstart send].
    rewrite firstn_all2 by (rewrite (wf_length B HB _ W2); lia).
    rewrite L2, skipn_app. replace (sstart s - length (to_list v1)) with 0 by lia.
    cbn [skipn]. rewrite L1. reflexivity.
Qed.

Theorem siter_spec : forall s, swf s -> siter B s = Some (sl_list s).
Proof.
  intros s (W & H1 & H2). unfold siter. rewrite (viter_from_spec B HB _ _ W).
  destruct (Nat.leb_spec (sstart s) (vlen (svec s))); [reflexivity|lia].
Qed.

Theorem sfrom_list_spec : forall l : list A,
  exists s', sfrom_list B l = Some s' /\ swf s' /\ sl_list s' = l.
Proof.
  intros l. destruct (vextend_spec B HB vnew l (@vnew_wf A B)) as (v & E & W & L & N).
  unfold sfrom_list. rewrite E. eexists. split; [reflexivity|]. cbn [vnew vlen to_list root app] in *.
  split.
  - unfold Wf.swf. cbn [svec sstart send]. split; [exact W|lia].
  - unfold sl_list. cbn [svec sstart send skipn]. rewrite L, Nat.sub_0_r.
    apply firstn_all2. rewrite N. lia.
Qed.

(* [Slice::iter_mut]: exactly the elements of the window are replaced *)
Theorem smap_spec : forall s (f : A -> A), swf s ->
  exists s', smap B s f = Some s' /\ swf s' /\ sl_list s' = map f (sl_list s).
Proof.
  intros s f (W & H1 & H2). pose proof (wf_length B HB _ W) as HLen.
  destruct (vmap_from_spec B HB f (svec s) (sstart s) (slen s) W) as [Hok _].
  destruct (Hok ltac:(lia)) as (v' & E & W' & L' & N').
  unfold smap. rewrite E. eexists. split; [reflexivity|]. split.
  - unfold Wf.swf. cbn [svec sstart send]. split; [exact W'|lia].
  - unfold sl_list. cbn [svec sstart send]. rewrite L'.
    assert (Hf : length (firstn (sstart s) (to_list (svec s))) = sstart s) by (rewrite firstn_length; lia).
    rewrite <- Hf at 2. rewrite skipn_app_exact. unfold map_take, slen.
    assert (Hm : length (map f (firstn (send s - sstart s) (skipn (sstart s) (to_list (svec s))))) = send s - sstart s).
    { rewrite map_length, firstn_length, skipn_length. lia. }
    rewrite <- Hm at 1. apply firstn_app_exact.
Qed.

End Slice.
