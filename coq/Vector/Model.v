(* Executable model of /repo/vector/src/vector.rs and slice.rs.

   The Rust structure is a tree of [Rc<Node>] with copy-on-write ([Rc::make_mut]); a value-level
   functional model is exactly what safe Rust guarantees the observable behaviour of such a
   structure to be (the crate contains no [unsafe]).  What the model keeps faithfully is the
   *index arithmetic and tree surgery* of every operation, for an arbitrary branching factor
   [B >= 2] (the Rust code uses shifts and masks for B a power of two: [idx >> (log2 B * h)) & (B-1)]
   is [(idx / B^h) mod B]).  Calls that are outside the Rust contract (a [panic!], [assert!],
   [debug_assert!], [unwrap] on [None], [unreachable!]) evaluate to [None] here. *)
From Coq Require Import List Arith Bool Lia.
Open Scope bool_scope.
Import ListNotations.

Section Vec.
Context {A : Type}.
Variable B : nat.

Inductive node : Type :=
| Leaf (data : list A)
| Interior (children : list node).

Record vec : Type := mkVec { root : option node; vlen : nat; height : nat }.

Definition extract_index (idx h : nat) : nat := (idx / B ^ h) mod B.

(* ---- small list helpers *)
Fixpoint list_set {X} (l : list X) (i : nat) (x : X) : list X :=
  match l, i with
  | [], _ => []
  | _ :: t, 0 => x :: t
  | a :: t, S i' => a :: list_set t i' x
  end.

Fixpoint last_opt {X} (l : list X) : option X :=
  match l with
  | [] => None
  | [x] => Some x
  | _ :: t => last_opt t
  end.

(* ---- Node::get *)
Fixpoint node_get (h : nat) (n : node) (idx : nat) : option A :=
  match h, n with
  | 0, Leaf data => nth_error data (idx mod B)
  | S h', Interior ch =>
      match nth_error ch (extract_index idx h) with
      | Some c => node_get h' c idx
      | None => None
      end
  | _, _ => None
  end.

(* a fresh spine holding one element: leaf wrapped in [h] single-child interior nodes *)
Fixpoint spine (h : nat) (x : A) : node :=
  match h with
  | 0 => Leaf [x]
  | S h' => Interior [spine h' x]
  end.

(* ---- Node::set; [None] = panic *)
Fixpoint node_set (h : nat) (n : node) (idx : nat) (x : A) : option node :=
  match h, n with
  | 0, Leaf data =>
      let i := idx mod B in
      if i <? length data then Some (Leaf (list_set data i x))
      else if i =? length data then Some (Leaf (data ++ [x]))
      else None
  | S h', Interior ch =>
      let b := extract_index idx h in
      if b <? length ch then
        match nth_error ch b with
        | Some c =>
            match node_set h' c idx x with
            | Some c' => Some (Interior (list_set ch b c'))
            | None => None
            end
        | None => None
        end
      else if b =? length ch then Some (Interior (ch ++ [spine h' x]))
      else None
  | _, _ => None
  end.

(* ---- Node::pop: (element, new node, became-empty) *)
Fixpoint node_pop (h : nat) (n : node) : option (A * node * bool) :=
  match h, n with
  | 0, Leaf data =>
      match last_opt data with
      | Some x => let d := removelast data in Some (x, Leaf d, match d with [] => true | _ => false end)
      | None => None
      end
  | S h', Interior ch =>
      match last_opt ch with
      | Some c =>
          match node_pop h' c with
          | Some (x, c', empty) =>
              let ch' := if empty then removelast ch else list_set ch (length ch - 1) c' in
              Some (x, Interior ch', match ch' with [] => true | _ => false end)
          | None => None
          end
      | None => None
      end
  | _, _ => None
  end.

(* ---- Node::truncate *)
Fixpoint node_truncate (h : nat) (n : node) (len : nat) : option node :=
  match h, n with
  | 0, Leaf data =>
      if len <=? length data then Some (Leaf (firstn len data)) else None   (* Chunk::drop_right *)
  | S h', Interior ch =>
      let m := B ^ h in
      let full := len / m in
      let extra := len mod m in
      if 0 <? extra then
        let ch1 := firstn (full + 1) ch in
        match nth_error ch1 full with
        | Some c =>
            match node_truncate h' c extra with
            | Some c' => Some (Interior (list_set ch1 full c'))
            | None => None
            end
        | None => None
        end
      else if full <=? length ch then Some (Interior (firstn full ch)) else None
  | _, _ => None
  end.

(* ---- height_for_length: (max 1 (len - 1)).ilog(B) *)
Fixpoint ilog_fuel (fuel n : nat) : nat :=
  match fuel with
  | 0 => 0
  | S f => if n <? B then 0 else S (ilog_fuel f (n / B))
  end.
Definition ilog (n : nat) : nat := ilog_fuel n n.
Definition height_for_length (len : nat) : nat := ilog (Nat.max (len - 1) 1).

(* ---- Vector *)
Definition vnew : vec := mkVec None 0 0.

Definition is_full (v : vec) : bool :=
  match root v with
  | None => true
  | Some _ => vlen v =? B ^ (height v + 1)
  end.

Definition vget (v : vec) (idx : nat) : option A :=
  if vlen v <=? idx then None
  else match root v with
       | Some r => node_get (height v) r idx
       | None => None
       end.

Definition vset (v : vec) (idx : nat) (x : A) : option vec :=
  if vlen v <=? idx then None
  else match root v with
       | Some r =>
           match node_set (height v) r idx x with
           | Some r' => Some (mkVec (Some r') (vlen v) (height v))
           | None => None
           end
       | None => Some v
       end.

Definition add_level (v : vec) : vec :=
  match root v with
  | None => mkVec (Some (Leaf [])) (vlen v) (height v)
  | Some r => mkVec (Some (Interior [r])) (vlen v) (height v + 1)
  end.

Definition vpush (v : vec) (x : A) : option vec :=
  let v1 := if is_full v then add_level v else v in
  match root v1 with
  | Some r =>
      match node_set (height v1) r (vlen v1) x with
      | Some r' => Some (mkVec (Some r') (vlen v1 + 1) (height v1))
      | None => None
      end
  | None => None
  end.

Definition vpop (v : vec) : option (option A * vec) :=
  if vlen v =? 0 then Some (None, v)
  else match root v with
       | Some r =>
           match node_pop (height v) r with
           | Some (x, r', _) =>
               match r' with
               | Interior [c] => Some (Some x, mkVec (Some c) (vlen v - 1) (height v - 1))
               | _ => Some (Some x, mkVec (Some r') (vlen v - 1) (height v))
               end
           | None => None
           end
       | None => None
       end.

Fixpoint first_descent (k : nat) (n : node) : option node :=
  match k with
  | 0 => Some n
  | S k' => match n with
            | Interior (c :: _) => first_descent k' c
            | _ => None
            end
  end.

Definition vtruncate (v : vec) (len : nat) : option vec :=
  if vlen v <=? len then Some v
  else
    let nh := height_for_length len in
    match root v with
    | None => None
    | Some r =>
        let r1 := if nh <? height v then first_descent (height v - nh) r else Some r in
        let h1 := if nh <? height v then nh else height v in
        match r1 with
        | Some r1 =>
            match node_truncate h1 r1 len with
            | Some r2 => Some (mkVec (Some r2) len h1)
            | None => None
            end
        | None => None
        end
    end.

(* ---- iteration (what every iterator of vector.rs yields, in order) *)
Fixpoint node_list (h : nat) (n : node) : list A :=
  match h, n with
  | 0, Leaf data => data
  | S h', Interior ch => flat_map (node_list h') ch
  | _, _ => []
  end.

Definition to_list (v : vec) : list A :=
  match root v with Some r => node_list (height v) r | None => [] end.

(* iter_starting_at: descend along [idx], keeping the right siblings *)
Fixpoint node_iter_from (h : nat) (n : node) (idx : nat) : option (list A) :=
  match h, n with
  | 0, Leaf data => Some (skipn (idx mod B) data)
  | S h', Interior ch =>
      let b := extract_index idx h in
      match skipn b ch with
      | c :: rest =>
          match node_iter_from h' c idx with
          | Some l => Some (l ++ flat_map (node_list h') rest)
          | None => None
          end
      | [] => None
      end
  | _, _ => None
  end.

Definition viter_from (v : vec) (idx : nat) : option (list A) :=
  if idx =? vlen v then Some []
  else if vlen v <? idx then None
  else match root v with
       | Some r => node_iter_from (height v) r idx
       | None => None
       end.

(* ---- mutable iteration ([IterMut], [iter_mut_starting_at], [Slice::iter_mut]).  The consumer
   replaces every element it is handed by [f] of it; [budget] is the number of elements it still
   takes ([take(len)] in [Slice::iter_mut]); elements are visited in order. *)
Fixpoint map_take_list (step : node -> nat -> option (node * nat)) (l : list node) (budget : nat)
  : option (list node * nat) :=
  match l with
  | [] => Some ([], budget)
  | c :: t =>
      match step c budget with
      | Some (c', b1) =>
          match map_take_list step t b1 with
          | Some (t', b2) => Some (c' :: t', b2)
          | None => None
          end
      | None => None
      end
  end.

(* a whole subtree, as [IterMut::next] walks it after the first leaf *)
Fixpoint node_map_take (h : nat) (n : node) (f : A -> A) (budget : nat) : option (node * nat) :=
  match h, n with
  | 0, Leaf data => Some (Leaf (map f (firstn budget data) ++ skipn budget data), budget - length data)
  | S h', Interior ch =>
      match map_take_list (fun c b => node_map_take h' c f b) ch budget with
      | Some (ch', b') => Some (Interior ch', b')
      | None => None
      end
  | _, _ => None
  end.

(* the descent of [iter_mut_starting_at] along [idx], then the right siblings *)
Fixpoint node_map_from (h : nat) (n : node) (idx : nat) (f : A -> A) (budget : nat) : option (node * nat) :=
  match h, n with
  | 0, Leaf data =>
      let i := idx mod B in
      let tl := skipn i data in
      Some (Leaf (firstn i data ++ map f (firstn budget tl) ++ skipn budget tl), budget - length tl)
  | S h', Interior ch =>
      let b := extract_index idx h in
      match skipn b ch with
      | c :: rest =>
          match node_map_from h' c idx f budget with
          | Some (c', b1) =>
              match map_take_list (fun c0 b0 => node_map_take h' c0 f b0) rest b1 with
              | Some (rest', b2) => Some (Interior (firstn b ch ++ c' :: rest'), b2)
              | None => None
              end
          | None => None
          end
      | [] => None                               (* .expect("empty interior node") *)
      end
  | _, _ => None
  end.

Definition vmap_from (v : vec) (idx : nat) (f : A -> A) (budget : nat) : option vec :=
  if idx =? vlen v then Some v
  else if vlen v <? idx then None                (* panic!("out of bounds") *)
  else match root v with
       | Some r =>
           match node_map_from (height v) r idx f budget with
           | Some (r', _) => Some (mkVec (Some r') (vlen v) (height v))
           | None => None
           end
       | None => None
       end.

(* ---- Extend.  The iterator is a list; [take k] consumes a prefix ([firstn]/[skipn]).

   Both [while !node.is_full() && iter.peek().is_some() { node.push_back(<new child>) }] loops of
   [extend_rec] are instances of [fill_loop]: [room] is [N - node.len()], [step] builds one new
   child from the iterator and returns what is left of it.  [None] = panic. *)
Fixpoint fill_loop (step : list A -> option (node * list A)) (room : nat) (it : list A)
  : option (list node * list A) :=
  match room, it with
  | 0, _ => Some ([], it)                        (* node.is_full() *)
  | _, [] => Some ([], it)                       (* iter.peek().is_none() *)
  | S room', _ =>
      match step it with
      | Some (c, it1) =>
          match fill_loop step room' it1 with
          | Some (more, rest) => Some (c :: more, rest)
          | None => None
          end
      | None => None
      end
  end.

(* [let data: Chunk<T, N> = iter.take(N).collect(); node.push_back(Leaf { data })] *)
Definition leaf_step (it : list A) : option (node * list A) :=
  Some (Leaf (firstn B it), skipn B it).

(* [extend_rec(iter, node, height)]: returns the node's new children and the rest of the iterator
   (the Rust function returns the number of consumed elements, which is the difference of the
   iterator lengths; see [vextend_loop]). *)
Fixpoint extend_rec (h : nat) (ch : list node) (it : list A) {struct h} : option (list node * list A) :=
  match h with
  | 0 => None                                    (* debug_assert!(height >= 1) *)
  | S h' =>
      match h' with
      | 0 =>                                     (* height == 1: children are leaves *)
          match last_opt ch with
          | Some (Leaf data) =>
              let k := B - length data in
              let ch1 := list_set ch (length ch - 1) (Leaf (data ++ firstn k it)) in
              match fill_loop leaf_step (B - length ch1) (skipn k it) with
              | Some (more, rest) => Some (ch1 ++ more, rest)
              | None => None
              end
          | Some (Interior _) => None            (* unreachable!() *)
          | None =>
              match fill_loop leaf_step (B - length ch) it with
              | Some (more, rest) => Some (ch ++ more, rest)
              | None => None
              end
          end
      | S _ =>
          let step := fun it0 => match extend_rec h' [] it0 with
                                 | Some (sub, it1) => Some (Interior sub, it1)
                                 | None => None
                                 end in
          match last_opt ch with
          | Some (Interior sub) =>
              match extend_rec h' sub it with
              | Some (sub', it1) =>
                  let ch1 := list_set ch (length ch - 1) (Interior sub') in
                  match fill_loop step (B - length ch1) it1 with
                  | Some (more, rest) => Some (ch1 ++ more, rest)
                  | None => None
                  end
              | None => None
              end
          | Some (Leaf _) => None                (* unreachable!() *)
          | None =>
              match fill_loop step (B - length ch) it with
              | Some (more, rest) => Some (ch ++ more, rest)
              | None => None
              end
          end
      end
  end.

(* top-level loop of [Extend::extend]; the fuel bounds the number of iterations (every iteration
   but possibly the first consumes at least one element); running out of fuel is [None] *)
Fixpoint vextend_loop (fuel : nat) (v : vec) (it : list A) : option vec :=
  match it with
  | [] => Some v
  | _ =>
      match fuel with
      | 0 => None
      | S f =>
          match root v with
          | None => None
          | Some (Leaf data) =>
              let k := B - length data in
              let data' := data ++ firstn k it in
              let it' := skipn k it in
              let v' := mkVec (Some (Leaf data')) (vlen v + (length data' - length data)) (height v) in
              match it' with
              | [] => Some v'
              | _ => vextend_loop f (add_level v') it'
              end
          | Some (Interior ch) =>
              match extend_rec (height v) ch it with
              | Some (ch', it') =>
                  let v' := mkVec (Some (Interior ch')) (vlen v + (length it - length it')) (height v) in
                  match it' with
                  | [] => Some v'
                  | _ => vextend_loop f (add_level v') it'
                  end
              | None => None
              end
          end
      end
  end.

Definition vextend (v : vec) (it : list A) : option vec :=
  match it with
  | [] => Some v
  | _ =>
      let v0 := match root v with None => mkVec (Some (Leaf [])) (vlen v) (height v) | Some _ => v end in
      vextend_loop (length it + 2) v0 it
  end.

(* ---- check_invariants *)
Definition node_len (h : nat) (n : node) : nat := length (node_list h n).

Fixpoint is_packed_rec (h : nat) (n : node) (right_most : bool) : bool :=
  match h, n with
  | 0, Leaf data => (length data =? B) || right_most
  | S h', Interior ch =>
      match ch with
      | [] => false
      | _ =>
          (fix go (l : list node) : bool :=
             match l with
             | [] => true
             | [c] => is_packed_rec h' c true
             | c :: t => is_packed_rec h' c false && go t
             end) ch
      end
  | _, _ => false
  end.

Definition check_invariants (v : vec) : bool :=
  match root v with
  | None => (vlen v =? 0) && (height v =? height_for_length 0)
  | Some r =>
      is_packed_rec (height v) r true
      && (vlen v =? node_len (height v) r)
      && (match r with Interior ch => 1 <? length ch | Leaf _ => true end)
      && (height v =? height_for_length (vlen v))
  end.

(* ---- Slice *)
Record slice : Type := mkSlice { svec : vec; sstart : nat; send : nat }.

Definition snew : slice := mkSlice vnew 0 0.
Definition slen (s : slice) : nat := send s - sstart s.
Definition sget (s : slice) (idx : nat) : option A :=
  if slen s <=? idx then None else vget (svec s) (sstart s + idx).
Definition sset (s : slice) (idx : nat) (x : A) : option slice :=
  if slen s <=? idx then None
  else match vset (svec s) (sstart s + idx) x with
       | Some v => Some (mkSlice v (sstart s) (send s))
       | None => None
       end.
Definition spush (s : slice) (x : A) : option slice :=
  match vtruncate (svec s) (send s) with
  | Some v => match vpush v x with
              | Some v' => Some (mkSlice v' (sstart s) (send s + 1))
              | None => None
              end
  | None => None
  end.
Definition spop (s : slice) : option (option A * slice) :=
  if send s =? sstart s then Some (None, s)
  else match vtruncate (svec s) (send s) with
       | Some v => match vpop v with
                   | Some (x, v') => Some (x, mkSlice v' (sstart s) (send s - 1))
                   | None => None
                   end
       | None => None
       end.
Definition sslice (s : slice) (from to : nat) : option slice :=
  if (from <=? to) && (to <=? slen s)
  then Some (mkSlice (svec s) (sstart s + from) (sstart s + to))
  else None.
Definition sextend (s : slice) (it : list A) : option slice :=
  match vtruncate (svec s) (send s) with
  | Some v => match vextend v it with
              | Some v' => Some (mkSlice v' (sstart s) (vlen v'))
              | None => None
              end
  | None => None
  end.
Definition siter (s : slice) : option (list A) :=
  match viter_from (svec s) (sstart s) with
  | Some l => Some (firstn (slen s) l)
  | None => None
  end.
(* [Slice::iter_mut]: [self.vec.iter_mut_starting_at(self.start).take(len)] *)
Definition smap (s : slice) (f : A -> A) : option slice :=
  match vmap_from (svec s) (sstart s) f (slen s) with
  | Some v => Some (mkSlice v (sstart s) (send s))
  | None => None
  end.
Definition sfrom_list (l : list A) : option slice :=
  match vextend vnew l with
  | Some v => Some (mkSlice v 0 (vlen v))
  | None => None
  end.

End Vec.
