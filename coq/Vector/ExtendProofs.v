(* [Extend::extend]: [extend_rec], its two filling loops and the fuelled top-level loop keep [wf],
   never panic, consume the whole iterator and append it to the contents. *)
From Coq Require Import List Arith Bool Lia.
Import ListNotations.
From NV Require Import Vector.Model Vector.Wf Vector.ListLemmas Vector.NodeProofs Vector.VecProofs.

Lemma list_eq_nil_dec : forall {X} (l : list X), {l = []} + {l <> []}.
Proof. intros X [|a l]; [left; reflexivity|right; discriminate]. Qed.

Section Extend.
Context {A : Type}.
Variable B : nat.
Hypothesis HB : 2 <= B.
Notation node := (@node A).
Notation vec := (@vec A).
Notation pk := (@pk A B).
Notation wf := (@wf A B).
Notation cap := (cap B).
Notation nl := (@node_list A).

(* ---- the filling loop *)
(* what one iteration of the loop body must do: build a packed child from a non-empty iterator,
   complete unless the iterator ran dry *)
Definition step_ok (g : nat) (step : list A -> option (node * list A)) : Prop :=
  forall it, it <> [] ->
    exists c it', step it = Some (c, it') /\ it = nl g c ++ it' /\ pk g true c
                  /\ (it' <> [] -> pk g false c).

Lemma fill_loop_nil : forall step room, fill_loop step room (@nil A) = Some ([], []).
Proof. intros step [|room]; reflexivity. Qed.

Lemma pk_nonempty_list : forall g rm c, pk g rm c -> nl g c <> [].
Proof.
  intros g rm c P E. destruct (pk_len B HB _ _ _ P) as (L1 & _). rewrite E in L1. cbn in L1. lia.
Qed.

Lemma fill_loop_spec : forall g step, step_ok g step -> forall room it,
  exists more rest, fill_loop step room it = Some (more, rest)
    /\ it = flat_map (nl g) more ++ rest
    /\ length more <= room
    /\ (rest <> [] -> length more = room /\ Forall (pk g false) more)
    /\ (more = [] \/ pkl (pk g) true more)
    /\ (1 <= room -> it <> [] -> more <> []).
Proof.
  intros g step Hs. induction room as [|room IH]; intros it.
  - exists [], it. cbn [fill_loop flat_map app length]. repeat split; auto; try lia.
  - destruct it as [|a t].
    + exists [], []. cbn [fill_loop flat_map app length]. repeat split; auto; try lia; congruence.
    + destruct (Hs (a :: t) ltac:(discriminate)) as (c & it1 & Es & Eit & Pc & Pf).
      cbn [fill_loop]. rewrite Es.
      destruct (IH it1) as (more & rest & -> & E1 & Lm & Hrest & Hpkl & _).
      exists (c :: more), rest. split; [reflexivity|]. cbn [flat_map length].
      split; [rewrite Eit, E1, app_assoc; reflexivity|]. split; [lia|].
      assert (Hit1 : more <> [] \/ rest <> [] -> it1 <> []).
      { intros Hne E. rewrite E in E1. symmetry in E1. apply app_eq_nil in E1. destruct E1 as [E1 E2].
        destruct Hne as [Hne|Hne]; [|congruence].
        destruct Hpkl as [->|Hp]; [congruence|].
        destruct (pkl_inv _ _ _ Hp) as (i & c2 & -> & _ & Pc2).
        rewrite flat_map_snoc in E1. apply app_eq_nil in E1. destruct E1 as [_ E1].
        exact (pk_nonempty_list _ _ _ Pc2 E1). }
      split; [|split].
      * intros Hr. destruct (Hrest Hr) as [L F]. split; [lia|]. constructor; [|exact F].
        apply Pf. apply Hit1. right. exact Hr.
      * right. destruct Hpkl as [->|Hp]; [apply pkl_last; exact Pc|].
        apply pkl_cons; [|exact Hp]. apply Pf. apply Hit1. left. eapply pkl_nonempty. exact Hp.
      * intros _ _. discriminate.
Qed.

Lemma leaf_step_ok : step_ok 0 (leaf_step B).
Proof.
  intros it Hne. unfold leaf_step. eexists. eexists. split; [reflexivity|].
  cbn [node_list]. split; [symmetry; apply firstn_skipn|].
  assert (1 <= length it) by (destruct it; [congruence|cbn; lia]).
  cbn [Wf.pk]. rewrite firstn_length. split.
  - repeat split; try lia; try discriminate.
  - intros Hs. assert (B < length it).
    { destruct (Nat.lt_ge_cases B (length it)); [assumption|]. rewrite skipn_all2 in Hs by lia. congruence. }
    repeat split; try lia.
Qed.

(* ---- extend_rec *)
Definition interior_step (g : nat) : list A -> option (node * list A) :=
  fun it0 => match extend_rec B g [] it0 with
             | Some (sub, it1) => Some (Interior sub, it1)
             | None => None
             end.

Lemma extend_rec_1 : forall ch it,
  extend_rec B 1 ch it =
  match last_opt ch return option (list node * list A) with
  | Some (Leaf data) =>
      let k := B - length data in
      let ch1 := list_set ch (length ch - 1) (Leaf (data ++ firstn k it)) in
      match fill_loop (leaf_step B) (B - length ch1) (skipn k it) with
      | Some (more, rest) => Some (ch1 ++ more, rest)
      | None => None
      end
  | Some (Interior _) => None
  | None =>
      match fill_loop (leaf_step B) (B - length ch) it with
      | Some (more, rest) => Some (ch ++ more, rest)
      | None => None
      end
  end.
Proof. reflexivity. Qed.

Lemma extend_rec_SS : forall g ch it,
  extend_rec B (S (S g)) ch it =
  match last_opt ch return option (list node * list A) with
  | Some (Interior sub) =>
      match extend_rec B (S g) sub it with
      | Some (sub', it1) =>
          let ch1 := list_set ch (length ch - 1) (Interior sub') in
          match fill_loop (interior_step (S g)) (B - length ch1) it1 with
          | Some (more, rest) => Some (ch1 ++ more, rest)
          | None => None
          end
      | None => None
      end
  | Some (Leaf _) => None
  | None =>
      match fill_loop (interior_step (S g)) (B - length ch) it with
      | Some (more, rest) => Some (ch ++ more, rest)
      | None => None
      end
  end.
Proof. reflexivity. Qed.

(* specification of [extend_rec] on a node of height [S g] (children of height [g]); the node may
   be a fresh empty one *)
Definition ext_ok (g : nat) : Prop :=
  forall ch it, (ch = [] \/ pk (S g) true (Interior ch)) ->
    exists ch' it' taken, extend_rec B (S g) ch it = Some (ch', it')
      /\ it = taken ++ it'
      /\ flat_map (nl g) ch' = flat_map (nl g) ch ++ taken
      /\ (it' <> [] -> pk (S g) false (Interior ch'))
      /\ (ch <> [] \/ it <> [] -> pk (S g) true (Interior ch')).

(* after the last child has been extended to [c1], the loop appends [more] *)
Lemma combine_last : forall g init c1 it1 more rest,
  Forall (pk g false) init -> pk g true c1 -> (it1 <> [] -> pk g false c1) ->
  length init + 1 <= B ->
  it1 = flat_map (nl g) more ++ rest ->
  length more <= B - (length init + 1) ->
  (rest <> [] -> length more = B - (length init + 1) /\ Forall (pk g false) more) ->
  (more = [] \/ pkl (pk g) true more) ->
  pk (S g) true (Interior ((init ++ [c1]) ++ more))
  /\ (rest <> [] -> pk (S g) false (Interior ((init ++ [c1]) ++ more))).
Proof.
  intros g init c1 it1 more rest Hi Pc1 Pf Hl E1 Lm Hrest Hpkl.
  destruct Hpkl as [->|Hp].
  - rewrite app_nil_r. cbn [flat_map app] in E1. subst it1. split.
    + apply pk_S_intro; auto. discriminate.
    + intros Hr. destruct (Hrest Hr) as [L0 _]. cbn [length] in L0.
      apply pk_S_intro; auto. intros _. lia.
  - destruct (pkl_inv _ _ _ Hp) as (mi & mc & -> & Hmi & Pmc).
    assert (Hne : it1 <> []).
    { intros E. rewrite E in E1. symmetry in E1. apply app_eq_nil in E1. destruct E1 as [E1 _].
      rewrite flat_map_snoc in E1. apply app_eq_nil in E1. destruct E1 as [_ E1].
      exact (pk_nonempty_list _ _ _ Pmc E1). }
    specialize (Pf Hne). rewrite app_length in Lm. cbn [length] in Lm.
    rewrite app_assoc.
    assert (Hall : Forall (pk g false) ((init ++ [c1]) ++ mi)).
    { apply Forall_app. split; [apply Forall_app; split; [exact Hi|constructor; [exact Pf|constructor]]|exact Hmi]. }
    assert (Hlen : length ((init ++ [c1]) ++ mi) = length init + 1 + length mi).
    { rewrite !app_length. cbn [length]. lia. }
    split.
    + apply pk_S_intro; auto; [lia|discriminate].
    + intros Hr. destruct (Hrest Hr) as [L0 F0]. rewrite app_length in L0. cbn [length] in L0.
      apply Forall_app in F0. destruct F0 as [_ F0]. pose proof (Forall_inv F0) as Pmc'.
      apply pk_S_intro; auto; [lia|intros _; lia].
Qed.

(* a fresh node filled by the loop alone *)
Lemma combine_fresh : forall g it more rest,
  it = flat_map (nl g) more ++ rest ->
  length more <= B ->
  (rest <> [] -> length more = B /\ Forall (pk g false) more) ->
  (more = [] \/ pkl (pk g) true more) ->
  (it <> [] -> more <> []) ->
  (it <> [] -> pk (S g) true (Interior more))
  /\ (rest <> [] -> pk (S g) false (Interior more)).
Proof.
  intros g it more rest E1 Lm Hrest Hpkl Hne. split.
  - intros Hit. specialize (Hne Hit). destruct Hpkl as [->|Hp]; [congruence|].
    cbn [Wf.pk]. split; [exact Lm|]. split; [discriminate|exact Hp].
  - intros Hr. destruct (Hrest Hr) as [L0 F0].
    cbn [Wf.pk]. split; [lia|]. split; [intros _; exact L0|].
    apply pkl_of_Forall; [auto|exact F0|]. intros ->. cbn in L0. lia.
Qed.

Lemma interior_step_ok : forall g, ext_ok g -> step_ok (S g) (interior_step (S g)).
Proof.
  intros g Hg it Hne. unfold interior_step.
  destruct (Hg [] it (or_introl eq_refl)) as (ch' & it' & taken & -> & Eit & Efl & Pf & Pt).
  cbn [flat_map app] in Efl.
  eexists. eexists. split; [reflexivity|]. cbn [node_list]. rewrite Efl.
  split; [exact Eit|]. split; [apply Pt; right; exact Hne|exact Pf].
Qed.

(* the two shapes of [extend_rec] share everything after the last child has been extended *)
Lemma ext_after_last : forall g step init c c1 it taken1 it1,
  step_ok g step ->
  Forall (pk g false) init -> length init + 1 <= B ->
  it = taken1 ++ it1 -> nl g c1 = nl g c ++ taken1 ->
  pk g true c1 -> (it1 <> [] -> pk g false c1) ->
  exists more rest taken, fill_loop step (B - (length init + 1)) it1 = Some (more, rest)
    /\ it = taken ++ rest
    /\ flat_map (nl g) ((init ++ [c1]) ++ more) = flat_map (nl g) (init ++ [c]) ++ taken
    /\ (rest <> [] -> pk (S g) false (Interior ((init ++ [c1]) ++ more)))
    /\ pk (S g) true (Interior ((init ++ [c1]) ++ more)).
Proof.
  intros g step init c c1 it taken1 it1 Hs Hi Hl Eit Enl Pc1 Pf.
  destruct (fill_loop_spec g step Hs (B - (length init + 1)) it1)
    as (more & rest & -> & E1 & Lm & Hrest & Hpkl & _).
  destruct (combine_last g init c1 it1 more rest Hi Pc1 Pf Hl E1 Lm Hrest Hpkl) as [Pt Pfl].
  exists more, rest, (taken1 ++ flat_map (nl g) more). split; [reflexivity|].
  split; [rewrite Eit, E1, app_assoc; reflexivity|]. split; [|split; assumption].
  rewrite !flat_map_app. cbn [flat_map]. rewrite !app_nil_r, Enl, !app_assoc. reflexivity.
Qed.

Lemma ext_fresh : forall g step it, step_ok g step ->
  exists more rest taken, fill_loop step (B - 0) it = Some (more, rest)
    /\ it = taken ++ rest
    /\ flat_map (nl g) more = taken
    /\ (rest <> [] -> pk (S g) false (Interior more))
    /\ (it <> [] -> pk (S g) true (Interior more)).
Proof.
  intros g step it Hs. rewrite Nat.sub_0_r.
  destruct (fill_loop_spec g step Hs B it) as (more & rest & -> & E1 & Lm & Hrest & Hpkl & Hne).
  destruct (combine_fresh g it more rest E1 Lm Hrest Hpkl ltac:(intros; apply Hne; [lia|assumption]))
    as [Pt Pfl].
  exists more, rest, (flat_map (nl g) more). auto.
Qed.

Lemma ext_ok_0 : ext_ok 0.
Proof.
  intros ch it Hch. rewrite extend_rec_1.
  destruct Hch as [->|P].
  - cbn [last_opt length].
    destruct (ext_fresh 0 (leaf_step B) it leaf_step_ok) as (more & rest & taken & -> & Eit & Efl & Pf & Pt).
    exists more, rest, taken. cbn [app flat_map]. split; [reflexivity|]. split; [exact Eit|].
    split; [exact Efl|]. split; [exact Pf|]. intros [H|H]; [congruence|apply Pt; exact H].
  - destruct (pk_S_inv B _ _ _ P) as (init & c & E & I1 & I2 & Hi & Pc). injection E as ->.
    destruct (pk_0_inv B _ _ Pc) as (data & -> & D1 & D2 & _).
    rewrite last_opt_snoc. cbv zeta. rewrite list_set_snoc.
    replace (length (init ++ [Leaf (data ++ firstn (B - length data) it)])) with (length init + 1)
      by (rewrite app_length; reflexivity).
    set (k := B - length data).
    assert (Pc1 : pk 0 true (Leaf (data ++ firstn k it))).
    { cbn [Wf.pk]. rewrite app_length, firstn_length. repeat split; try lia; try discriminate. }
    assert (Pf1 : skipn k it <> [] -> pk 0 false (Leaf (data ++ firstn k it))).
    { intros Hs. assert (k < length it).
      { destruct (Nat.lt_ge_cases k (length it)); [assumption|]. rewrite skipn_all2 in Hs by lia. congruence. }
      cbn [Wf.pk]. rewrite app_length, firstn_length. repeat split; try lia. }
    destruct (ext_after_last 0 (leaf_step B) init (Leaf data) (Leaf (data ++ firstn k it)) it
                (firstn k it) (skipn k it) leaf_step_ok Hi I1
                (eq_sym (firstn_skipn k it)) eq_refl Pc1 Pf1)
      as (more & rest & taken & -> & Eit & Efl & Pf & Pt).
    exists ((init ++ [Leaf (data ++ firstn k it)]) ++ more), rest, taken.
    split; [reflexivity|]. split; [exact Eit|]. split; [exact Efl|]. split; [exact Pf|].
    intros _. exact Pt.
Qed.

Lemma ext_ok_S : forall g, ext_ok g -> ext_ok (S g).
Proof.
  intros g Hg ch it Hch. rewrite extend_rec_SS.
  pose proof (interior_step_ok g Hg) as Hstep.
  destruct Hch as [->|P].
  - cbn [last_opt length].
    destruct (ext_fresh (S g) (interior_step (S g)) it Hstep) as (more & rest & taken & -> & Eit & Efl & Pf & Pt).
    exists more, rest, taken. cbn [app flat_map]. split; [reflexivity|]. split; [exact Eit|].
    split; [exact Efl|]. split; [exact Pf|]. intros [H|H]; [congruence|apply Pt; exact H].
  - destruct (pk_S_inv B _ _ _ P) as (init & c & E & I1 & I2 & Hi & Pc). injection E as ->.
    destruct c as [d|sub]; [cbn in Pc; contradiction|].
    rewrite last_opt_snoc.
    destruct (Hg sub it (or_intror Pc)) as (sub' & it1 & taken1 & -> & Eit1 & Efl1 & Pf1 & Pt1).
    cbv zeta. rewrite list_set_snoc.
    replace (length (init ++ [Interior sub'])) with (length init + 1)
      by (rewrite app_length; reflexivity).
    assert (Hsub : sub <> []).
    { destruct (pk_S_ch B HB _ _ _ Pc) as (L1 & _). intros ->. cbn in L1. lia. }
    destruct (ext_after_last (S g) (interior_step (S g)) init (Interior sub) (Interior sub') it
                taken1 it1 Hstep Hi I1 Eit1 Efl1 (Pt1 (or_introl Hsub)) Pf1)
      as (more & rest & taken & -> & Eit & Efl & Pf & Pt).
    exists ((init ++ [Interior sub']) ++ more), rest, taken.
    split; [reflexivity|]. split; [exact Eit|]. split; [exact Efl|]. split; [exact Pf|].
    intros _. exact Pt.
Qed.

Theorem extend_rec_spec : forall g, ext_ok g.
Proof. induction g as [|g IH]; [apply ext_ok_0|apply ext_ok_S; exact IH]. Qed.

(* ---- the top-level loop *)
(* the state of the loop: a root is present and packed, but it may have a single child (right after
   [add_level]) and the leaf root may be empty (right after the root was created) *)
Definition pre (v : vec) : Prop :=
  exists r, root v = Some r /\ vlen v = length (nl (height v) r)
    /\ ((height v = 0 /\ exists d, r = Leaf d /\ length d <= B) \/ pk (height v) true r).

Lemma vextend_loop_spec : forall fuel v it, pre v -> it <> [] ->
  (height v = 0 \/ B ^ height v < vlen v + length it) ->
  length it + (if vlen v =? cap (height v) then 1 else 0) <= fuel ->
  exists v', vextend_loop B fuel v it = Some v' /\ wf v'
             /\ to_list v' = to_list v ++ it /\ vlen v' = vlen v + length it.
Proof.
  induction fuel as [|f IH]; intros v it Hpre Hne Hh Hfuel.
  { destruct it; [congruence|cbn [length] in Hfuel; lia]. }
  destruct Hpre as (r & Hr & HL & Hshape).
  destruct v as [rt L h]. cbn [root vlen height] in *. subst rt.
  destruct it as [|a t] eqn:Eit'; [congruence|].
  cbn [vextend_loop root vlen height].
  rewrite <- Eit' in *. clear Hne.
  assert (Hlen : 1 <= length it) by (rewrite Eit'; cbn; lia).
  clear Eit' a t.
  assert (Hleaf : forall d, r = Leaf d -> h = 0 /\ length d <= B).
  { intros d ->. destruct Hshape as [(H0 & d' & E & Hd)|P].
    - injection E as <-. auto.
    - destruct h; [|cbn in P; contradiction]. destruct P as (_ & P2 & _). auto. }
  destruct r as [data|ch].
  - (* the root is a leaf *)
    destruct (Hleaf data eq_refl) as [-> Hd]. cbn [node_list] in HL. subst L.
    set (k := B - length data) in *.
    assert (Hdl : length (data ++ firstn k it) = length data + Nat.min k (length it))
      by (rewrite app_length, firstn_length; reflexivity).
    destruct (skipn k it) as [|a' t'] eqn:Es.
    + assert (Hk : length it <= k).
      { destruct (Nat.le_gt_cases (length it) k); [assumption|].
        apply (f_equal (@length _)) in Es. rewrite skipn_length in Es. cbn in Es. lia. }
      eexists. split; [reflexivity|]. unfold to_list. cbn [root vlen height node_list].
      rewrite firstn_all2 by lia. split; [|split; [reflexivity|rewrite app_length; lia]].
      apply wf_intro; [exact HB| | |left; reflexivity].
      * cbn [Wf.pk]. rewrite app_length. repeat split; try lia; try discriminate.
      * cbn [node_list]. rewrite !app_length. lia.
    + rewrite <- Es.
      assert (Hk : k < length it).
      { destruct (Nat.lt_ge_cases k (length it)); [assumption|]. rewrite skipn_all2 in Es by lia. discriminate. }
      assert (Hs : skipn k it <> []) by (rewrite Es; discriminate).
      unfold add_level. cbn [root vlen height]. rewrite Nat.add_0_l.
      set (data' := data ++ firstn k it) in *.
      assert (Hd' : length data' = B) by lia.
      destruct (IH (mkVec (Some (Interior [Leaf data'])) (length data + (length data' - length data)) 1)
                  (skipn k it)) as (v' & -> & Wv & Lv & Nv).
      * exists (Interior [Leaf data']). cbn [root vlen height node_list flat_map].
        split; [reflexivity|]. split; [rewrite app_nil_r; lia|]. right.
        apply (pk_S_intro B 0 true [] (Leaf data')); cbn [length]; auto; try lia; try discriminate.
        cbn [Wf.pk]. repeat split; try lia; try discriminate.
      * exact Hs.
      * right. cbn [vlen height]. rewrite Nat.pow_1_r, skipn_length. lia.
      * cbn [vlen height]. rewrite skipn_length.
        replace (length data + (length data' - length data)) with B by lia.
        destruct (Nat.eqb_spec B (cap 1)) as [E|_].
        { rewrite (cap_S B), (cap_0 B) in E. nia. }
        rewrite (cap_0 B) in Hfuel.
        destruct (Nat.eqb_spec (length data) B); lia.
      * exists v'. split; [reflexivity|]. split; [exact Wv|]. cbn [vlen] in Nv.
        unfold to_list in Lv |- *. cbn [root height node_list flat_map] in Lv |- *.
        rewrite app_nil_r in Lv. split.
        -- rewrite Lv. unfold data'. rewrite <- app_assoc, firstn_skipn. reflexivity.
        -- rewrite Nv, skipn_length. lia.
  - (* the root is an interior node *)
    destruct Hshape as [(_ & d' & E & _)|P]; [discriminate|].
    destruct h as [|g]; [cbn in P; contradiction|].
    assert (Hch : ch <> []).
    { destruct (pk_S_ch B HB _ _ _ P) as (L1 & _). intros ->. cbn in L1. lia. }
    destruct (extend_rec_spec g ch it (or_intror P)) as (ch' & it' & taken & -> & Eit & Efl & Pf & Pt).
    specialize (Pt (or_introl Hch)).
    assert (Hcons : length it - length it' = length taken).
    { rewrite Eit, app_length. lia. }
    assert (HL' : length (nl (S g) (Interior ch')) = L + length taken).
    { cbn [node_list] in *. rewrite Efl, app_length. lia. }
    destruct it' as [|a' t'] eqn:Eit2.
    + rewrite app_nil_r in Eit. subst taken.
      eexists. split; [reflexivity|]. unfold to_list. cbn [root vlen height length].
      rewrite Nat.sub_0_r.
      split; [|split; [cbn [node_list]; exact Efl|reflexivity]].
      apply wf_intro; [exact HB|exact Pt|symmetry; exact HL'|exact Hh].
    + rewrite <- Eit2 in *. assert (Hs : it' <> []) by (rewrite Eit2; discriminate). clear Eit2 a' t'.
      specialize (Pf Hs). pose proof (pk_full_len B HB _ _ Pf) as Hfull.
      unfold add_level. cbn [root vlen height]. rewrite Hcons, Nat.add_1_r.
      destruct (IH (mkVec (Some (Interior [Interior ch'])) (L + length taken) (S (S g))) it')
        as (v' & -> & Wv & Lv & Nv).
      * exists (Interior [Interior ch']). cbn [root vlen height].
        split; [reflexivity|]. split.
        { cbn [node_list flat_map] in *. rewrite app_nil_r. lia. }
        right. apply (pk_S_intro B (S g) true [] (Interior ch')); cbn [length]; auto; try lia; try discriminate.
      * exact Hs.
      * right. cbn [vlen height]. fold (cap (S g)).
        assert (1 <= length it') by (destruct it'; [congruence|cbn; lia]). lia.
      * cbn [vlen height].
        destruct (Nat.eqb_spec (L + length taken) (cap (S (S g)))) as [E|_].
        { rewrite (cap_S B (S g)) in E. pose proof (cap_pos B HB (S g)). nia. }
        rewrite Eit, app_length in Hfuel.
        destruct (Nat.eqb_spec L (cap (S g))); lia.
      * exists v'. split; [reflexivity|]. split; [exact Wv|]. cbn [vlen] in Nv.
        unfold to_list in Lv |- *. cbn [root height] in Lv |- *.
        split.
        -- rewrite Lv. cbn [node_list flat_map]. rewrite app_nil_r, Efl, Eit, app_assoc. reflexivity.
        -- rewrite Nv, Eit, app_length. lia.
Qed.

Lemma vextend_nonempty : forall (v : vec) it, it <> [] ->
  vextend B v it
  = vextend_loop B (length it + 2)
      (match root v with None => mkVec (Some (Leaf [])) (vlen v) (height v) | Some _ => v end) it.
Proof. intros v it H. destruct it; [congruence|reflexivity]. Qed.

Theorem vextend_spec : forall v it, wf v ->
  exists v', vextend B v it = Some v' /\ wf v' /\ to_list v' = to_list v ++ it
             /\ vlen v' = vlen v + length it.
Proof.
  intros v it H. destruct (list_eq_nil_dec it) as [->|Hne].
  - exists v. rewrite app_nil_r. cbn [length vextend]. auto with arith.
  - rewrite (vextend_nonempty v it Hne).
    destruct (wf_cases B HB v H) as [(Hr & HL & Hh)|[(Hr & HL & Hh)|(r & Hr & P & HL & L1 & L2 & Hb & Hc)]];
      destruct v as [rt L h]; cbn [root vlen height] in *; subst rt.
    + subst. destruct (vextend_loop_spec (length it + 2) (mkVec (Some (Leaf [])) 0 0) it) as (v' & E & W & Lv & Nv).
      * exists (Leaf []). cbn. split; [reflexivity|]. split; [reflexivity|]. left. split; [reflexivity|].
        exists []. split; [reflexivity|cbn; lia].
      * exact Hne.
      * left. reflexivity.
      * cbn [vlen height]. destruct (0 =? cap 0); lia.
      * exists v'. cbn [root]. auto.
    + subst. destruct (vextend_loop_spec (length it + 2) (mkVec (Some (Leaf [])) 0 0) it) as (v' & E & W & Lv & Nv).
      * exists (Leaf []). cbn. split; [reflexivity|]. split; [reflexivity|]. left. split; [reflexivity|].
        exists []. split; [reflexivity|cbn; lia].
      * exact Hne.
      * left. reflexivity.
      * cbn [vlen height]. destruct (0 =? cap 0); lia.
      * exists v'. cbn [root]. auto.
    + destruct (vextend_loop_spec (length it + 2) (mkVec (Some r) L h) it) as (v' & E & W & Lv & Nv).
      * exists r. cbn [root vlen height]. auto.
      * exact Hne.
      * cbn [vlen height]. destruct Hb as [Hb|Hb]; [left; exact Hb|right; lia].
      * cbn [vlen height]. destruct (L =? cap h); lia.
      * exists v'. cbn [root]. auto.
Qed.

End Extend.
