(* Non-vacuity for the T1 (reference-counted heap) theorems. *)
From Coq Require Import List Arith Bool Lia.
Import ListNotations.
From NV Require Import Vector.Model Vector.RcHeap Vector.RcHeapProofs.

Definition pushes (B : nat) :=
  fix go (l : list nat) (hp : @heap nat) (v : hvec) : option (heap * hvec) :=
    match l with
    | [] => Some (hp, v)
    | x :: t => match hvpush B hp v x with Some (hp', v') => go t hp' v' | None => None end
    end.

(* five pushes with B = 2, a clone, a set through the clone, a push through the original *)
Definition demo : option (option (list nat) * option (list nat) * list nat) :=
  match pushes 2 [1; 2; 3; 4; 5] [] hvnew with
  | Some (hp, v) =>
      let (hp1, w) := hvclone hp v in
      match hvset 2 hp1 w 3 9 with
      | Some (hp2, w') =>
          match hvpush 2 hp2 v 6 with
          | Some (hp3, v') =>
              Some (option_map (@to_list nat) (vabs hp3 v'), option_map (@to_list nat) (vabs hp3 w'),
                    map (@crc nat) hp3)
          | None => None
          end
      | None => None
      end
  | None => None
  end.

(* both handles keep their own contents; the untouched leaf [1;2] (cell 0) is shared: count 2 *)
Example demo_result :
  demo = Some (Some [1; 2; 3; 4; 5; 6], Some [1; 2; 3; 9; 5], [2; 1; 1; 1; 1; 1; 1; 1; 1; 1; 1]).
Proof. vm_compute. reflexivity. Qed.

(* a state satisfying the invariant with two handles sharing their root (count 2) *)
Definition shared_heap : @heap nat :=
  [mkCell (HLeaf [1; 2]) 1 0; mkCell (HLeaf [3]) 1 0; mkCell (HInt [0; 1]) 2 1].
Definition h1 : hvec := mkHVec (Some 2) 3 1.

Example shared_hinv : hinv shared_heap [h1; h1].
Proof.
  split.
  - constructor.
    + intros l c E. destruct l as [|[|[|l]]]; cbn in E; try (injection E as <-; vm_compute; reflexivity).
      destruct l; discriminate.
    + intros l c k E Hin. destruct l as [|[|[|l]]]; cbn in E; try (injection E as <-; cbn in Hin).
      * contradiction.
      * contradiction.
      * destruct Hin as [<-|[<-|[]]]; eexists; (split; [reflexivity|reflexivity]).
      * destruct l; discriminate.
    + intros r Hr. cbn in Hr. destruct Hr as [<-|[<-|[]]]; cbn; lia.
  - repeat constructor.
Qed.

(* What [make_mut] is for: writing through a shared root WITHOUT it (calling [hset] directly) changes
   what the other handle denotes.  With it ([hvset]) the other handle is unaffected, as
   [hvset_refines_frame] proves in general. *)
Example skipping_make_mut_breaks_frame :
  option_map (fun hp' => option_map (@to_list nat) (vabs hp' h1)) (hset 2 1 shared_heap 2 0 9)
    = Some (Some [9; 2; 3])
  /\ option_map (@to_list nat) (vabs shared_heap h1) = Some [1; 2; 3]
  /\ option_map (fun r => (option_map (@to_list nat) (vabs (fst r) (snd r)),
                            option_map (@to_list nat) (vabs (fst r) h1))) (hvset 2 shared_heap h1 0 9)
     = Some (Some [9; 2; 3], Some [1; 2; 3]).
Proof. vm_compute. repeat split; reflexivity. Qed.
