(* Mutable iteration ([IterMut], [iter_mut_starting_at], [Slice::iter_mut]): the tree keeps its
   shape, and the elements handed to the consumer (from [idx] on, at most [budget] of them) are
   replaced, all others are untouched. *)
From Coq Require Import List Arith Bool Lia.
Import ListNotations.
From NV Require Import Vector.Model Vector.Wf Vector.ListLemmas Vector.NodeProofs Vector.VecProofs.

(* the list-level meaning: [f] on the first [bd] elements *)
Definition map_take {X} (f : X -> X) (bd : nat) (l : list X) : list X :=
  map f (firstn bd l) ++ skipn bd l.

Section MapTake.
Context {X : Type}.
Variable f : X -> X.

Lemma map_take_length : forall bd (l : list X), length (map_take f bd l) = length l.
Proof.
  intros. unfold map_take. rewrite app_length, map_length, firstn_length, skipn_length. lia.
Qed.

Lemma map_take_app : forall bd (l1 l2 : list X),
  map_take f bd (l1 ++ l2) = map_take f bd l1 ++ map_take f (bd - length l1) l2.
Proof.
  intros bd l1 l2. unfold map_take. rewrite firstn_app, skipn_app, map_app.
  destruct (Nat.le_gt_cases bd (length l1)) as [H|H].
  - replace (bd - length l1) with 0 by lia. cbn [firstn skipn map]. rewrite app_nil_r, <- app_assoc. reflexivity.
  - rewrite (skipn_all2 l1) by lia. cbn [app]. rewrite app_nil_r, <- app_assoc. reflexivity.
Qed.

Lemma map_take_all : forall bd (l : list X), length l <= bd -> map_take f bd l = map f l.
Proof.
  intros bd l H. unfold map_take. rewrite firstn_all2, skipn_all2 by lia. apply app_nil_r.
Qed.

Lemma map_take_nil : forall bd, map_take f bd [] = [].
Proof. intros. unfold map_take. rewrite firstn_nil, skipn_nil. reflexivity. Qed.

End MapTake.

Section IterMut.
Context {A : Type}.
Variable B : nat.
Hypothesis HB : 2 <= B.
Variable f : A -> A.
Notation node := (@node A).
Notation vec := (@vec A).
Notation pk := (@pk A B).
Notation wf := (@wf A B).
Notation cap := (cap B).
Notation nl := (@node_list A).

(* the new node has the shape of the old one *)
Definition shp (h : nat) (n n' : node) : Prop := forall rm, pk h rm n -> pk h rm n'.

Lemma pkl_Forall2 : forall (P : bool -> node -> Prop) rm l l',
  pkl P rm l -> Forall2 (fun c c' => forall rm0, P rm0 c -> P rm0 c') l l' -> pkl P rm l'.
Proof.
  intros P rm l l' H. revert l'. induction H as [c Hc|c l Hc Hl IH]; intros l' F; inversion F; subst.
  - inversion H3; subst. apply pkl_last. auto.
  - apply pkl_cons; auto.
Qed.

Lemma Forall2_len : forall {X Y} (R : X -> Y -> Prop) l l', Forall2 R l l' -> length l = length l'.
Proof. intros X Y R l l' H. induction H; cbn [length]; congruence. Qed.

Lemma shp_interior : forall h ch ch', Forall2 (shp h) ch ch' -> shp (S h) (Interior ch) (Interior ch').
Proof.
  intros h ch ch' F rm P. cbn [Wf.pk] in *. destruct P as (P1 & P2 & P3).
  rewrite <- (Forall2_len _ _ _ F). split; [exact P1|]. split; [exact P2|].
  apply (pkl_Forall2 (pk h) rm ch ch' P3). exact F.
Qed.

Lemma pk_children_some : forall h rm ch, pk (S h) rm (Interior ch) -> Forall (fun c => exists rm', pk h rm' c) ch.
Proof.
  intros h rm ch P. destruct (pk_S_inv B _ _ _ P) as (init & c & E & _ & _ & Hi & Pc). injection E as ->.
  apply Forall_app. split.
  - eapply Forall_impl; [|exact Hi]. intros a Ha. exists false. exact Ha.
  - constructor; [eauto|constructor].
Qed.

(* ---- a whole subtree *)
Definition take_ok (h : nat) (step : node -> nat -> option (node * nat)) (c : node) : Prop :=
  forall bd, exists c', step c bd = Some (c', bd - length (nl h c)) /\ shp h c c'
                        /\ nl h c' = map_take f bd (nl h c).

Lemma map_take_list_spec : forall h step l, Forall (take_ok h step) l -> forall bd,
  exists l', map_take_list step l bd = Some (l', bd - length (flat_map (nl h) l))
             /\ Forall2 (shp h) l l' /\ flat_map (nl h) l' = map_take f bd (flat_map (nl h) l).
Proof.
  intros h step l H. induction H as [|c l Hc _ IH]; intros bd.
  - exists []. cbn [map_take_list flat_map length]. rewrite Nat.sub_0_r, map_take_nil. auto.
  - destruct (Hc bd) as (c' & E1 & S1 & L1). destruct (IH (bd - length (nl h c))) as (l' & E2 & S2 & L2).
    exists (c' :: l'). cbn [map_take_list flat_map]. rewrite E1, E2. split.
    + do 2 f_equal. rewrite app_length. lia.
    + split; [constructor; assumption|]. rewrite L1, L2, map_take_app. reflexivity.
Qed.

Lemma node_map_take_spec : forall h rm n, pk h rm n -> take_ok h (fun c b => node_map_take h c f b) n.
Proof.
  induction h as [|h IH]; intros rm n P bd.
  - destruct (pk_0_inv B _ _ P) as (d & -> & _). cbn [node_map_take node_list].
    eexists. split; [reflexivity|]. split; [|reflexivity].
    intros rm0 P0. cbn [Wf.pk] in *. fold (map_take f bd d). rewrite map_take_length. exact P0.
  - destruct n as [d|ch]; [cbn in P; contradiction|]. cbn [node_map_take node_list].
    assert (Hall : Forall (take_ok h (fun c b => node_map_take h c f b)) ch).
    { eapply Forall_impl; [|exact (pk_children_some _ _ _ P)]. intros c (rm' & Pc). exact (IH rm' c Pc). }
    destruct (map_take_list_spec h _ ch Hall bd) as (ch' & -> & S & L).
    eexists. split; [reflexivity|]. split; [apply shp_interior; exact S|exact L].
Qed.

(* ---- from an offset *)
Lemma shp_refl : forall h n, shp h n n.
Proof. intros h n rm P. exact P. Qed.

Lemma Forall2_refl_shp : forall h l, Forall2 (shp h) l l.
Proof. intros h l. induction l; constructor; auto. apply shp_refl. Qed.

Lemma node_map_from_spec : forall h rm n idx bd, pk h rm n -> idx mod cap h < length (nl h n) ->
  exists n', node_map_from B h n idx f bd = Some (n', bd - (length (nl h n) - idx mod cap h))
             /\ shp h n n'
             /\ nl h n' = firstn (idx mod cap h) (nl h n) ++ map_take f bd (skipn (idx mod cap h) (nl h n)).
Proof.
  induction h as [|h IH]; intros rm n idx bd P Hlt.
  - destruct (pk_0_inv B _ _ P) as (d & -> & _). cbn [node_map_from node_list] in *. rewrite (cap_0 B) in *.
    eexists. split; [rewrite skipn_length; reflexivity|]. split; [|reflexivity].
    intros rm0 P0. cbn [Wf.pk] in *.
    replace (length (firstn (idx mod B) d ++ map f (firstn bd (skipn (idx mod B) d)) ++ skipn bd (skipn (idx mod B) d)))
      with (length d); [exact P0|].
    fold (map_take f bd (skipn (idx mod B) d)). rewrite app_length, map_take_length, firstn_length, skipn_length. lia.
  - destruct n as [d|ch]; [cbn in P; contradiction|]. cbn [node_map_from].
    destruct (pos_in_child B HB _ _ _ _ P Hlt) as (c & Hn & Hr).
    destruct (pk_child_at B HB _ _ _ _ _ P Hn) as (Ff & Pc & Hb & _ & Enl & LF).
    destruct (idx_pos B HB idx h) as (Ep & _ & _).
    rewrite (skipn_nth_cons _ _ _ Hn).
    destruct (IH _ c idx bd Pc Hr) as (c' & -> & Sc & Lc).
    assert (Hrest : Forall (take_ok h (fun c0 b0 => node_map_take h c0 f b0)) (skipn (S (extract_index B idx (S h))) ch)).
    { pose proof (pk_children_some _ _ _ P) as Hall. rewrite Forall_forall in *. intros x Hx.
      destruct (Hall x) as (rm' & Px).
      - rewrite <- (firstn_skipn (S (extract_index B idx (S h))) ch). apply in_or_app. right. exact Hx.
      - exact (node_map_take_spec h rm' x Px). }
    destruct (map_take_list_spec h _ _ Hrest (bd - (length (nl h c) - idx mod cap h))) as (rest' & -> & Sr & Lr).
    assert (Eb : bd - (length (nl h c) - idx mod cap h)
                 - length (flat_map (nl h) (skipn (S (extract_index B idx (S h))) ch))
                 = bd - (length (nl (S h) (Interior ch)) - idx mod cap (S h))).
    { rewrite Ep, Enl, !app_length, LF. lia. }
    rewrite Eb. eexists. split; [reflexivity|].
    split.
      * destruct (split_at ch _ c Hn) as [Es _].
        intros rm0 P0. rewrite Es in P0. revert rm0 P0. apply shp_interior.
        apply Forall2_app; [apply Forall2_refl_shp|]. constructor; assumption.
      * rewrite Ep, Enl. cbn [node_list]. rewrite flat_mid, Lc, Lr.
        rewrite (first3 _ _ _ _ _ LF) by lia. rewrite (skip3 _ _ _ _ _ LF) by lia.
        rewrite map_take_app, skipn_length, <- !app_assoc. reflexivity.
Qed.

(* ---- vectors *)
Theorem vmap_from_spec : forall v idx bd, wf v ->
  (idx <= vlen v ->
   exists v', vmap_from B v idx f bd = Some v' /\ wf v'
              /\ to_list v' = firstn idx (to_list v) ++ map_take f bd (skipn idx (to_list v))
              /\ vlen v' = vlen v)
  /\ (vlen v < idx -> vmap_from B v idx f bd = None).
Proof.
  intros v idx bd H. pose proof (wf_length B HB v H) as HLen. unfold vmap_from. split.
  - intros Hle. destruct (Nat.eqb_spec idx (vlen v)) as [E|NE].
    + exists v. split; [reflexivity|]. split; [exact H|]. split; [|reflexivity].
      rewrite firstn_all2, skipn_all2, map_take_nil by lia. symmetry. apply app_nil_r.
    + destruct (Nat.ltb_spec (vlen v) idx); [lia|].
      destruct (wf_cases B HB v H) as [(Hr & HL & Hh)|[(Hr & HL & Hh)|(r & Hr & P & HL & L1 & L2 & Hb & Hc)]];
        try lia.
      unfold to_list. rewrite Hr.
      assert (Hm : idx mod cap (height v) = idx) by (apply Nat.mod_small; lia).
      destruct (node_map_from_spec _ _ r idx bd P ltac:(rewrite Hm; lia)) as (r' & -> & Sr & Lr).
      rewrite Hm in Lr. eexists. split; [reflexivity|]. cbn [root vlen height]. split; [|auto].
      apply wf_intro; [exact HB|apply Sr; exact P| |exact Hb].
      rewrite Lr, app_length, map_take_length, firstn_length, skipn_length. lia.
  - intros Hgt. destruct (Nat.eqb_spec idx (vlen v)); [lia|].
    destruct (Nat.ltb_spec (vlen v) idx); [reflexivity|lia].
Qed.

End IterMut.
