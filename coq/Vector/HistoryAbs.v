(* The abstraction from implementation-shaped history states to specification states (every
   handle is replaced by the list it denotes) and the state invariant.  Definitions only. *)
From Coq Require Import List.
Import ListNotations.
From NV Require Import Vector.Model Vector.History Vector.Wf.

(* ---- the abstraction and the state invariant *)
Definition abs (st : istate) : sstate :=
  mkS (map (option_map (@to_list nat)) (ivs st)) (map (option_map (@sl_list nat)) (iss st)).

Definition okv (B : nat) (o : option (@vec nat)) : Prop :=
  match o with Some v => wf B v | None => True end.
Definition oks (B : nat) (o : option (@slice nat)) : Prop :=
  match o with Some s => swf B s | None => True end.
Definition all_wf (B : nat) (st : istate) : Prop :=
  Forall (okv B) (ivs st) /\ Forall (oks B) (iss st).

(* what one step of the two runs must agree on *)
Definition step_rel (B : nat) (x : res * istate) (y : res * sstate) : Prop :=
  fst x = fst y /\ abs (snd x) = snd y /\ all_wf B (snd x).

