(* T1: the vector operations over an explicit heap of reference-counted nodes.

   [Rc<Node>] is a location in a heap of cells; every cell carries its strong count.  [make_mut]
   is [Rc::make_mut]: a cell whose count is 1 is mutated in place, otherwise the node is copied into
   a fresh cell (count 1), the counts of its children are bumped (cloning a node clones the child
   [Rc]s), and the slot that held the reference drops it (count - 1) and is retargeted.

   This file covers [new], [clone], [get], [set] (including the one-past-the-end case that creates
   a spine), [add_level] and [push].  [pop]/[truncate]/[extend] and [Drop] are not modelled on the
   heap (they are in Model.v at value level).  Definitions only; proofs in RcHeapProofs.v. *)
From Coq Require Import List Arith Bool PeanoNat.
Import ListNotations.
From NV Require Import Vector.Model.

Section RcHeap.
Context {A : Type}.
Variable B : nat.

Inductive hnode : Type :=
| HLeaf (data : list A)
| HInt (children : list nat).

(* [clevel] is a ghost field: the height of the node in its tree (a leaf has level 0) *)
Record cell : Type := mkCell { cnode : hnode; crc : nat; clevel : nat }.
Definition heap := list cell.

Definition kids (n : hnode) : list nat :=
  match n with HInt ch => ch | HLeaf _ => [] end.

Definition incr (hp : heap) (l : nat) : heap :=
  match nth_error hp l with
  | Some c => list_set hp l (mkCell (cnode c) (S (crc c)) (clevel c))
  | None => hp
  end.

Definition decr (hp : heap) (l : nat) : heap :=
  match nth_error hp l with
  | Some c => list_set hp l (mkCell (cnode c) (crc c - 1) (clevel c))
  | None => hp
  end.

Definition set_node (hp : heap) (l : nat) (n : hnode) : heap :=
  match nth_error hp l with
  | Some c => list_set hp l (mkCell n (crc c) (clevel c))
  | None => hp
  end.

(* [Rc::new(node)] *)
Definition alloc (hp : heap) (n : hnode) (lvl : nat) : heap * nat :=
  (hp ++ [mkCell n 1 lvl], length hp).

(* [Rc::make_mut(slot)] where the slot currently holds location [c]: the new heap and the location
   the slot holds afterwards (the caller stores it) *)
Definition make_mut (hp : heap) (c : nat) : option (heap * nat) :=
  match nth_error hp c with
  | Some cl =>
      if crc cl =? 1 then Some (hp, c)
      else
        let hp1 := fold_left incr (kids (cnode cl)) hp in
        let hp2 := decr hp1 c in
        Some (alloc hp2 (cnode cl) (clevel cl))
  | None => None
  end.

(* a fresh spine holding one element (the [else] branch of [Node::set]) *)
Fixpoint alloc_spine (h : nat) (hp : heap) (x : A) : heap * nat :=
  match h with
  | 0 => alloc hp (HLeaf [x]) 0
  | S h' => let (hp1, s) := alloc_spine h' hp x in alloc hp1 (HInt [s]) h
  end.

(* [Node::set] on the uniquely owned cell [l] *)
Fixpoint hset (h : nat) (hp : heap) (l idx : nat) (x : A) : option heap :=
  match nth_error hp l with
  | None => None
  | Some cl =>
      match h, cnode cl with
      | 0, HLeaf data =>
          let i := idx mod B in
          if i <? length data then Some (set_node hp l (HLeaf (list_set data i x)))
          else if i =? length data then Some (set_node hp l (HLeaf (data ++ [x])))
          else None
      | S h', HInt ch =>
          let b := extract_index B idx h in
          if b <? length ch then
            match nth_error ch b with
            | Some c =>
                match make_mut hp c with
                | Some (hp1, c') => hset h' (set_node hp1 l (HInt (list_set ch b c'))) c' idx x
                | None => None
                end
            | None => None
            end
          else if b =? length ch then
            let (hp1, s) := alloc_spine h' hp x in
            Some (set_node hp1 l (HInt (ch ++ [s])))
          else None
      | _, _ => None
      end
  end.

(* [Node::get] *)
Fixpoint hget (h : nat) (hp : heap) (l idx : nat) : option A :=
  match nth_error hp l with
  | None => None
  | Some cl =>
      match h, cnode cl with
      | 0, HLeaf data => nth_error data (idx mod B)
      | S h', HInt ch =>
          match nth_error ch (extract_index B idx h) with
          | Some c => hget h' hp c idx
          | None => None
          end
      | _, _ => None
      end
  end.

(* ---- handles *)
Record hvec : Type := mkHVec { hroot : option nat; hvlen : nat; hheight : nat }.

Definition hvnew : hvec := mkHVec None 0 0.

(* [Vector::clone]: the root [Rc] is cloned *)
Definition hvclone (hp : heap) (v : hvec) : heap * hvec :=
  match hroot v with
  | Some r => (incr hp r, v)
  | None => (hp, v)
  end.

Definition hvget (hp : heap) (v : hvec) (idx : nat) : option A :=
  if hvlen v <=? idx then None
  else match hroot v with
       | Some r => hget (hheight v) hp r idx
       | None => None
       end.

Definition hvset (hp : heap) (v : hvec) (idx : nat) (x : A) : option (heap * hvec) :=
  if hvlen v <=? idx then None
  else match hroot v with
       | Some r =>
           match make_mut hp r with
           | Some (hp1, r') =>
               match hset (hheight v) hp1 r' idx x with
               | Some hp2 => Some (hp2, mkHVec (Some r') (hvlen v) (hheight v))
               | None => None
               end
           | None => None
           end
       | None => Some (hp, v)
       end.

Definition hv_is_full (v : hvec) : bool :=
  match hroot v with
  | None => true
  | Some _ => hvlen v =? B ^ (hheight v + 1)
  end.

(* [add_level]: the old root moves into a fresh interior node (its count is unchanged) *)
Definition hv_add_level (hp : heap) (v : hvec) : heap * hvec :=
  match hroot v with
  | None => let (hp1, r) := alloc hp (HLeaf []) 0 in (hp1, mkHVec (Some r) (hvlen v) (hheight v))
  | Some r0 =>
      let (hp1, r) := alloc hp (HInt [r0]) (hheight v + 1) in
      (hp1, mkHVec (Some r) (hvlen v) (hheight v + 1))
  end.

Definition hvpush (hp : heap) (v : hvec) (x : A) : option (heap * hvec) :=
  let (hp0, v1) := if hv_is_full v then hv_add_level hp v else (hp, v) in
  match hroot v1 with
  | Some r =>
      match make_mut hp0 r with
      | Some (hp1, r') =>
          match hset (hheight v1) hp1 r' (hvlen v1) x with
          | Some hp2 => Some (hp2, mkHVec (Some r') (hvlen v1 + 1) (hheight v1))
          | None => None
          end
      | None => None
      end
  | None => None
  end.

(* ---- reading a tree out of the heap *)
Fixpoint all_some {X} (l : list (option X)) : option (list X) :=
  match l with
  | [] => Some []
  | Some x :: t => match all_some t with Some r => Some (x :: r) | None => None end
  | None :: _ => None
  end.

Fixpoint habs (h : nat) (hp : heap) (l : nat) : option (@node A) :=
  match nth_error hp l with
  | None => None
  | Some cl =>
      match h, cnode cl with
      | 0, HLeaf d => Some (Leaf d)
      | S h', HInt ch =>
          match all_some (map (habs h' hp) ch) with
          | Some ns => Some (Interior ns)
          | None => None
          end
      | _, _ => None
      end
  end.

(* the value-level vector a handle denotes *)
Definition vabs (hp : heap) (v : hvec) : option (@vec A) :=
  match hroot v with
  | None => Some (mkVec None (hvlen v) (hheight v))
  | Some r =>
      match habs (hheight v) hp r with
      | Some n => Some (mkVec (Some n) (hvlen v) (hheight v))
      | None => None
      end
  end.

(* all locations a tree of height [h] rooted at [l] reads *)
Fixpoint reach (h : nat) (hp : heap) (l : nat) : list nat :=
  l :: match h with
       | 0 => []
       | S h' => match nth_error hp l with
                 | Some cl => flat_map (reach h' hp) (kids (cnode cl))
                 | None => []
                 end
       end.

(* ---- the invariant (used by the theorems of RcHeapProofs.v) *)
Definition cref (y : nat) (c : cell) : nat := count_occ Nat.eq_dec (kids (cnode c)) y.
(* number of child slots, over the whole heap, that hold location [y] *)
Definition hrefs (hp : heap) (y : nat) : nat := list_sum (map (cref y) hp).

(* reference counts are exact: the count of a cell is the number of child slots holding it plus the
   number of handle roots holding it; children live one level below their parent *)
Record inv (hp : heap) (roots : list nat) : Prop := mkInv {
  inv_rc : forall l c, nth_error hp l = Some c ->
           crc c = hrefs hp l + count_occ Nat.eq_dec roots l;
  inv_kids : forall l c k, nth_error hp l = Some c -> In k (kids (cnode c)) ->
             exists ck, nth_error hp k = Some ck /\ S (clevel ck) = clevel c;
  inv_roots : forall r, In r roots -> r < length hp
}.


Definition lvat (hp : heap) (l : nat) : option nat := option_map clevel (nth_error hp l).

Definition root_list (v : hvec) : list nat := match hroot v with Some r => [r] | None => [] end.
Definition roots_of (hs : list hvec) : list nat := flat_map root_list hs.

(* a handle's root lives at the level the handle records as its height *)
Definition hwf (hp : heap) (v : hvec) : Prop :=
  match hroot v with Some r => lvat hp r = Some (hheight v) | None => hheight v = 0 end.

(* the state invariant: exact counts w.r.t. the live handles, handles well-levelled *)
Definition hinv (hp : heap) (hs : list hvec) : Prop :=
  inv hp (roots_of hs) /\ Forall (hwf hp) hs.

End RcHeap.
