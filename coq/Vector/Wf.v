(* Well-formedness of the persistent-vector trees, of vectors and of slices, and the list
   abstraction of a slice.  Definitions only; the proofs are in the *Proofs.v files. *)
From Coq Require Import List Arith Bool Lia.
Import ListNotations.
From NV Require Import Vector.Model.

Section Wf.
Context {A : Type}.
Variable B : nat.
Notation node := (@node A).
Notation vec := (@vec A).
Notation slice := (@slice A).

(* A non-empty list of children in which every child but the last one satisfies [P false] and the
   last one satisfies [P rm]. *)
Inductive pkl (P : bool -> node -> Prop) (rm : bool) : list node -> Prop :=
| pkl_last : forall c, P rm c -> pkl P rm [c]
| pkl_cons : forall c l, P false c -> pkl P rm l -> pkl P rm (c :: l).

(* [pk h rm n]: [n] is a subtree of uniform depth [h] (leaves at depth exactly [h]) that is packed
   to the left.  Every chunk (leaf data, interior children) is non-empty and has at most [B]
   entries.  With [rm = false] the subtree is complete: every chunk in it has exactly [B] entries.
   With [rm = true] the subtree lies on the right edge of the tree: only the chunks on its own
   right edge may be partially filled, everything to the left of that edge is complete. *)
Fixpoint pk (h : nat) (rm : bool) (n : node) : Prop :=
  match h, n with
  | 0, Leaf d => 1 <= length d /\ length d <= B /\ (rm = false -> length d = B)
  | S h', Interior ch => length ch <= B /\ (rm = false -> length ch = B) /\ pkl (pk h') rm ch
  | _, _ => False
  end.

(* number of elements a complete subtree of height [h] holds *)
Definition cap (h : nat) : nat := B ^ S h.

Definition root_children_ok (n : node) : Prop :=
  match n with Interior ch => 2 <= length ch | Leaf _ => True end.

(* The invariant of [Vector].  The only tree that is not [pk] is the empty leaf left behind at the
   root by [pop]/[truncate] down to length 0 ([Vector::new] has no root at all). *)
Definition wf (v : vec) : Prop :=
  match root v with
  | None => vlen v = 0 /\ height v = 0
  | Some r =>
      vlen v = length (node_list (height v) r)
      /\ height v = height_for_length B (vlen v)
      /\ ((height v = 0 /\ r = Leaf []) \/ (pk (height v) true r /\ root_children_ok r))
  end.

(* The invariant of [Slice] and the list it denotes. *)
Definition swf (s : slice) : Prop :=
  wf (svec s) /\ sstart s <= send s /\ send s <= vlen (svec s).

Definition sl_list (s : slice) : list A :=
  firstn (send s - sstart s) (skipn (sstart s) (to_list (svec s))).

End Wf.
