(* T1 proofs: reference counts are exact, [make_mut]/[set]/[push]/[clone] over the heap refine the
   value-level operations of Model.v, and an operation through one handle leaves the abstraction
   of every other handle unchanged (frame). *)
From Coq Require Import List Arith Bool Lia.
Import ListNotations.
From NV Require Import Vector.Model Vector.RcHeap Vector.ListLemmas.

(* ------------------------------------------------------------------ lists *)
Lemma list_sum_cons : forall a l, list_sum (a :: l) = a + list_sum l.
Proof. reflexivity. Qed.

Section MoreLists.
Context {X : Type}.

Lemma nth_error_list_set_eq : forall (l : list X) i x, i < length l -> nth_error (list_set l i x) i = Some x.
Proof.
  induction l as [|a l IH]; intros [|i] x H; cbn [length] in H; try lia; cbn [list_set nth_error]; auto.
  apply IH. lia.
Qed.

Lemma nth_error_list_set_neq : forall (l : list X) i j x, i <> j -> nth_error (list_set l i x) j = nth_error l j.
Proof.
  induction l as [|a l IH]; intros [|i] [|j] x H; cbn [list_set nth_error]; auto; try congruence.
Qed.

Lemma list_set_same : forall (l : list X) i x, nth_error l i = Some x -> list_set l i x = l.
Proof.
  induction l as [|a l IH]; intros [|i] x H; cbn [nth_error] in H; try discriminate; cbn [list_set].
  - injection H as ->. reflexivity.
  - rewrite IH by exact H. reflexivity.
Qed.

Lemma list_sum_set : forall (f : X -> nat) (l : list X) i c c', nth_error l i = Some c ->
  list_sum (map f (list_set l i c')) + f c = list_sum (map f l) + f c'.
Proof.
  intros f. induction l as [|a l IH]; intros [|i] c c' H; cbn [nth_error] in H; try discriminate;
    cbn [list_set map]; rewrite ?list_sum_cons.
  - injection H as ->. lia.
  - specialize (IH i c c' H). lia.
Qed.

Lemma list_sum_two : forall (f : X -> nat) (l : list X) i j ci cj, i <> j ->
  nth_error l i = Some ci -> nth_error l j = Some cj -> f ci + f cj <= list_sum (map f l).
Proof.
  intros f. induction l as [|a l IH]; intros [|i] [|j] ci cj Hne Hi Hj; cbn [nth_error] in *;
    try discriminate; try congruence; cbn [map]; rewrite ?list_sum_cons.
  - injection Hi as ->. clear IH Hne.
    revert j Hj. induction l as [|b l IH]; intros [|j] Hj; cbn [nth_error] in Hj; try discriminate;
      cbn [map]; rewrite ?list_sum_cons.
    + injection Hj as ->. lia.
    + specialize (IH j Hj). lia.
  - injection Hj as ->. clear IH Hne.
    revert i Hi. induction l as [|b l IH]; intros [|i] Hi; cbn [nth_error] in Hi; try discriminate;
      cbn [map]; rewrite ?list_sum_cons.
    + injection Hi as ->. lia.
    + specialize (IH i Hi). lia.
  - assert (i <> j) by congruence. specialize (IH i j ci cj H Hi Hj). lia.
Qed.

Lemma list_sum_one : forall (f : X -> nat) (l : list X) i ci,
  nth_error l i = Some ci -> f ci <= list_sum (map f l).
Proof.
  intros f. induction l as [|a l IH]; intros [|i] ci Hi; cbn [nth_error] in *; try discriminate;
    cbn [map]; rewrite ?list_sum_cons.
  - injection Hi as ->. lia.
  - specialize (IH i ci Hi). lia.
Qed.

Lemma list_sum_zero : forall (f : X -> nat) (l : list X), (forall c, In c l -> f c = 0) -> list_sum (map f l) = 0.
Proof.
  intros f l H. induction l as [|a l IH]; [reflexivity|]. cbn [map]; rewrite ?list_sum_cons.
  rewrite (H a (or_introl eq_refl)), IH; [reflexivity|]. intros c Hc. apply H. right. exact Hc.
Qed.

Lemma nth_error_ext : forall (l l' : list X), (forall n, nth_error l n = nth_error l' n) -> l = l'.
Proof.
  induction l as [|a l IH]; intros [|b l'] H; [reflexivity|specialize (H 0); discriminate|specialize (H 0); discriminate|].
  pose proof (H 0) as H0. cbn in H0. injection H0 as ->. f_equal. apply IH. intros n. exact (H (S n)).
Qed.

End MoreLists.

Lemma count_occ_list_set : forall (l : list nat) i c c' y, nth_error l i = Some c ->
  count_occ Nat.eq_dec (list_set l i c') y + (if Nat.eq_dec c y then 1 else 0)
  = count_occ Nat.eq_dec l y + (if Nat.eq_dec c' y then 1 else 0).
Proof.
  induction l as [|a l IH]; intros [|i] c c' y H; cbn [nth_error] in H; try discriminate;
    cbn [list_set count_occ].
  - injection H as ->. destruct (Nat.eq_dec c y), (Nat.eq_dec c' y); lia.
  - specialize (IH i c c' y H). destruct (Nat.eq_dec a y); lia.
Qed.

Lemma count_occ_two : forall (l : list nat) i j y, i <> j -> nth_error l i = Some y -> nth_error l j = Some y ->
  2 <= count_occ Nat.eq_dec l y.
Proof.
  intros l i j y Hne Hi Hj.
  pose proof (list_sum_two (fun a => if Nat.eq_dec a y then 1 else 0) l i j y y Hne Hi Hj) as H.
  cbn beta in H. destruct (Nat.eq_dec y y); [|congruence].
  assert (E : forall l0, list_sum (map (fun a => if Nat.eq_dec a y then 1 else 0) l0) = count_occ Nat.eq_dec l0 y).
  { induction l0 as [|a l0 IH]; [reflexivity|]. cbn [map count_occ]; rewrite ?list_sum_cons. rewrite IH.
    destruct (Nat.eq_dec a y); lia. }
  rewrite E in H. exact H.
Qed.

(* ------------------------------------------------------------------ heap primitives *)
Section Heap.
Context {A : Type}.
Variable B : nat.
Notation heap := (@heap A).
Notation cell := (@cell A).
Notation hnode := (@hnode A).


(* the three views of a location *)
Definition nodeat (hp : heap) (l : nat) : option hnode := option_map (@cnode A) (nth_error hp l).
Definition rcat (hp : heap) (l : nat) : option nat := option_map (@crc A) (nth_error hp l).

Lemma incr_length : forall (hp : heap) l, length (incr hp l) = length hp.
Proof. intros. unfold incr. destruct (nth_error hp l); [apply list_set_length|reflexivity]. Qed.

Lemma decr_length : forall (hp : heap) l, length (decr hp l) = length hp.
Proof. intros. unfold decr. destruct (nth_error hp l); [apply list_set_length|reflexivity]. Qed.

Lemma set_node_length : forall (hp : heap) l n, length (set_node hp l n) = length hp.
Proof. intros. unfold set_node. destruct (nth_error hp l); [apply list_set_length|reflexivity]. Qed.

Lemma nth_incr : forall (hp : heap) l y,
  nth_error (incr hp l) y
  = if Nat.eq_dec y l then option_map (fun c => mkCell (cnode c) (S (crc c)) (clevel c)) (nth_error hp l)
    else nth_error hp y.
Proof.
  intros hp l y. unfold incr. destruct (nth_error hp l) as [c|] eqn:E.
  - destruct (Nat.eq_dec y l) as [->|N].
    + rewrite nth_error_list_set_eq; [reflexivity|]. apply nth_error_Some. congruence.
    + apply nth_error_list_set_neq. congruence.
  - destruct (Nat.eq_dec y l) as [->|N]; [exact E|reflexivity].
Qed.

Lemma nth_decr : forall (hp : heap) l y,
  nth_error (decr hp l) y
  = if Nat.eq_dec y l then option_map (fun c => mkCell (cnode c) (crc c - 1) (clevel c)) (nth_error hp l)
    else nth_error hp y.
Proof.
  intros hp l y. unfold decr. destruct (nth_error hp l) as [c|] eqn:E.
  - destruct (Nat.eq_dec y l) as [->|N].
    + rewrite nth_error_list_set_eq; [reflexivity|]. apply nth_error_Some. congruence.
    + apply nth_error_list_set_neq. congruence.
  - destruct (Nat.eq_dec y l) as [->|N]; [exact E|reflexivity].
Qed.

Lemma nth_set_node : forall (hp : heap) l n y,
  nth_error (set_node hp l n) y
  = if Nat.eq_dec y l then option_map (fun c => mkCell n (crc c) (clevel c)) (nth_error hp l)
    else nth_error hp y.
Proof.
  intros hp l n y. unfold set_node. destruct (nth_error hp l) as [c|] eqn:E.
  - destruct (Nat.eq_dec y l) as [->|N].
    + rewrite nth_error_list_set_eq; [reflexivity|]. apply nth_error_Some. congruence.
    + apply nth_error_list_set_neq. congruence.
  - destruct (Nat.eq_dec y l) as [->|N]; [exact E|reflexivity].
Qed.

Lemma nth_alloc : forall hp (c : cell) y,
  nth_error (hp ++ [c]) y
  = if y <? length hp then nth_error hp y else if y =? length hp then Some c else None.
Proof.
  intros hp c y. destruct (Nat.ltb_spec y (length hp)) as [H|H].
  - apply nth_error_app1. exact H.
  - rewrite nth_error_app2 by exact H. destruct (Nat.eqb_spec y (length hp)) as [->|N].
    + rewrite Nat.sub_diag. reflexivity.
    + destruct (y - length hp) as [|k] eqn:E; [lia|]. cbn. destruct k; reflexivity.
Qed.

(* bumping the counts of a list of children *)
Lemma nth_incr_all : forall ks (hp : heap) y,
  nth_error (fold_left incr ks hp) y
  = option_map (fun c => mkCell (cnode c) (crc c + count_occ Nat.eq_dec ks y) (clevel c)) (nth_error hp y).
Proof.
  induction ks as [|k ks IH]; intros hp y; cbn [fold_left count_occ].
  - destruct (nth_error hp y) as [[n r lv]|]; cbn; [rewrite Nat.add_0_r|]; reflexivity.
  - rewrite IH, nth_incr. destruct (Nat.eq_dec y k) as [->|N].
    + destruct (Nat.eq_dec k k); [|congruence].
      destruct (nth_error hp k) as [[n r lv]|]; cbn; [|reflexivity]. do 2 f_equal. lia.
    + destruct (Nat.eq_dec k y); [congruence|]. reflexivity.
Qed.

Lemma incr_all_length : forall ks (hp : heap), length (fold_left incr ks hp) = length hp.
Proof.
  induction ks as [|k ks IH]; intros hp; cbn [fold_left]; [reflexivity|]. rewrite IH. apply incr_length.
Qed.

(* [hrefs] only looks at the nodes *)
Lemma hrefs_nodes : forall (hp hp' : heap) y, map (@cnode A) hp' = map (@cnode A) hp -> hrefs hp' y = hrefs hp y.
Proof.
  intros hp hp' y H. unfold hrefs.
  assert (E : forall h : heap, map (cref y) h = map (fun n => count_occ Nat.eq_dec (kids n) y) (map (@cnode A) h)).
  { intros h. rewrite map_map. reflexivity. }
  rewrite !E, H. reflexivity.
Qed.

Lemma nodes_ext : forall hp hp' : heap, length hp' = length hp ->
  (forall y, nodeat hp' y = nodeat hp y) -> map (@cnode A) hp' = map (@cnode A) hp.
Proof.
  intros hp hp' L H. apply nth_error_ext. intros y. rewrite !nth_error_map. apply H.
Qed.

End Heap.

(* ------------------------------------------------------------------ invariant, reachability *)
Section Inv.
Context {A : Type}.
Variable B : nat.
Notation heap := (@heap A).
Notation cell := (@cell A).
Notation hnode := (@hnode A).

Lemma habs_unfold : forall h (hp : heap) l,
  habs h hp l = match nodeat hp l with
                | None => None
                | Some n => match h, n with
                            | 0, HLeaf d => Some (Leaf d)
                            | S h', HInt ch => match all_some (map (habs h' hp) ch) with
                                               | Some ns => Some (Interior ns)
                                               | None => None
                                               end
                            | _, _ => None
                            end
                end.
Proof.
  intros h hp l. unfold nodeat. destruct h; cbn [habs]; destruct (nth_error hp l); reflexivity.
Qed.

Lemma reach_unfold : forall h (hp : heap) l,
  reach h hp l = l :: match h with
                      | 0 => []
                      | S h' => match nodeat hp l with
                                | Some n => flat_map (reach h' hp) (kids n)
                                | None => []
                                end
                      end.
Proof.
  intros h hp l. unfold nodeat. destruct h; cbn [reach]; [reflexivity|].
  destruct (nth_error hp l); reflexivity.
Qed.

Lemma reach_self : forall h (hp : heap) l, In l (reach h hp l).
Proof. intros. rewrite reach_unfold. left. reflexivity. Qed.

Lemma reach_kid : forall h (hp : heap) l n k y, nodeat hp l = Some n -> In k (kids n) ->
  In y (reach h hp k) -> In y (reach (S h) hp l).
Proof.
  intros h hp l n k y Hn Hk Hy. rewrite reach_unfold, Hn. right. apply in_flat_map. eauto.
Qed.

Lemma reach_cases : forall h (hp : heap) l y, In y (reach h hp l) ->
  y = l \/ exists h' n k, h = S h' /\ nodeat hp l = Some n /\ In k (kids n) /\ In y (reach h' hp k).
Proof.
  intros h hp l y H. rewrite reach_unfold in H. destruct H as [H|H]; [left; congruence|right].
  destruct h as [|h']; [contradiction|]. destruct (nodeat hp l) as [n|] eqn:E; [|contradiction].
  apply in_flat_map in H. destruct H as (k & Hk & Hy). exists h', n, k. auto.
Qed.

(* the trees read from two heaps agree when the nodes agree on everything the tree reaches *)
Lemma habs_frame : forall h (hp hp' : heap) o,
  (forall y, In y (reach h hp o) -> nodeat hp' y = nodeat hp y) ->
  habs h hp' o = habs h hp o /\ reach h hp' o = reach h hp o.
Proof.
  induction h as [|h IH]; intros hp hp' o H.
  - rewrite !habs_unfold, !reach_unfold, (H o (reach_self _ _ _)). split; reflexivity.
  - rewrite !habs_unfold, !(reach_unfold (S h)), (H o (reach_self _ _ _)).
    destruct (nodeat hp o) as [n|] eqn:E; [|split; reflexivity].
    assert (K : forall k, In k (kids n) -> habs h hp' k = habs h hp k /\ reach h hp' k = reach h hp k).
    { intros k Hk. apply IH. intros y Hy. apply H. eapply reach_kid; eauto. }
    split.
    + destruct n as [d|ch]; [reflexivity|]. cbn [kids] in K.
      replace (map (habs h hp') ch) with (map (habs h hp) ch); [reflexivity|].
      apply map_ext_in. intros k Hk. symmetry. apply K. exact Hk.
    + f_equal. clear E. induction (kids n) as [|k ks IHk]; [reflexivity|]. cbn [flat_map].
      rewrite (proj2 (K k (or_introl eq_refl))). f_equal. apply IHk. intros k' Hk'. apply K. right. exact Hk'.
Qed.

Lemma reach_pred : forall h (hp : heap) o y, In y (reach h hp o) ->
  y = o \/ exists p n, In p (reach h hp o) /\ nodeat hp p = Some n /\ In y (kids n).
Proof.
  induction h as [|h IH]; intros hp o y H; destruct (reach_cases _ _ _ _ H) as [E|(h' & n & k & Eh & Hn & Hk & Hy)];
    auto; try discriminate.
  injection Eh as <-. right. destruct (IH hp k y Hy) as [->|(p & np & Hp & Hnp & Hyp)].
  - exists o, n. split; [apply reach_self|auto].
  - exists p, np. split; [eapply reach_kid; eauto|auto].
Qed.

Section WithInv.
Variables (hp : heap) (roots : list nat).
Hypothesis I : inv hp roots.

Lemma nodeat_Some : forall l n, nodeat hp l = Some n -> exists c, nth_error hp l = Some c /\ cnode c = n.
Proof. unfold nodeat. intros l n H. destruct (nth_error hp l) as [c|]; [|discriminate]. injection H as <-. eauto. Qed.

Lemma kid_level : forall l n k ll, nodeat hp l = Some n -> In k (kids n) -> lvat hp l = Some ll ->
  exists lk, lvat hp k = Some lk /\ S lk = ll.
Proof.
  intros l n k ll Hn Hk Hl. destruct (nodeat_Some _ _ Hn) as (c & Ec & <-).
  destruct (inv_kids _ _ I l c k Ec Hk) as (ck & Eck & Hlv).
  unfold lvat in *. rewrite Ec in Hl. rewrite Eck. cbn in *. injection Hl as <-. eauto.
Qed.

Lemma reach_alloc : forall h o y, o < length hp -> In y (reach h hp o) -> y < length hp.
Proof.
  induction h as [|h IH]; intros o y Ho H; destruct (reach_cases _ _ _ _ H) as [E|(h' & n & k & Eh & Hn & Hk & Hy)];
    try (subst; assumption); try discriminate.
  injection Eh as <-. apply (IH k y); [|exact Hy].
  destruct (nodeat_Some _ _ Hn) as (c & Ec & <-).
  destruct (inv_kids _ _ I o c k Ec Hk) as (ck & Eck & _). apply nth_error_Some. congruence.
Qed.

(* everything strictly below the root of a tree lives at a strictly lower level *)
Lemma reach_level : forall h o y lo, lvat hp o = Some lo -> In y (reach h hp o) ->
  y = o \/ exists ly, lvat hp y = Some ly /\ ly < lo.
Proof.
  induction h as [|h IH]; intros o y lo Hlo H; destruct (reach_cases _ _ _ _ H) as [E|(h' & n & k & Eh & Hn & Hk & Hy)];
    auto; try discriminate.
  injection Eh as <-. right.
  destruct (kid_level _ _ _ _ Hn Hk Hlo) as (lk & Hlk & Elk).
  destruct (IH k y lk Hlk Hy) as [->|(ly & Hly & Hlt)]; [exists lk|exists ly]; split; auto; lia.
Qed.

Lemma held_rc : forall p n y, nodeat hp p = Some n -> In y (kids n) ->
  exists cy, nth_error hp y = Some cy /\ 1 <= hrefs hp y /\ 1 <= crc cy.
Proof.
  intros p n y Hn Hy. destruct (nodeat_Some _ _ Hn) as (c & Ec & <-).
  destruct (inv_kids _ _ I p c y Ec Hy) as (cy & Ecy & _). exists cy. split; [exact Ecy|].
  assert (H1 : 1 <= hrefs hp y).
  { unfold hrefs. pose proof (list_sum_one (cref y) hp p c Ec) as H. unfold cref at 1 in H.
    pose proof (proj1 (count_occ_In Nat.eq_dec _ _) Hy). lia. }
  split; [exact H1|]. rewrite (inv_rc _ _ I y cy Ecy). lia.
Qed.

Lemma two_holders : forall p l np nl y, p <> l -> nodeat hp p = Some np -> nodeat hp l = Some nl ->
  In y (kids np) -> In y (kids nl) -> 2 <= hrefs hp y.
Proof.
  intros p l np nl y Hne Hp Hl Hyp Hyl.
  destruct (nodeat_Some _ _ Hp) as (cp & Ecp & <-). destruct (nodeat_Some _ _ Hl) as (cl & Ecl & <-).
  pose proof (list_sum_two (cref y) hp p l cp cl Hne Ecp Ecl) as H. unfold hrefs.
  unfold cref at 1 2 in H.
  pose proof (proj1 (count_occ_In Nat.eq_dec _ _) Hyp). pose proof (proj1 (count_occ_In Nat.eq_dec _ _) Hyl). lia.
Qed.

(* ---- the cells an in-place [set] through [l] may write: [l] and, below it along [idx], the
   maximal chain of cells whose count is 1 *)
Fixpoint owned (h : nat) (l idx : nat) : list nat :=
  l :: match h with
       | 0 => []
       | S h' =>
           match nodeat hp l with
           | Some (HInt ch) =>
               match nth_error ch (extract_index B idx h) with
               | Some c => match rcat hp c with Some 1 => owned h' c idx | _ => [] end
               | None => []
               end
           | _ => []
           end
       end.

Lemma owned_reach : forall h l idx y, In y (owned h l idx) -> In y (reach h hp l).
Proof.
  induction h as [|h IH]; intros l idx y H; cbn [owned] in H; destruct H as [<-|H]; try apply reach_self;
    try contradiction.
  destruct (nodeat hp l) as [[d|ch]|] eqn:E; try contradiction.
  destruct (nth_error ch (extract_index B idx (S h))) as [c|] eqn:Ec; [|contradiction].
  destruct (rcat hp c) as [[|[|r]]|]; try contradiction.
  eapply reach_kid; [exact E| |apply (IH _ _ _ H)]. cbn [kids]. eapply nth_error_In. exact Ec.
Qed.

Lemma owned_tl_held : forall h l idx y, In y (tl (owned h l idx)) -> rcat hp y = Some 1 /\ 1 <= hrefs hp y.
Proof.
  induction h as [|h IH]; intros l idx y H; cbn [owned tl] in H; [contradiction|].
  destruct (nodeat hp l) as [[d|ch]|] eqn:E; try contradiction.
  destruct (nth_error ch (extract_index B idx (S h))) as [c|] eqn:Ec; [|contradiction].
  destruct (rcat hp c) as [[|[|r]]|] eqn:Er; try contradiction.
  destruct h as [|h']; cbn [owned] in H.
  - destruct H as [<-|[]]. split; [exact Er|].
    destruct (held_rc l (HInt ch) c E (nth_error_In _ _ Ec)) as (cy & _ & H1 & _). exact H1.
  - destruct H as [<-|H].
    + split; [exact Er|].
      destruct (held_rc l (HInt ch) c E (nth_error_In _ _ Ec)) as (cy & _ & H1 & _). exact H1.
    + apply (IH c idx y). cbn [owned tl]. exact H.
Qed.

(* A tree that does not contain [l] contains none of the cells owned through [l] (unless it is
   rooted at one of them): a second path to an owned cell would be a second reference to it. *)
Lemma owned_foreign : forall h l idx ho o,
  ~ In l (reach ho hp o) ->
  (forall y, In y (tl (owned h l idx)) -> y <> o) ->
  forall y, In y (owned h l idx) -> ~ In y (reach ho hp o).
Proof.
  induction h as [|h IH]; intros l idx ho o Hl Hne y Hy; cbn [owned] in Hy; destruct Hy as [<-|Hy];
    try exact Hl; try contradiction.
  cbn [owned tl] in Hne.
  destruct (nodeat hp l) as [[d|ch]|] eqn:E; try contradiction.
  destruct (nth_error ch (extract_index B idx (S h))) as [c|] eqn:Ec; [|contradiction].
  destruct (rcat hp c) as [[|[|r]]|] eqn:Er; try contradiction.
  assert (Hc : ~ In c (reach ho hp o)).
  { intros Hin. destruct (reach_pred _ _ _ _ Hin) as [->|(p & np & Hp & Hnp & Hcp)].
    - apply (Hne o); [|reflexivity]. destruct h; cbn [owned]; left; reflexivity.
    - assert (p <> l) by (intros ->; contradiction).
      pose proof (two_holders p l np (HInt ch) c H Hnp E Hcp (nth_error_In _ _ Ec)) as H2.
      unfold rcat in Er. destruct (nth_error hp c) as [cc|] eqn:Ecc; [|discriminate].
      cbn in Er. injection Er as Er. pose proof (inv_rc _ _ I c cc Ecc). lia. }
  apply (IH c idx ho o Hc); [|exact Hy].
  intros y' Hy'. apply Hne. destruct h; cbn [owned tl] in *; [contradiction|]. right. exact Hy'.
Qed.

End WithInv.

End Inv.

(* ------------------------------------------------------------------ accounting under mutation *)
Section Account.
Context {A : Type}.
Variable B : nat.
Notation heap := (@heap A).
Notation cell := (@cell A).
Notation hnode := (@hnode A).

Lemma hrefs_app : forall (hp : heap) c y, hrefs (hp ++ [c]) y = hrefs hp y + cref y c.
Proof.
  intros. unfold hrefs. rewrite map_app, list_sum_app. cbn [map]. rewrite list_sum_cons. cbn. lia.
Qed.

Lemma hrefs_set_node : forall (hp : heap) l cl n y, nth_error hp l = Some cl ->
  hrefs (set_node hp l n) y + count_occ Nat.eq_dec (kids (cnode cl)) y
  = hrefs hp y + count_occ Nat.eq_dec (kids n) y.
Proof.
  intros hp l cl n y E. unfold set_node. rewrite E. unfold hrefs.
  exact (list_sum_set (cref y) hp l cl (mkCell n (crc cl) (clevel cl)) E).
Qed.

Lemma hrefs_same_nodes : forall (hp hp' : heap) y, length hp' = length hp ->
  (forall z, nodeat hp' z = nodeat hp z) -> hrefs hp' y = hrefs hp y.
Proof. intros hp hp' y L H. apply hrefs_nodes. apply nodes_ext; assumption. Qed.

(* no cell refers to an unallocated location *)
Lemma hrefs_fresh : forall (hp : heap) roots y, inv hp roots -> length hp <= y -> hrefs hp y = 0.
Proof.
  intros hp roots y I Hy. unfold hrefs. apply list_sum_zero. intros c Hc.
  unfold cref. apply count_occ_not_In. intros Hin.
  destruct (In_nth_error _ _ Hc) as (l & El).
  destruct (inv_kids _ _ I l c y El Hin) as (ck & Eck & _).
  assert (y < length hp) by (apply nth_error_Some; congruence). lia.
Qed.

Lemma roots_fresh : forall (hp : heap) roots y, inv hp roots -> length hp <= y ->
  count_occ Nat.eq_dec roots y = 0.
Proof.
  intros hp roots y I Hy. apply count_occ_not_In. intros Hin. pose proof (inv_roots _ _ I y Hin). lia.
Qed.

(* roots matter only as a multiset *)
Lemma inv_perm : forall (hp : heap) roots roots', inv hp roots ->
  (forall y, count_occ Nat.eq_dec roots' y = count_occ Nat.eq_dec roots y) -> inv hp roots'.
Proof.
  intros hp roots roots' I H. constructor.
  - intros l c E. rewrite H. apply (inv_rc _ _ I l c E).
  - apply (inv_kids _ _ I).
  - intros r Hr. apply (inv_roots _ _ I). apply (count_occ_In Nat.eq_dec). rewrite <- H.
    apply (count_occ_In Nat.eq_dec). exact Hr.
Qed.

(* [Rc::new(node)] where the node's child references are moved out of handles *)
Lemma inv_alloc : forall (hp : heap) roots n0 lv,
  inv hp (kids n0 ++ roots) ->
  (forall k, In k (kids n0) -> exists ck, nth_error hp k = Some ck /\ S (clevel ck) = lv) ->
  inv (hp ++ [mkCell n0 1 lv]) (length hp :: roots).
Proof.
  intros hp roots n0 lv I Hk. constructor.
  - intros l c E. rewrite nth_alloc in E. rewrite hrefs_app. unfold cref. cbn [cnode count_occ].
    destruct (Nat.ltb_spec l (length hp)) as [Hl|Hl].
    + rewrite (inv_rc _ _ I l c E), count_occ_app. destruct (Nat.eq_dec (length hp) l); lia.
    + destruct (Nat.eqb_spec l (length hp)) as [->|N]; [|discriminate]. injection E as <-. cbn [crc].
      rewrite (hrefs_fresh hp _ (length hp) I (le_n _)).
      pose proof (roots_fresh hp _ (length hp) I (le_n _)) as R. rewrite count_occ_app in R.
      destruct (Nat.eq_dec (length hp) (length hp)); [|congruence]. lia.
  - intros l c k E Hin. rewrite nth_alloc in E.
    assert (Hold : forall k', (exists ck, nth_error hp k' = Some ck /\ S (clevel ck) = clevel c) ->
                   exists ck, nth_error (hp ++ [mkCell n0 1 lv]) k' = Some ck /\ S (clevel ck) = clevel c).
    { intros k' (ck & Eck & Hlv). exists ck. split; [|exact Hlv]. rewrite nth_alloc.
      assert (k' < length hp) by (apply nth_error_Some; congruence).
      destruct (Nat.ltb_spec k' (length hp)); [exact Eck|lia]. }
    destruct (Nat.ltb_spec l (length hp)) as [Hl|Hl].
    + apply Hold. apply (inv_kids _ _ I l c k E Hin).
    + destruct (Nat.eqb_spec l (length hp)) as [->|N]; [|discriminate]. injection E as <-.
      cbn [cnode clevel] in *. apply Hold. apply Hk. exact Hin.
  - intros r [<-|Hr]; rewrite app_length; cbn [length]; [lia|].
    pose proof (inv_roots _ _ I r ltac:(apply in_or_app; right; exact Hr)). lia.
Qed.

(* a reference held by a handle is moved into a new last child slot of cell [l] *)
Lemma inv_adopt : forall (hp : heap) roots l cl ch s cs,
  inv hp (s :: roots) -> nth_error hp l = Some cl -> cnode cl = HInt ch ->
  nth_error hp s = Some cs -> S (clevel cs) = clevel cl ->
  inv (set_node hp l (HInt (ch ++ [s]))) roots.
Proof.
  intros hp roots l cl ch s cs I El Ech Es Hlv. constructor.
  - intros y c E. rewrite nth_set_node in E.
    pose proof (hrefs_set_node hp l cl (HInt (ch ++ [s])) y El) as Hh. rewrite Ech in Hh.
    cbn [kids] in Hh. rewrite count_occ_app in Hh. cbn [count_occ] in Hh.
    assert (Hc : exists c0, nth_error hp y = Some c0 /\ crc c = crc c0).
    { destruct (Nat.eq_dec y l) as [->|N]; [rewrite El in E; injection E as <-; eauto|eauto]. }
    destruct Hc as (c0 & E0 & ->). pose proof (inv_rc _ _ I y c0 E0) as Hr. cbn [count_occ] in Hr.
    destruct (Nat.eq_dec s y); lia.
  - intros y c k E Hin. rewrite nth_set_node in E.
    assert (Hold : forall k', (exists ck, nth_error hp k' = Some ck /\ S (clevel ck) = clevel c) ->
                   exists ck, nth_error (set_node hp l (HInt (ch ++ [s]))) k' = Some ck /\ S (clevel ck) = clevel c).
    { intros k' (ck & Eck & Hl). rewrite nth_set_node. destruct (Nat.eq_dec k' l) as [->|N]; [|eauto].
      rewrite El in *. injection Eck as <-. eexists. split; [reflexivity|exact Hl]. }
    apply Hold. destruct (Nat.eq_dec y l) as [->|N].
    + rewrite El in E. injection E as <-. cbn [cnode clevel kids] in *.
      apply in_app_or in Hin. destruct Hin as [Hin|[<-|[]]].
      * apply (inv_kids _ _ I l cl k El). rewrite Ech. exact Hin.
      * eauto.
    + apply (inv_kids _ _ I y c k E Hin).
  - intros r Hr. rewrite set_node_length. apply (inv_roots _ _ I). right. exact Hr.
Qed.

(* a node is replaced by one with the same children (a leaf update) *)
Lemma inv_same_kids : forall (hp : heap) roots l cl n,
  inv hp roots -> nth_error hp l = Some cl -> kids n = kids (cnode cl) -> inv (set_node hp l n) roots.
Proof.
  intros hp roots l cl n I El Hk. constructor.
  - intros y c E. rewrite nth_set_node in E.
    pose proof (hrefs_set_node hp l cl n y El) as Hh. rewrite Hk in Hh.
    assert (Hc : exists c0, nth_error hp y = Some c0 /\ crc c = crc c0).
    { destruct (Nat.eq_dec y l) as [->|N]; [rewrite El in E; injection E as <-; eauto|eauto]. }
    destruct Hc as (c0 & E0 & ->). pose proof (inv_rc _ _ I y c0 E0). lia.
  - intros y c k E Hin. rewrite nth_set_node in E.
    assert (Hold : forall k', (exists ck, nth_error hp k' = Some ck /\ S (clevel ck) = clevel c) ->
                   exists ck, nth_error (set_node hp l n) k' = Some ck /\ S (clevel ck) = clevel c).
    { intros k' (ck & Eck & Hl). rewrite nth_set_node. destruct (Nat.eq_dec k' l) as [->|N]; [|eauto].
      rewrite El in *. injection Eck as <-. eexists. split; [reflexivity|exact Hl]. }
    apply Hold. destruct (Nat.eq_dec y l) as [->|N].
    + rewrite El in E. injection E as <-. cbn [cnode clevel] in *. rewrite Hk in Hin.
      apply (inv_kids _ _ I l cl k El Hin).
    + apply (inv_kids _ _ I y c k E Hin).
  - intros r Hr. rewrite set_node_length. apply (inv_roots _ _ I r Hr).
Qed.

(* ---- the copying branch of [make_mut] *)
Definition copy_heap (hp : heap) (c : nat) (cc : cell) : heap :=
  decr (fold_left incr (kids (cnode cc)) hp) c ++ [mkCell (cnode cc) 1 (clevel cc)].

Lemma make_mut_cases : forall (hp : heap) c cc, nth_error hp c = Some cc ->
  make_mut hp c = if crc cc =? 1 then Some (hp, c) else Some (copy_heap hp c cc, length hp).
Proof.
  intros hp c cc E. unfold make_mut, alloc, copy_heap. rewrite E.
  destruct (crc cc =? 1); [reflexivity|]. rewrite decr_length, incr_all_length. reflexivity.
Qed.

Lemma copy_length : forall (hp : heap) c cc, length (copy_heap hp c cc) = S (length hp).
Proof.
  intros. unfold copy_heap. rewrite app_length, decr_length, incr_all_length. cbn. lia.
Qed.

Lemma nth_copy_old : forall (hp : heap) c cc y, y < length hp ->
  nth_error (copy_heap hp c cc) y
  = option_map (fun c0 => mkCell (cnode c0)
                                 (crc c0 + count_occ Nat.eq_dec (kids (cnode cc)) y - (if Nat.eq_dec y c then 1 else 0))
                                 (clevel c0))
               (nth_error hp y).
Proof.
  intros hp c cc y Hy. unfold copy_heap. rewrite nth_alloc, decr_length, incr_all_length.
  destruct (Nat.ltb_spec y (length hp)); [|lia].
  rewrite nth_decr. destruct (Nat.eq_dec y c) as [->|N]; rewrite nth_incr_all.
  - destruct (nth_error hp c) as [[n r lv]|]; cbn; reflexivity.
  - destruct (nth_error hp y) as [[n r lv]|]; cbn; [|reflexivity]. rewrite Nat.sub_0_r. reflexivity.
Qed.

Lemma nth_copy_new : forall (hp : heap) c cc,
  nth_error (copy_heap hp c cc) (length hp) = Some (mkCell (cnode cc) 1 (clevel cc)).
Proof.
  intros. unfold copy_heap. rewrite nth_alloc, decr_length, incr_all_length.
  rewrite Nat.ltb_irrefl, Nat.eqb_refl. reflexivity.
Qed.

Lemma nth_copy_beyond : forall (hp : heap) c cc y, length hp < y -> nth_error (copy_heap hp c cc) y = None.
Proof. intros. apply nth_error_None. rewrite copy_length. lia. Qed.

Lemma hrefs_copy : forall (hp : heap) c cc y,
  hrefs (copy_heap hp c cc) y = hrefs hp y + count_occ Nat.eq_dec (kids (cnode cc)) y.
Proof.
  intros. unfold copy_heap. rewrite hrefs_app. unfold cref. cbn [cnode]. f_equal.
  apply hrefs_same_nodes; [rewrite decr_length, incr_all_length; reflexivity|].
  intros z. unfold nodeat. rewrite nth_decr. destruct (Nat.eq_dec z c) as [->|N]; rewrite nth_incr_all.
  - destruct (nth_error hp c); reflexivity.
  - destruct (nth_error hp z); reflexivity.
Qed.

(* levels and kid-levels survive the copy *)
Lemma copy_kids_ok : forall (hp : heap) roots c cc, inv hp roots -> nth_error hp c = Some cc ->
  forall y cy k, nth_error (copy_heap hp c cc) y = Some cy -> In k (kids (cnode cy)) ->
  exists ck, nth_error (copy_heap hp c cc) k = Some ck /\ S (clevel ck) = clevel cy.
Proof.
  intros hp roots c cc I Ec y cy k E Hin.
  assert (Hold : forall k' lv, (exists ck, nth_error hp k' = Some ck /\ S (clevel ck) = lv) ->
                 exists ck, nth_error (copy_heap hp c cc) k' = Some ck /\ S (clevel ck) = lv).
  { intros k' lv (ck & Eck & Hl). assert (k' < length hp) by (apply nth_error_Some; congruence).
    rewrite nth_copy_old, Eck by assumption. cbn. eexists. split; [reflexivity|exact Hl]. }
  destruct (Nat.lt_trichotomy y (length hp)) as [Hy|[->|Hy]].
  - rewrite nth_copy_old in E by exact Hy. destruct (nth_error hp y) as [c0|] eqn:E0; [|discriminate].
    cbn in E. injection E as <-. cbn [cnode clevel] in *. apply Hold. apply (inv_kids _ _ I y c0 k E0 Hin).
  - rewrite nth_copy_new in E. injection E as <-. cbn [cnode clevel] in *. apply Hold.
    apply (inv_kids _ _ I c cc k Ec Hin).
  - rewrite nth_copy_beyond in E by exact Hy. discriminate.
Qed.

(* the copied cell was held by a handle: the handle now holds the copy *)
Lemma inv_copy_root : forall (hp : heap) pre post c cc,
  inv hp (pre ++ c :: post) -> nth_error hp c = Some cc -> crc cc <> 1 ->
  inv (copy_heap hp c cc) (pre ++ length hp :: post).
Proof.
  intros hp pre post c cc I Ec Hrc. constructor.
  - intros y cy E. rewrite hrefs_copy, count_occ_app. cbn [count_occ].
    destruct (Nat.lt_trichotomy y (length hp)) as [Hy|[->|Hy]].
    + rewrite nth_copy_old in E by exact Hy. destruct (nth_error hp y) as [c0|] eqn:E0; [|discriminate].
      cbn in E. injection E as <-. cbn [crc].
      pose proof (inv_rc _ _ I y c0 E0) as Hr. rewrite count_occ_app in Hr. cbn [count_occ] in Hr.
      destruct (Nat.eq_dec (length hp) y); [lia|].
      destruct (Nat.eq_dec y c) as [->|N].
      * destruct (Nat.eq_dec c c); [|congruence]. rewrite Ec in E0. injection E0 as <-. lia.
      * destruct (Nat.eq_dec c y); [congruence|]. lia.
    + rewrite nth_copy_new in E. injection E as <-. cbn [crc].
      rewrite (hrefs_fresh hp _ (length hp) I (le_n _)).
      pose proof (roots_fresh hp _ (length hp) I (le_n _)) as R. rewrite count_occ_app in R. cbn [count_occ] in R.
      assert (count_occ Nat.eq_dec (kids (cnode cc)) (length hp) = 0).
      { apply count_occ_not_In. intros Hin. destruct (inv_kids _ _ I c cc _ Ec Hin) as (ck & Eck & _).
        assert (length hp < length hp) by (apply nth_error_Some; congruence). lia. }
      destruct (Nat.eq_dec (length hp) (length hp)); [|congruence].
      destruct (Nat.eq_dec c (length hp)); lia.
    + rewrite nth_copy_beyond in E by exact Hy. discriminate.
  - apply (copy_kids_ok hp _ c cc I Ec).
  - intros r Hr. rewrite copy_length. apply in_app_or in Hr. destruct Hr as [Hr|[<-|Hr]]; [|lia|].
    + pose proof (inv_roots _ _ I r ltac:(apply in_or_app; left; exact Hr)). lia.
    + pose proof (inv_roots _ _ I r ltac:(apply in_or_app; right; right; exact Hr)). lia.
Qed.

Lemma In_list_set : forall (l : list nat) i x k, In k (list_set l i x) -> k = x \/ In k l.
Proof.
  induction l as [|a l IH]; intros [|i] x k H; cbn [list_set] in H; try contradiction.
  - destruct H as [<-|H]; [left; reflexivity|right; right; exact H].
  - destruct H as [<-|H]; [right; left; reflexivity|]. destruct (IH _ _ _ H); [left|right; right]; assumption.
Qed.

(* the copied cell was held by child slot [b] of cell [l]: the slot now holds the copy *)
Lemma inv_copy_cell : forall (hp : heap) roots l cl ch b c cc,
  inv hp roots -> nth_error hp l = Some cl -> cnode cl = HInt ch -> nth_error ch b = Some c ->
  nth_error hp c = Some cc -> crc cc <> 1 -> l <> c ->
  inv (set_node (copy_heap hp c cc) l (HInt (list_set ch b (length hp)))) roots.
Proof.
  intros hp roots l cl ch b c cc I El Ech Eb Ec Hrc Hlc.
  assert (Hl : l < length hp) by (apply nth_error_Some; congruence).
  assert (El3 : exists cl3, nth_error (copy_heap hp c cc) l = Some cl3 /\ cnode cl3 = HInt ch /\ clevel cl3 = clevel cl).
  { rewrite nth_copy_old, El by exact Hl. cbn. eexists. split; [reflexivity|]. cbn. auto. }
  destruct El3 as (cl3 & El3 & Ech3 & Elv3).
  assert (Hheld : 2 <= crc cc).
  { destruct (held_rc hp roots I l (HInt ch) c) as (cy & Ecy & _ & H1).
    - unfold nodeat. rewrite El. cbn. congruence.
    - cbn [kids]. eapply nth_error_In. exact Eb.
    - rewrite Ec in Ecy. injection Ecy as <-. lia. }
  constructor.
  - intros y cy E. rewrite nth_set_node in E.
    pose proof (hrefs_set_node _ l cl3 (HInt (list_set ch b (length hp))) y El3) as Hh.
    rewrite Ech3, hrefs_copy in Hh. cbn [kids] in Hh.
    pose proof (count_occ_list_set ch b c (length hp) y Eb) as Hc.
    destruct (Nat.lt_trichotomy y (length hp)) as [Hy|[->|Hy]].
    + assert (E' : exists c0, nth_error hp y = Some c0 /\
                   crc cy = crc c0 + count_occ Nat.eq_dec (kids (cnode cc)) y - (if Nat.eq_dec y c then 1 else 0)).
      { destruct (Nat.eq_dec y l) as [->|N].
        - rewrite El3 in E. cbn in E. injection E as <-. cbn [crc].
          rewrite nth_copy_old, El in El3 by exact Hl. cbn in El3. injection El3 as <-. cbn [crc]. eauto.
        - rewrite nth_copy_old in E by exact Hy. destruct (nth_error hp y) as [c0|]; [|discriminate].
          cbn in E. injection E as <-. cbn [crc]. eauto. }
      destruct E' as (c0 & E0 & ->). pose proof (inv_rc _ _ I y c0 E0) as Hr.
      destruct (Nat.eq_dec (length hp) y); [lia|].
      destruct (Nat.eq_dec y c) as [->|N].
      * destruct (Nat.eq_dec c c); [|congruence]. rewrite Ec in E0. injection E0 as <-. lia.
      * destruct (Nat.eq_dec c y); [congruence|]. lia.
    + destruct (Nat.eq_dec (length hp) l); [lia|]. rewrite nth_copy_new in E. injection E as <-. cbn [crc].
      rewrite (hrefs_fresh hp _ (length hp) I (le_n _)) in Hh.
      rewrite (roots_fresh hp _ (length hp) I (le_n _)).
      assert (count_occ Nat.eq_dec (kids (cnode cc)) (length hp) = 0).
      { apply count_occ_not_In. intros Hin. destruct (inv_kids _ _ I c cc _ Ec Hin) as (ck & Eck & _).
        assert (length hp < length hp) by (apply nth_error_Some; congruence). lia. }
      assert (count_occ Nat.eq_dec ch (length hp) = 0).
      { apply count_occ_not_In. intros Hin.
        destruct (inv_kids _ _ I l cl (length hp) El ltac:(rewrite Ech; exact Hin)) as (ck & Eck & _).
        assert (length hp < length hp) by (apply nth_error_Some; congruence). lia. }
      assert (c < length hp) by (apply nth_error_Some; congruence).
      destruct (Nat.eq_dec (length hp) (length hp)); [|congruence].
      destruct (Nat.eq_dec c (length hp)); lia.
    + destruct (Nat.eq_dec y l); [lia|]. rewrite nth_copy_beyond in E by exact Hy. discriminate.
  - intros y cy k E Hin. rewrite nth_set_node in E.
    assert (Hold : forall k' lv, (exists ck, nth_error (copy_heap hp c cc) k' = Some ck /\ S (clevel ck) = lv) ->
                   exists ck, nth_error (set_node (copy_heap hp c cc) l (HInt (list_set ch b (length hp)))) k' = Some ck
                              /\ S (clevel ck) = lv).
    { intros k' lv (ck & Eck & Hlv). rewrite nth_set_node. destruct (Nat.eq_dec k' l) as [->|N]; [|eauto].
      rewrite El3 in *. injection Eck as <-. eexists. split; [reflexivity|exact Hlv]. }
    apply Hold. destruct (Nat.eq_dec y l) as [->|N].
    + rewrite El3 in E. cbn in E. injection E as <-. cbn [cnode clevel kids] in *.
      destruct (In_list_set _ _ _ _ Hin) as [->|Hin'].
      * rewrite nth_copy_new. eexists. split; [reflexivity|]. cbn [clevel]. rewrite Elv3.
        destruct (inv_kids _ _ I l cl c El ltac:(rewrite Ech; eapply nth_error_In; exact Eb)) as (ck & Eck & Hlv).
        rewrite Ec in Eck. injection Eck as <-. exact Hlv.
      * rewrite Elv3. destruct (inv_kids _ _ I l cl k El ltac:(rewrite Ech; exact Hin')) as (ck & Eck & Hlv).
        assert (k < length hp) by (apply nth_error_Some; congruence).
        rewrite nth_copy_old, Eck by assumption. cbn. eexists. split; [reflexivity|exact Hlv].
    + apply (copy_kids_ok hp roots c cc I Ec y cy k E Hin).
  - intros r Hr. rewrite set_node_length, copy_length. pose proof (inv_roots _ _ I r Hr). lia.
Qed.

End Account.

(* ------------------------------------------------------------------ views after the primitives *)
Section Views.
Context {A : Type}.
Variable B : nat.
Notation heap := (@heap A).
Notation cell := (@cell A).
Notation hnode := (@hnode A).

Lemma nodeat_set_node : forall (hp : heap) l n y,
  nodeat (set_node hp l n) y = if Nat.eq_dec y l then option_map (fun _ => n) (nth_error hp l) else nodeat hp y.
Proof.
  intros. unfold nodeat. rewrite nth_set_node. destruct (Nat.eq_dec y l); [|reflexivity].
  destruct (nth_error hp l); reflexivity.
Qed.

Lemma lvat_set_node : forall (hp : heap) l n y, lvat (set_node hp l n) y = lvat hp y.
Proof.
  intros. unfold lvat. rewrite nth_set_node. destruct (Nat.eq_dec y l) as [->|]; [|reflexivity].
  destruct (nth_error hp l); reflexivity.
Qed.

Lemma rcat_set_node : forall (hp : heap) l n y, rcat (set_node hp l n) y = rcat hp y.
Proof.
  intros. unfold rcat. rewrite nth_set_node. destruct (Nat.eq_dec y l) as [->|]; [|reflexivity].
  destruct (nth_error hp l); reflexivity.
Qed.

Lemma nodeat_copy_old : forall (hp : heap) c cc y, y < length hp -> nodeat (copy_heap hp c cc) y = nodeat hp y.
Proof. intros. unfold nodeat. rewrite nth_copy_old by assumption. destruct (nth_error hp y); reflexivity. Qed.

Lemma lvat_copy_old : forall (hp : heap) c cc y, y < length hp -> lvat (copy_heap hp c cc) y = lvat hp y.
Proof. intros. unfold lvat. rewrite nth_copy_old by assumption. destruct (nth_error hp y); reflexivity. Qed.

Lemma nodeat_app_old : forall (hp ext : heap) y, y < length hp -> nodeat (hp ++ ext) y = nodeat hp y.
Proof. intros. unfold nodeat. rewrite nth_error_app1 by assumption. reflexivity. Qed.

Lemma habs_ext : forall (hp ext : heap) roots h o, inv hp roots -> o < length hp ->
  habs h (hp ++ ext) o = habs h hp o.
Proof.
  intros hp ext roots h o I Ho. apply habs_frame. intros y Hy. apply nodeat_app_old.
  eapply reach_alloc; eauto.
Qed.

(* ---- all_some *)
Lemma all_some_nth : forall {X} (l : list (option X)) ns, all_some l = Some ns ->
  forall i, nth_error l i = option_map Some (nth_error ns i).
Proof.
  intros X. induction l as [|[a|] l IH]; intros ns H i; cbn [all_some] in H; try discriminate.
  - injection H as <-. destruct i; reflexivity.
  - destruct (all_some l) as [r|] eqn:E; [|discriminate]. injection H as <-.
    destruct i as [|i]; [reflexivity|]. cbn [nth_error]. apply IH. reflexivity.
Qed.

Lemma all_some_length : forall {X} (l : list (option X)) ns, all_some l = Some ns -> length ns = length l.
Proof.
  intros X. induction l as [|[a|] l IH]; intros ns H; cbn [all_some] in H; try discriminate.
  - injection H as <-. reflexivity.
  - destruct (all_some l) as [r|] eqn:E; [|discriminate]. injection H as <-. cbn [length]. f_equal. apply IH. reflexivity.
Qed.

Lemma all_some_intro : forall {X} (l : list (option X)) ns,
  (forall i, nth_error l i = option_map Some (nth_error ns i)) -> all_some l = Some ns.
Proof.
  intros X. induction l as [|a l IH]; intros ns H.
  - destruct ns as [|b ns]; [reflexivity|]. specialize (H 0). discriminate.
  - destruct ns as [|b ns]; [specialize (H 0); discriminate|].
    pose proof (H 0) as H0. cbn in H0. injection H0 as ->. cbn [all_some].
    rewrite (IH ns); [reflexivity|]. intros i. exact (H (S i)).
Qed.

Lemma nth_error_list_set : forall {X} (l : list X) i j x,
  nth_error (list_set l i x) j = if Nat.eq_dec j i then (if j <? length l then Some x else None) else nth_error l j.
Proof.
  intros X l i j x. destruct (Nat.eq_dec j i) as [->|N].
  - destruct (Nat.ltb_spec i (length l)) as [H|H].
    + apply nth_error_list_set_eq. exact H.
    + rewrite list_set_beyond by exact H. apply nth_error_None. exact H.
  - apply nth_error_list_set_neq. congruence.
Qed.

(* ---- spine *)
Lemma alloc_spine_spec : forall h (hp : heap) roots x hp1 s,
  inv hp roots -> alloc_spine h hp x = (hp1, s) ->
  inv hp1 (s :: roots) /\ (exists ext, hp1 = hp ++ ext) /\ length hp <= s /\ s < length hp1
  /\ lvat hp1 s = Some h /\ habs h hp1 s = Some (spine h x).
Proof.
  induction h as [|h IH]; intros hp roots x hp1 s I E; cbn [alloc_spine] in E.
  - unfold alloc in E. injection E as <- <-.
    split; [apply (inv_alloc hp roots (HLeaf [x]) 0); [exact I|intros k []]|].
    split; [eauto|]. rewrite app_length. cbn [length]. split; [lia|]. split; [lia|].
    unfold lvat. rewrite habs_unfold. unfold nodeat. rewrite nth_alloc, Nat.ltb_irrefl, Nat.eqb_refl.
    split; reflexivity.
  - destruct (alloc_spine h hp x) as [hp0 s0] eqn:E0. unfold alloc in E. injection E as <- <-.
    destruct (IH hp roots x hp0 s0 I E0) as (I0 & (ext & ->) & L1 & L2 & Lv & Hab).
    split.
    + apply (inv_alloc (hp ++ ext) roots (HInt [s0]) (S h)); [exact I0|].
      intros k [<-|[]]. unfold lvat in Lv. destruct (nth_error (hp ++ ext) s0) as [c0|]; [|discriminate].
      cbn in Lv. injection Lv as Lv. exists c0. split; [reflexivity|congruence].
    + split; [exists (ext ++ [mkCell (HInt [s0]) 1 (S h)]); rewrite app_assoc; reflexivity|].
      rewrite !app_length in *. cbn [length]. split; [lia|]. split; [lia|].
      unfold lvat. rewrite habs_unfold. unfold nodeat.
      rewrite nth_alloc, app_length, Nat.ltb_irrefl, Nat.eqb_refl. cbn [option_map cnode clevel map].
      split; [reflexivity|].
      rewrite (habs_ext (hp ++ ext) _ (s0 :: roots) h s0 I0) by (rewrite app_length; lia).
      rewrite Hab. reflexivity.
Qed.

End Views.

(* ------------------------------------------------------------------ Node::set over the heap *)
Section HSet.
Context {A : Type}.
Variable B : nat.
Notation heap := (@heap A).
Notation cell := (@cell A).
Notation hnode := (@hnode A).

Lemma habs_0_inv : forall (hp : heap) l n, habs 0 hp l = Some n ->
  exists d, nodeat hp l = Some (HLeaf d) /\ n = Leaf d.
Proof.
  intros hp l n H. rewrite habs_unfold in H. destruct (nodeat hp l) as [[d|ch]|]; try discriminate.
  injection H as <-. eauto.
Qed.

Lemma habs_S_inv : forall h (hp : heap) l n, habs (S h) hp l = Some n ->
  exists ch ns, nodeat hp l = Some (HInt ch) /\ all_some (map (habs h hp) ch) = Some ns /\ n = Interior ns.
Proof.
  intros h hp l n H. rewrite habs_unfold in H. destruct (nodeat hp l) as [[d|ch]|]; try discriminate.
  destruct (all_some (map (habs h hp) ch)) as [ns|] eqn:E; [|discriminate]. injection H as <-. eauto.
Qed.

Lemma habs_S_intro : forall h (hp : heap) l ch ns, nodeat hp l = Some (HInt ch) ->
  all_some (map (habs h hp) ch) = Some ns -> habs (S h) hp l = Some (Interior ns).
Proof. intros h hp l ch ns Hn Ha. rewrite habs_unfold, Hn, Ha. reflexivity. Qed.

Lemma owned_S : forall (hp : heap) h l idx,
  owned B hp (S h) l idx
  = l :: match nodeat hp l with
         | Some (HInt ch) =>
             match nth_error ch (extract_index B idx (S h)) with
             | Some c => match rcat hp c with Some 1 => owned B hp h c idx | _ => [] end
             | None => []
             end
         | _ => []
         end.
Proof. reflexivity. Qed.

Lemma owned_head : forall (hp : heap) h l idx, In l (owned B hp h l idx).
Proof. intros. destruct h; cbn [owned]; left; reflexivity. Qed.

Section WithInv.
Variables (hp : heap) (roots : list nat).
Hypothesis I : inv hp roots.

Lemma lvat_Some : forall l lv, lvat hp l = Some lv -> l < length hp.
Proof. unfold lvat. intros l lv H. apply nth_error_Some. destruct (nth_error hp l); [discriminate|discriminate]. Qed.

Lemma nodeat_lt : forall l n, nodeat hp l = Some n -> l < length hp.
Proof. unfold nodeat. intros l n H. apply nth_error_Some. destruct (nth_error hp l); discriminate. Qed.

Lemma not_reach_higher : forall h o l lo ll, lvat hp o = Some lo -> lvat hp l = Some ll -> lo < ll ->
  ~ In l (reach h hp o).
Proof.
  intros h o l lo ll Ho Hl Hlt Hin. destruct (reach_level hp roots I h o l lo Ho Hin) as [->|(ly & Hly & Hlt2)].
  - rewrite Ho in Hl. injection Hl as ->. lia.
  - rewrite Hl in Hly. injection Hly as ->. lia.
Qed.

Lemma owned_tl_level : forall h l idx y ll, lvat hp l = Some ll -> In y (tl (owned B hp h l idx)) ->
  exists ly, lvat hp y = Some ly /\ ly < ll.
Proof.
  intros h l idx y ll Hl Hy. destruct h as [|h]; [contradiction|]. rewrite owned_S in Hy. cbn [tl] in Hy.
  destruct (nodeat hp l) as [[d|ch]|] eqn:E; try contradiction.
  destruct (nth_error ch (extract_index B idx (S h))) as [c|] eqn:Ec; [|contradiction].
  destruct (rcat hp c) as [[|[|r]]|]; try contradiction.
  destruct (kid_level hp roots I l (HInt ch) c ll E (nth_error_In _ _ Ec) Hl) as (lc & Hlc & Elc).
  apply owned_reach in Hy. destruct (reach_level hp roots I h c y lc Hlc Hy) as [->|(ly & Hly & Hlt)].
  - exists lc. split; [exact Hlc|lia].
  - exists ly. split; [exact Hly|lia].
Qed.

(* frame for a tree that does not contain the one cell whose node changed *)
Lemma habs_frame_except : forall (hp' : heap) l h o,
  (forall y, y < length hp -> y <> l -> nodeat hp' y = nodeat hp y) ->
  o < length hp -> ~ In l (reach h hp o) ->
  habs h hp' o = habs h hp o /\ reach h hp' o = reach h hp o.
Proof.
  intros hp' l h o H Ho Hl. apply habs_frame. intros y Hy. apply H.
  - eapply reach_alloc; eauto.
  - intros ->. contradiction.
Qed.

(* siblings of an in-place child do not see the cells owned through it *)
Lemma sibling_foreign : forall h l ch b c k s idx,
  nodeat hp l = Some (HInt ch) -> lvat hp l = Some (S h) ->
  nth_error ch b = Some c -> rcat hp c = Some 1 -> k <> b -> nth_error ch k = Some s ->
  forall y, In y (reach h hp s) -> ~ In y (owned B hp h c idx).
Proof.
  intros h l ch b c k s idx Hn Hl Eb Hrc Hkb Ek y Hy Hown.
  destruct (kid_level hp roots I l (HInt ch) c (S h) Hn (nth_error_In _ _ Eb) Hl) as (lc & Hlc & Elc).
  destruct (kid_level hp roots I l (HInt ch) s (S h) Hn (nth_error_In _ _ Ek) Hl) as (ls & Hls & Els).
  injection Elc as ->. injection Els as ->.
  refine (owned_foreign B hp roots I h c idx h s _ _ y Hown Hy).
  - intros Hin. destruct (reach_level hp roots I h s c h Hls Hin) as [->|(ly & Hly & Hlt)].
    + (* the same location in two slots of [l] *)
      pose proof (count_occ_two ch k b s Hkb Ek Eb) as H2.
      destruct (nodeat_Some hp l _ Hn) as (cl & Ecl & Hcl).
      pose proof (list_sum_one (cref s) hp l cl Ecl) as H3. unfold cref at 1 in H3. rewrite Hcl in H3.
      cbn [kids] in H3. unfold rcat in Hrc. destruct (nth_error hp s) as [cs|] eqn:Es; [|discriminate].
      cbn in Hrc. injection Hrc as Hrc. pose proof (inv_rc _ _ I s cs Es) as Hr. unfold hrefs in Hr. lia.
    + rewrite Hlc in Hly. injection Hly as ->. lia.
  - intros y' Hy' ->. destruct (owned_tl_level h c idx s h Hlc Hy') as (ly & Hly & Hlt).
    rewrite Hls in Hly. injection Hly as ->. lia.
Qed.

End WithInv.

(* in the heap produced by the copying [make_mut], only the copy itself is owned through it *)
Lemma owned_copy_singleton : forall (hp : heap) roots l cl ch b c cc h idx,
  inv hp roots -> nth_error hp l = Some cl -> cnode cl = HInt ch -> nth_error ch b = Some c ->
  nth_error hp c = Some cc -> crc cc <> 1 -> l <> c -> lvat hp l = Some (S h) ->
  owned B (set_node (copy_heap hp c cc) l (HInt (list_set ch b (length hp)))) h (length hp) idx = [length hp].
Proof.
  intros hp roots l cl ch b c cc h idx I El Ech Eb Ec Hrc Hlc Hlv.
  destruct h as [|h]; [reflexivity|]. rewrite owned_S.
  assert (Hl : l < length hp) by (apply nth_error_Some; congruence).
  rewrite nodeat_set_node. destruct (Nat.eq_dec (length hp) l); [lia|].
  unfold nodeat at 1. rewrite nth_copy_new. cbn [option_map cnode].
  destruct (cnode cc) as [d|chc] eqn:Ecn; [reflexivity|].
  destruct (nth_error chc (extract_index B idx (S h))) as [k|] eqn:Ek; [|reflexivity].
  assert (Hkin : In k (kids (cnode cc))) by (rewrite Ecn; cbn [kids]; eapply nth_error_In; exact Ek).
  assert (Hnc : nodeat hp c = Some (cnode cc)) by (unfold nodeat; rewrite Ec; reflexivity).
  destruct (held_rc hp roots I c (cnode cc) k Hnc Hkin) as (ck & Eck & _ & Hrk).
  assert (Hk : k < length hp) by (apply nth_error_Some; congruence).
  (* levels: k is below c which is below l *)
  assert (Hlvl : nodeat hp l = Some (HInt ch)) by (unfold nodeat; rewrite El; cbn; congruence).
  destruct (kid_level hp roots I l (HInt ch) c (S (S h)) Hlvl (nth_error_In _ _ Eb) Hlv) as (lc & Hlc' & Elc).
  injection Elc as ->.
  destruct (kid_level hp roots I c (cnode cc) k (S h) Hnc Hkin Hlc') as (lk & Hlk & Elk).
  assert (k <> c) by (intros ->; rewrite Hlc' in Hlk; injection Hlk as Hx; lia).
  assert (k <> l) by (intros ->; rewrite Hlv in Hlk; injection Hlk as Hx; lia).
  rewrite rcat_set_node. unfold rcat. rewrite nth_copy_old, Eck by exact Hk. cbn [option_map crc].
  destruct (Nat.eq_dec k c); [congruence|].
  pose proof (proj1 (count_occ_In Nat.eq_dec _ _) Hkin) as Hcnt.
  destruct (crc ck + count_occ Nat.eq_dec (kids (cnode cc)) k - 0) as [|[|r]] eqn:Er; try reflexivity; lia.
Qed.

Lemma list_set_ext : forall {X} (l1 l2 : list X) b v, length l1 = length l2 ->
  (forall k, k <> b -> nth_error l1 k = nth_error l2 k) -> list_set l1 b v = list_set l2 b v.
Proof.
  intros X l1 l2 b v L H. apply nth_error_ext. intros j. rewrite !nth_error_list_set, L.
  destruct (Nat.eq_dec j b); [reflexivity|]. apply H. assumption.
Qed.

Lemma map_list_set : forall {X Y} (f : X -> Y) (l : list X) b x, map f (list_set l b x) = list_set (map f l) b (f x).
Proof.
  intros X Y f. induction l as [|a l IH]; intros [|b] x; cbn [list_set map]; try reflexivity.
  rewrite IH. reflexivity.
Qed.

(* the common continuation of the two [make_mut] branches of the interior case *)
Lemma hset_continue : forall h (hp hpX hp' : heap) roots l ch ns b c c' nc nc' idx,
  inv hp roots -> nodeat hp l = Some (HInt ch) -> lvat hp l = Some (S h) ->
  all_some (map (habs h hp) ch) = Some ns -> nth_error ch b = Some c -> nth_error ns b = Some nc ->
  (* the heap after make_mut and the store into the slot *)
  inv hpX roots -> length hp <= length hpX ->
  (forall y, y < length hp -> lvat hpX y = lvat hp y) ->
  (forall y, y < length hp -> y <> l -> nodeat hpX y = nodeat hp y) ->
  nodeat hpX l = Some (HInt (list_set ch b c')) -> lvat hpX c' = Some h ->
  (forall y, y < length hp -> In y (owned B hpX h c' idx) -> In y (owned B hp (S h) l idx)) ->
  (forall k s, k <> b -> nth_error ch k = Some s -> forall y, In y (reach h hp s) -> ~ In y (owned B hpX h c' idx)) ->
  (* the recursive call *)
  inv hp' roots -> habs h hp' c' = Some nc' -> length hpX <= length hp' ->
  (forall y, y < length hpX -> lvat hp' y = lvat hpX y) ->
  (forall y, y < length hpX -> ~ In y (owned B hpX h c' idx) -> nodeat hp' y = nodeat hpX y) ->
  habs (S h) hp' l = Some (Interior (list_set ns b nc'))
  /\ length hp <= length hp'
  /\ (forall y, y < length hp -> lvat hp' y = lvat hp y)
  /\ (forall y, y < length hp -> ~ In y (owned B hp (S h) l idx) -> nodeat hp' y = nodeat hp y).
Proof.
  intros h hp hpX hp' roots l ch ns b c c' nc nc' idx I Hn Hl Hns Eb Enb
         IX LX LvX NX NXl Lvc Q6 Q7 I' Hab' L' Lv' F'.
  assert (Hll : l < length hp) by (eapply lvat_Some; eauto).
  assert (HlX : lvat hpX l = Some (S h)) by (rewrite LvX; assumption).
  assert (Hl_notowned : ~ In l (owned B hpX h c' idx)).
  { intros Hin. apply owned_reach in Hin.
    exact (not_reach_higher hpX roots IX h c' l h (S h) Lvc HlX ltac:(lia) Hin). }
  assert (Hnl' : nodeat hp' l = Some (HInt (list_set ch b c'))).
  { rewrite F' by (try lia; exact Hl_notowned). exact NXl. }
  (* siblings keep their trees *)
  assert (Hsib : forall k s, k <> b -> nth_error ch k = Some s -> habs h hp' s = habs h hp s).
  { intros k s Hkb Ek.
    destruct (kid_level hp roots I l (HInt ch) s (S h) Hn (nth_error_In _ _ Ek) Hl) as (ls & Hls & Els).
    injection Els as ->.
    assert (Hs : s < length hp) by (eapply lvat_Some; eauto).
    assert (Hnr : ~ In l (reach h hp s)) by (eapply (not_reach_higher hp roots I); eauto).
    destruct (habs_frame_except hp roots I hpX l h s NX Hs Hnr) as [E1 R1].
    rewrite <- E1. apply habs_frame. intros y Hy. rewrite R1 in Hy. apply F'.
    - pose proof (reach_alloc hp roots I h s y Hs Hy). lia.
    - apply (Q7 k s Hkb Ek y Hy). }
  split.
  - apply (habs_S_intro h hp' l (list_set ch b c')); [exact Hnl'|].
    rewrite map_list_set, Hab'.
    rewrite (list_set_ext (map (habs h hp') ch) (map (habs h hp) ch) b (Some nc')).
    + apply all_some_intro. intros i. rewrite !nth_error_list_set, map_length.
      pose proof (all_some_nth _ _ Hns) as Hnth.
      assert (Hlen : length ns = length ch) by (rewrite (all_some_length _ _ Hns); apply map_length).
      rewrite Hlen. destruct (Nat.eq_dec i b); [|apply Hnth].
      destruct (i <? length ch); reflexivity.
    + rewrite !map_length. reflexivity.
    + intros k Hkb. rewrite !nth_error_map. destruct (nth_error ch k) as [s|] eqn:Ek; [|reflexivity].
      cbn [option_map]. f_equal. apply (Hsib k s Hkb Ek).
  - split; [lia|]. split.
    + intros y Hy. rewrite Lv' by lia. apply LvX. exact Hy.
    + intros y Hy Hno. assert (y <> l) by (intros ->; apply Hno; apply owned_head).
      rewrite F'; [apply NX; assumption|lia|]. intros Hin. apply Hno. apply Q6; assumption.
Qed.

Theorem hset_spec : forall h (hp : heap) roots l idx x n n',
  inv hp roots -> lvat hp l = Some h -> habs h hp l = Some n -> node_set B h n idx x = Some n' ->
  exists hp', hset B h hp l idx x = Some hp' /\ inv hp' roots /\ habs h hp' l = Some n'
    /\ length hp <= length hp'
    /\ (forall y, y < length hp -> lvat hp' y = lvat hp y)
    /\ (forall y, y < length hp -> ~ In y (owned B hp h l idx) -> nodeat hp' y = nodeat hp y).
Proof.
  induction h as [|h IH]; intros hp roots l idx x n n' I Hl Hab Hset.
  - (* leaf *)
    destruct (habs_0_inv hp l n Hab) as (d & Hn & ->).
    destruct (nodeat_Some hp l _ Hn) as (cl & Ecl & Hcl).
    cbn [node_set] in Hset. cbn [hset]. rewrite Ecl, Hcl.
    assert (Hgen : forall d', n' = Leaf d' ->
      exists hp', Some (set_node hp l (HLeaf d')) = Some hp' /\ inv hp' roots /\ habs 0 hp' l = Some n'
        /\ length hp <= length hp' /\ (forall y, y < length hp -> lvat hp' y = lvat hp y)
        /\ (forall y, y < length hp -> ~ In y (owned B hp 0 l idx) -> nodeat hp' y = nodeat hp y)).
    { intros d' ->. eexists. split; [reflexivity|]. split.
      - apply (inv_same_kids hp roots l cl (HLeaf d') I Ecl). rewrite Hcl. reflexivity.
      - split.
        + rewrite habs_unfold, nodeat_set_node. destruct (Nat.eq_dec l l); [|congruence]. rewrite Ecl. reflexivity.
        + rewrite set_node_length. split; [lia|]. split; [intros; apply lvat_set_node|].
          intros y Hy Hno. rewrite nodeat_set_node. destruct (Nat.eq_dec y l) as [->|]; [|reflexivity].
          exfalso. apply Hno. left. reflexivity. }
    destruct (idx mod B <? length d); [injection Hset as <-; apply Hgen; reflexivity|].
    destruct (idx mod B =? length d); [injection Hset as <-; apply Hgen; reflexivity|discriminate].
  - (* interior *)
    destruct (habs_S_inv h hp l n Hab) as (ch & ns & Hn & Hns & ->).
    destruct (nodeat_Some hp l _ Hn) as (cl & Ecl & Hcl).
    assert (Hll : l < length hp) by (apply nth_error_Some; congruence).
    pose proof (all_some_nth _ _ Hns) as Hnth.
    assert (Hlen : length ns = length ch) by (rewrite (all_some_length _ _ Hns); apply map_length).
    cbn [node_set] in Hset. cbn [hset]. rewrite Ecl, Hcl. rewrite Hlen in Hset.
    set (b := extract_index B idx (S h)) in *.
    destruct (Nat.ltb_spec b (length ch)) as [Hb|Hb].
    + (* an existing child *)
      destruct (nth_error ns b) as [nc|] eqn:Enb; [|discriminate].
      destruct (node_set B h nc idx x) as [nc'|] eqn:Hsetc; [|discriminate]. injection Hset as <-.
      destruct (nth_error ch b) as [c|] eqn:Eb; [|apply nth_error_None in Eb; lia].
      assert (Habc : habs h hp c = Some nc).
      { pose proof (Hnth b) as H1. rewrite nth_error_map, Eb, Enb in H1. cbn in H1. congruence. }
      destruct (kid_level hp roots I l (HInt ch) c (S h) Hn (nth_error_In _ _ Eb) Hl) as (lc & Hlc & Elc).
      injection Elc as ->.
      assert (Hcl' : c < length hp) by (eapply lvat_Some; eauto).
      destruct (nth_error hp c) as [cc|] eqn:Ec; [|apply nth_error_None in Ec; lia].
      rewrite (make_mut_cases hp c cc Ec).
      assert (Hlc_ne : l <> c) by (intros ->; rewrite Hl in Hlc; injection Hlc as Hx; lia).
      destruct (Nat.eqb_spec (crc cc) 1) as [Hrc|Hrc].
      * (* unique: in place *)
        assert (Hsame : set_node hp l (HInt (list_set ch b c)) = hp).
        { unfold set_node. rewrite Ecl, (list_set_same ch b c Eb). apply list_set_same.
          rewrite Ecl. destruct cl as [n0 r0 l0]. cbn in Hcl. subst n0. reflexivity. }
        rewrite Hsame.
        destruct (IH hp roots c idx x nc nc' I Hlc Habc Hsetc) as (hp' & -> & I' & Hab' & L' & Lv' & F').
        exists hp'. split; [reflexivity|]. split; [exact I'|].
        assert (Hrcat : rcat hp c = Some 1) by (unfold rcat; rewrite Ec; cbn; congruence).
        refine (hset_continue h hp hp hp' roots l ch ns b c c nc nc' idx I Hn Hl Hns Eb Enb
                  I (le_n _) (fun _ _ => eq_refl) (fun _ _ _ => eq_refl) _ Hlc _ _ I' Hab' L' Lv' F').
        -- rewrite (list_set_same ch b c Eb). exact Hn.
        -- intros y Hy Hin. rewrite owned_S, Hn. fold b. rewrite Eb, Hrcat. right. exact Hin.
        -- intros k s Hkb Ek. apply (sibling_foreign hp roots I h l ch b c k s idx Hn Hl Eb Hrcat Hkb Ek).
      * (* shared: copy *)
        set (hpX := set_node (copy_heap hp c cc) l (HInt (list_set ch b (length hp)))).
        assert (IX : inv hpX roots) by (apply (inv_copy_cell hp roots l cl ch b c cc); assumption).
        assert (LX : length hpX = S (length hp)) by (unfold hpX; rewrite set_node_length, copy_length; reflexivity).
        assert (LvX : forall y, y < length hp -> lvat hpX y = lvat hp y).
        { intros y Hy. unfold hpX. rewrite lvat_set_node. apply lvat_copy_old. exact Hy. }
        assert (NX : forall y, y < length hp -> y <> l -> nodeat hpX y = nodeat hp y).
        { intros y Hy Hyl. unfold hpX. rewrite nodeat_set_node. destruct (Nat.eq_dec y l); [congruence|].
          apply nodeat_copy_old. exact Hy. }
        assert (NXl : nodeat hpX l = Some (HInt (list_set ch b (length hp)))).
        { unfold hpX. rewrite nodeat_set_node. destruct (Nat.eq_dec l l); [|congruence].
          rewrite nth_copy_old, Ecl by exact Hll. reflexivity. }
        assert (Ncopy : nth_error hpX (length hp) = Some (mkCell (cnode cc) 1 (clevel cc))).
        { unfold hpX. rewrite nth_set_node. destruct (Nat.eq_dec (length hp) l); [lia|]. apply nth_copy_new. }
        assert (Lvc : lvat hpX (length hp) = Some h).
        { unfold lvat. rewrite Ncopy. cbn. unfold lvat in Hlc. rewrite Ec in Hlc. exact Hlc. }
        assert (HabX : habs h hpX (length hp) = Some nc).
        { rewrite <- Habc. rewrite (habs_unfold h hpX), (habs_unfold h hp).
          assert (E1 : nodeat hpX (length hp) = Some (cnode cc)) by (unfold nodeat; rewrite Ncopy; reflexivity).
          assert (E2 : nodeat hp c = Some (cnode cc)) by (unfold nodeat; rewrite Ec; reflexivity).
          rewrite E1, E2.
          destruct h as [|h']; [reflexivity|]. destruct (cnode cc) as [d|chc] eqn:Ecn; [reflexivity|].
          replace (map (habs h' hpX) chc) with (map (habs h' hp) chc); [reflexivity|].
          apply map_ext_in. intros k Hk. symmetry.
          assert (Hnc : nodeat hp c = Some (HInt chc)) by (unfold nodeat; rewrite Ec; cbn; congruence).
          destruct (kid_level hp roots I c (HInt chc) k (S h') Hnc Hk Hlc) as (lk & Hlk & Elk).
          injection Elk as ->.
          apply (habs_frame_except hp roots I hpX l h' k NX).
          - eapply lvat_Some; eauto.
          - eapply (not_reach_higher hp roots I); eauto. }
        assert (Hown : owned B hpX h (length hp) idx = [length hp]).
        { apply (owned_copy_singleton hp roots l cl ch b c cc h idx); assumption. }
        destruct (IH hpX roots (length hp) idx x nc nc' IX Lvc HabX Hsetc) as (hp' & -> & I' & Hab' & L' & Lv' & F').
        exists hp'. split; [reflexivity|]. split; [exact I'|].
        refine (hset_continue h hp hpX hp' roots l ch ns b c (length hp) nc nc' idx I Hn Hl Hns Eb Enb
                  IX ltac:(lia) LvX NX NXl Lvc _ _ I' Hab' L' Lv' F').
        -- intros y Hy Hin. rewrite Hown in Hin. destruct Hin as [<-|[]]. lia.
        -- intros k s Hkb Ek y Hy Hin. rewrite Hown in Hin. destruct Hin as [<-|[]].
           destruct (kid_level hp roots I l (HInt ch) s (S h) Hn (nth_error_In _ _ Ek) Hl) as (ls & Hls & _).
           pose proof (reach_alloc hp roots I h s (length hp) ltac:(eapply lvat_Some; eauto) Hy). lia.
    + (* one past the last child: a new spine *)
      destruct (Nat.eqb_spec b (length ch)) as [Hbe|Hbe]; [|discriminate]. injection Hset as <-.
      destruct (alloc_spine h hp x) as [hp1 s] eqn:Esp.
      destruct (alloc_spine_spec h hp roots x hp1 s I Esp) as (I1 & (ext & ->) & Ls1 & Ls2 & Lvs & Habs).
      assert (El1 : nth_error (hp ++ ext) l = Some cl) by (rewrite nth_error_app1; assumption).
      assert (Hs1 : exists cs, nth_error (hp ++ ext) s = Some cs /\ clevel cs = h).
      { unfold lvat in Lvs. destruct (nth_error (hp ++ ext) s) as [cs|]; [|discriminate].
        cbn in Lvs. injection Lvs as Lvs. eauto. }
      destruct Hs1 as (cs & Ecs & Hcs).
      assert (Hcll : clevel cl = S h) by (unfold lvat in Hl; rewrite Ecl in Hl; cbn in Hl; congruence).
      eexists. split; [reflexivity|]. split.
      { apply (inv_adopt (hp ++ ext) roots l cl ch s cs I1 El1 Hcl Ecs). congruence. }
      assert (NX : forall y, y < length hp -> y <> l ->
                   nodeat (set_node (hp ++ ext) l (HInt (ch ++ [s]))) y = nodeat hp y).
      { intros y Hy Hyl. rewrite nodeat_set_node. destruct (Nat.eq_dec y l); [congruence|].
        apply nodeat_app_old. exact Hy. }
      split; [|split; [rewrite set_node_length, app_length; lia|split]].
      * apply (habs_S_intro h _ l (ch ++ [s])).
        { rewrite nodeat_set_node. destruct (Nat.eq_dec l l); [|congruence]. rewrite El1. reflexivity. }
        apply all_some_intro. intros i. rewrite map_app. cbn [map].
        assert (Hs_l : ~ In l (reach h (hp ++ ext) s)).
        { apply (not_reach_higher (hp ++ ext) (s :: roots) I1 h s l h (S h) Lvs); [|lia].
          unfold lvat. rewrite El1. cbn. congruence. }
        assert (Hsp : habs h (set_node (hp ++ ext) l (HInt (ch ++ [s]))) s = Some (spine h x)).
        { rewrite <- Habs. apply habs_frame. intros y Hy. rewrite nodeat_set_node.
          destruct (Nat.eq_dec y l) as [->|]; [contradiction|reflexivity]. }
        destruct (Nat.lt_trichotomy i (length ch)) as [Hi|[->|Hi]].
        -- rewrite nth_error_app1 by (rewrite map_length; exact Hi).
           rewrite nth_error_app1 by lia. rewrite nth_error_map.
           pose proof (Hnth i) as H1. rewrite nth_error_map in H1. rewrite <- H1.
           destruct (nth_error ch i) as [k|] eqn:Ek; [|reflexivity]. cbn [option_map]. f_equal.
           destruct (kid_level hp roots I l (HInt ch) k (S h) Hn (nth_error_In _ _ Ek) Hl) as (lk & Hlk & Elk).
           injection Elk as ->.
           apply (habs_frame_except hp roots I _ l h k NX); [eapply lvat_Some; eauto|].
           eapply (not_reach_higher hp roots I); eauto.
        -- rewrite nth_error_app2 by (rewrite map_length; lia). rewrite map_length, Nat.sub_diag.
           rewrite nth_error_app2 by lia. rewrite Hlen, Nat.sub_diag. cbn. rewrite Hsp. reflexivity.
        -- rewrite (proj2 (nth_error_None _ _)) by (rewrite app_length, map_length; cbn; lia).
           rewrite (proj2 (nth_error_None _ _)) by (rewrite app_length; cbn; lia). reflexivity.
      * intros y Hy. rewrite lvat_set_node. unfold lvat. rewrite nth_error_app1 by exact Hy. reflexivity.
      * intros y Hy Hno. apply NX; [exact Hy|]. intros ->. apply Hno. apply owned_head.
Qed.

End HSet.

(* ------------------------------------------------------------------ handles: refinement and frame *)
Section Handles.
Context {A : Type}.
Variable B : nat.
Notation heap := (@heap A).
Notation cell := (@cell A).
Notation hnode := (@hnode A).
Notation hvec := (@hvec).


Lemma roots_of_app : forall hs1 hs2, roots_of (hs1 ++ hs2) = roots_of hs1 ++ roots_of hs2.
Proof. intros. unfold roots_of. apply flat_map_app. Qed.

Lemma roots_of_mid : forall pre (v : hvec) post,
  roots_of (pre ++ v :: post) = roots_of pre ++ root_list v ++ roots_of post.
Proof. intros. rewrite roots_of_app. reflexivity. Qed.

Lemma root_in : forall (w : hvec) rw hs, In w hs -> hroot w = Some rw -> In rw (roots_of hs).
Proof.
  intros w rw hs Hw Hr. unfold roots_of. apply in_flat_map. exists w. split; [exact Hw|].
  unfold root_list. rewrite Hr. left. reflexivity.
Qed.

(* ---- reading through a handle *)
Lemma hget_spec : forall h (hp : heap) l n idx, habs h hp l = Some n -> hget B h hp l idx = node_get B h n idx.
Proof.
  induction h as [|h IH]; intros hp l n idx Hab.
  - destruct (habs_0_inv hp l n Hab) as (d & Hn & ->). unfold nodeat in Hn. cbn [hget node_get].
    destruct (nth_error hp l) as [cl|]; [|discriminate]. cbn in Hn. injection Hn as ->. reflexivity.
  - destruct (habs_S_inv h hp l n Hab) as (ch & ns & Hn & Hns & ->). unfold nodeat in Hn. cbn [hget node_get].
    destruct (nth_error hp l) as [cl|]; [|discriminate]. cbn in Hn. injection Hn as ->.
    pose proof (all_some_nth _ _ Hns (extract_index B idx (S h))) as H1. rewrite nth_error_map in H1.
    destruct (nth_error ch (extract_index B idx (S h))) as [c|];
      destruct (nth_error ns (extract_index B idx (S h))) as [nc|]; try discriminate; [|reflexivity].
    cbn in H1. injection H1 as H1. apply IH. exact H1.
Qed.

Theorem hvget_refines : forall (hp : heap) v vv idx, vabs hp v = Some vv -> hvget B hp v idx = vget B vv idx.
Proof.
  intros hp [rt len h] vv idx Hv. unfold vabs in Hv. unfold hvget, vget. cbn [hroot hvlen hheight] in *.
  destruct rt as [r|].
  - destruct (habs h hp r) as [n|] eqn:Hab; [|discriminate]. injection Hv as <-. cbn [vlen root height].
    destruct (len <=? idx); [reflexivity|]. apply hget_spec. exact Hab.
  - injection Hv as <-. reflexivity.
Qed.

(* ---- clone *)
Lemma nodeat_incr : forall (hp : heap) l y, nodeat (incr hp l) y = nodeat hp y.
Proof.
  intros. unfold nodeat. rewrite nth_incr. destruct (Nat.eq_dec y l) as [->|]; [|reflexivity].
  destruct (nth_error hp l); reflexivity.
Qed.

Lemma lvat_incr : forall (hp : heap) l y, lvat (incr hp l) y = lvat hp y.
Proof.
  intros. unfold lvat. rewrite nth_incr. destruct (Nat.eq_dec y l) as [->|]; [|reflexivity].
  destruct (nth_error hp l); reflexivity.
Qed.

Lemma habs_same_nodes : forall h (hp hp' : heap) o, (forall y, nodeat hp' y = nodeat hp y) -> habs h hp' o = habs h hp o.
Proof. intros h hp hp' o H. apply habs_frame. intros y _. apply H. Qed.

Lemma vabs_same_nodes : forall (hp hp' : heap) v, (forall y, nodeat hp' y = nodeat hp y) -> vabs hp' v = vabs hp v.
Proof.
  intros hp hp' v H. unfold vabs. destruct (hroot v) as [r|]; [|reflexivity].
  rewrite (habs_same_nodes _ hp hp' r H). reflexivity.
Qed.

Lemma inv_incr_root : forall (hp : heap) roots r, inv hp roots -> r < length hp -> inv (incr hp r) (r :: roots).
Proof.
  intros hp roots r I Hr. constructor.
  - intros y c E. rewrite nth_incr in E. cbn [count_occ].
    rewrite (hrefs_same_nodes hp (incr hp r) y (incr_length hp r) (nodeat_incr hp r)).
    destruct (Nat.eq_dec y r) as [->|N].
    + destruct (nth_error hp r) as [c0|] eqn:E0; [|discriminate]. cbn in E. injection E as <-. cbn [crc].
      rewrite (inv_rc _ _ I r c0 E0). destruct (Nat.eq_dec r r); [lia|congruence].
    + rewrite (inv_rc _ _ I y c E). destruct (Nat.eq_dec r y); [congruence|lia].
  - intros y c k E Hin. rewrite nth_incr in E.
    assert (Hold : forall k' lv, (exists ck, nth_error hp k' = Some ck /\ S (clevel ck) = lv) ->
                   exists ck, nth_error (incr hp r) k' = Some ck /\ S (clevel ck) = lv).
    { intros k' lv (ck & Eck & Hl). rewrite nth_incr. destruct (Nat.eq_dec k' r) as [->|]; [|eauto].
      rewrite Eck. cbn. eexists. split; [reflexivity|exact Hl]. }
    apply Hold. destruct (Nat.eq_dec y r) as [->|N].
    + destruct (nth_error hp r) as [c0|] eqn:E0; [|discriminate]. cbn in E. injection E as <-.
      cbn [cnode clevel] in *. apply (inv_kids _ _ I r c0 k E0 Hin).
    + apply (inv_kids _ _ I y c k E Hin).
  - intros y [<-|Hy]; rewrite incr_length; [exact Hr|apply (inv_roots _ _ I y Hy)].
Qed.

Lemma hwf_same_levels : forall (hp hp' : heap) v, (forall y, y < length hp -> lvat hp' y = lvat hp y) ->
  hwf hp v -> hwf hp' v.
Proof.
  intros hp hp' v H W. unfold hwf in *. destruct (hroot v) as [r|]; [|exact W].
  rewrite H; [exact W|]. unfold lvat in W. apply nth_error_Some. destruct (nth_error hp r); discriminate.
Qed.

Theorem hvclone_spec : forall (hp : heap) hs v, hinv hp hs -> In v hs ->
  let (hp', v') := hvclone hp v in
  hinv hp' (v' :: hs) /\ vabs hp' v' = vabs hp v /\ forall w, vabs hp' w = vabs hp w.
Proof.
  intros hp hs v [I W] Hv. unfold hvclone. destruct (hroot v) as [r|] eqn:Er.
  - assert (Hr : r < length hp) by (apply (inv_roots _ _ I); eapply root_in; eauto).
    split; [split|split].
    + cbn [roots_of flat_map]. unfold root_list at 1. rewrite Er. cbn [app].
      apply (inv_incr_root hp _ r I Hr).
    + assert (Hlv : forall y, y < length hp -> lvat (incr hp r) y = lvat hp y) by (intros; apply lvat_incr).
      constructor; [|eapply Forall_impl; [|exact W]; intros; eapply hwf_same_levels; eauto].
      rewrite Forall_forall in W. eapply hwf_same_levels; eauto.
    + apply vabs_same_nodes. apply nodeat_incr.
    + intros w. apply vabs_same_nodes. apply nodeat_incr.
  - split; [split|split]; auto.
    + cbn [roots_of flat_map]. unfold root_list at 1. rewrite Er. exact I.
    + constructor; [|exact W]. rewrite Forall_forall in W. apply W. exact Hv.
Qed.

(* ---- the root slot: [make_mut] then [Node::set] *)
Lemma other_root_foreign : forall (hp : heap) pre post r hr idx hw rw,
  inv hp (pre ++ r :: post) -> rcat hp r = Some 1 -> In rw (pre ++ post) ->
  forall y, In y (reach hw hp rw) -> ~ In y (owned B hp hr r idx).
Proof.
  intros hp pre post r hr idx hw rw I Hrc Hrw y Hy Hown.
  assert (Hcnt : forall z, In z (pre ++ post) -> 1 <= count_occ Nat.eq_dec (pre ++ post) z).
  { intros z Hz. apply (count_occ_In Nat.eq_dec). exact Hz. }
  assert (Hroots : forall z, count_occ Nat.eq_dec (pre ++ r :: post) z
                             = count_occ Nat.eq_dec (pre ++ post) z + (if Nat.eq_dec r z then 1 else 0)).
  { intros z. rewrite !count_occ_app. cbn [count_occ]. destruct (Nat.eq_dec r z); lia. }
  unfold rcat in Hrc. destruct (nth_error hp r) as [cr|] eqn:Ecr; [|discriminate]. cbn in Hrc. injection Hrc as Hrc.
  pose proof (inv_rc _ _ I r cr Ecr) as Hr. rewrite Hroots in Hr. destruct (Nat.eq_dec r r); [|congruence].
  refine (owned_foreign B hp _ I hr r idx hw rw _ _ y Hown Hy).
  - intros Hin. destruct (reach_pred _ _ _ _ Hin) as [->|(p & np & Hp & Hnp & Hrp)].
    + pose proof (Hcnt rw Hrw). lia.
    + destruct (held_rc hp _ I p np r Hnp Hrp) as (cy & _ & H1 & _). lia.
  - intros y' Hy' ->. destruct (owned_tl_held B hp _ I hr r idx rw Hy') as [Hrc' Hh].
    unfold rcat in Hrc'. destruct (nth_error hp rw) as [cw|] eqn:Ecw; [|discriminate]. cbn in Hrc'. injection Hrc' as Hrc'.
    pose proof (inv_rc _ _ I rw cw Ecw) as Hr2. rewrite Hroots in Hr2. pose proof (Hcnt rw Hrw). lia.
Qed.

Lemma root_update : forall (hp : heap) pre v post r idx x n n',
  hinv hp (pre ++ v :: post) -> hroot v = Some r ->
  habs (hheight v) hp r = Some n -> node_set B (hheight v) n idx x = Some n' ->
  exists hp1 r' hp',
    make_mut hp r = Some (hp1, r') /\ hset B (hheight v) hp1 r' idx x = Some hp'
    /\ habs (hheight v) hp' r' = Some n'
    /\ (forall len', hinv hp' (pre ++ mkHVec (Some r') len' (hheight v) :: post))
    /\ (forall w, In w (pre ++ post) -> vabs hp' w = vabs hp w).
Proof.
  intros hp pre v post r idx x n n' [I W] Er Hab Hset.
  rewrite roots_of_mid in I. unfold root_list in I. rewrite Er in I. cbn [app] in I.
  assert (Wv : lvat hp r = Some (hheight v)).
  { rewrite Forall_forall in W. specialize (W v ltac:(apply in_or_app; right; left; reflexivity)).
    unfold hwf in W. rewrite Er in W. exact W. }
  assert (Hr : r < length hp) by (eapply lvat_Some; eauto).
  destruct (nth_error hp r) as [cr|] eqn:Ecr; [|apply nth_error_None in Ecr; lia].
  rewrite (make_mut_cases hp r cr Ecr).
  (* the heap and root after make_mut, with what both branches provide *)
  assert (Hmm : exists hpX r',
            (if crc cr =? 1 then Some (hp, r) else Some (copy_heap hp r cr, length hp)) = Some (hpX, r')
            /\ inv hpX (roots_of pre ++ r' :: roots_of post) /\ rcat hpX r' = Some 1
            /\ lvat hpX r' = Some (hheight v) /\ habs (hheight v) hpX r' = Some n
            /\ length hp <= length hpX
            /\ (forall y, y < length hp -> lvat hpX y = lvat hp y)
            /\ (forall y, y < length hp -> nodeat hpX y = nodeat hp y)
            /\ (forall y, y < length hp -> In y (owned B hpX (hheight v) r' idx) -> r' = r /\ hpX = hp)).
  { destruct (Nat.eqb_spec (crc cr) 1) as [Hrc|Hrc].
    - exists hp, r. split; [reflexivity|]. split; [exact I|]. split; [unfold rcat; rewrite Ecr; cbn; congruence|].
      repeat split; auto.
    - exists (copy_heap hp r cr), (length hp). split; [reflexivity|].
      assert (IX : inv (copy_heap hp r cr) (roots_of pre ++ length hp :: roots_of post))
        by (apply inv_copy_root; assumption).
      split; [exact IX|]. split; [unfold rcat; rewrite nth_copy_new; reflexivity|].
      split; [unfold lvat; rewrite nth_copy_new; cbn; unfold lvat in Wv; rewrite Ecr in Wv; exact Wv|].
      split.
      { rewrite <- Hab. rewrite (habs_unfold _ (copy_heap hp r cr)), (habs_unfold _ hp).
        assert (E1 : nodeat (copy_heap hp r cr) (length hp) = Some (cnode cr)) by (unfold nodeat; rewrite nth_copy_new; reflexivity).
        assert (E2 : nodeat hp r = Some (cnode cr)) by (unfold nodeat; rewrite Ecr; reflexivity).
        rewrite E1, E2. destruct (hheight v) as [|h']; [reflexivity|].
        destruct (cnode cr) as [d|chc] eqn:Ecn; [reflexivity|].
        replace (map (habs h' (copy_heap hp r cr)) chc) with (map (habs h' hp) chc); [reflexivity|].
        apply map_ext_in. intros k Hk. symmetry. apply habs_frame. intros y Hy. apply nodeat_copy_old.
        destruct (inv_kids _ _ I r cr k Ecr ltac:(rewrite Ecn; exact Hk)) as (ck & Eck & _).
        eapply (reach_alloc hp _ I); [|exact Hy]. apply nth_error_Some. congruence. }
      rewrite copy_length. split; [lia|]. split; [intros; apply lvat_copy_old; assumption|].
      split; [intros; apply nodeat_copy_old; assumption|].
      intros y Hy Hin. exfalso.
      (* in the copied heap only the copy is owned: its children are now shared *)
      assert (Hsing : owned B (copy_heap hp r cr) (hheight v) (length hp) idx = [length hp]).
      { destruct (hheight v) as [|h'] eqn:Eh; [reflexivity|]. rewrite owned_S.
        unfold nodeat at 1. rewrite nth_copy_new. cbn [option_map cnode].
        destruct (cnode cr) as [d|chc] eqn:Ecn; [reflexivity|].
        destruct (nth_error chc (extract_index B idx (S h'))) as [k|] eqn:Ek; [|reflexivity].
        assert (Hkin : In k (kids (cnode cr))) by (rewrite Ecn; cbn [kids]; eapply nth_error_In; exact Ek).
        assert (Hnc : nodeat hp r = Some (cnode cr)) by (unfold nodeat; rewrite Ecr; reflexivity).
        destruct (held_rc hp _ I r (cnode cr) k Hnc Hkin) as (ck & Eck & _ & Hrk).
        assert (Hk : k < length hp) by (apply nth_error_Some; congruence).
        destruct (kid_level hp _ I r (cnode cr) k (S h') Hnc Hkin Wv) as (lk & Hlk & Elk).
        assert (k <> r) by (intros ->; rewrite Wv in Hlk; injection Hlk as Hx; lia).
        unfold rcat. rewrite nth_copy_old, Eck by exact Hk. cbn [option_map crc].
        destruct (Nat.eq_dec k r); [congruence|].
        pose proof (proj1 (count_occ_In Nat.eq_dec _ _) Hkin) as Hcnt.
        destruct (crc ck + count_occ Nat.eq_dec (kids (cnode cr)) k - 0) as [|[|q]] eqn:Eq; try reflexivity; lia. }
      rewrite Hsing in Hin. destruct Hin as [<-|[]]. lia. }
  destruct Hmm as (hpX & r' & -> & IX & HrcX & LvX & HabX & LX & LvsX & NX & OwnX).
  destruct (hset_spec B (hheight v) hpX _ r' idx x n n' IX LvX HabX Hset) as (hp' & Ehs & I' & Hab' & L' & Lv' & F').
  exists hpX, r', hp'. split; [reflexivity|]. split; [exact Ehs|]. split; [exact Hab'|].
  assert (Hother : forall w, In w (pre ++ post) -> hwf hp w -> vabs hp' w = vabs hp w).
  { intros w Hw Ww. unfold vabs. destruct (hroot w) as [rw|] eqn:Erw; [|reflexivity].
    unfold hwf in Ww. rewrite Erw in Ww.
    assert (Hrw : rw < length hp) by (eapply lvat_Some; eauto).
    assert (Hin : In rw (roots_of pre ++ roots_of post)).
    { rewrite <- roots_of_app. eapply root_in; eauto. }
    destruct (habs_frame (hheight w) hp hpX rw) as [E1 R1].
    { intros y Hy. apply NX. eapply (reach_alloc hp _ I); eauto. }
    destruct (habs_frame (hheight w) hpX hp' rw) as [E2 _].
    { intros y Hy. apply F'.
      - rewrite R1 in Hy. pose proof (reach_alloc hp _ I _ _ _ Hrw Hy). lia.
      - apply (other_root_foreign hpX (roots_of pre) (roots_of post) r' (hheight v) idx (hheight w) rw IX HrcX Hin y Hy). }
    rewrite E2, E1. reflexivity. }
  split.
  - intros len'. split.
    + rewrite roots_of_mid. unfold root_list. cbn [hroot app]. exact I'.
    + assert (Hlv : forall y, y < length hp -> lvat hp' y = lvat hp y).
      { intros y Hy. rewrite Lv' by lia. apply LvsX. exact Hy. }
      apply Forall_app in W. destruct W as [W1 W2]. apply Forall_app. split.
      * eapply Forall_impl; [|exact W1]. intros w. apply hwf_same_levels. exact Hlv.
      * constructor.
        -- unfold hwf. cbn [hroot hheight]. rewrite Lv'; [exact LvX|eapply lvat_Some; eauto].
        -- apply Forall_inv_tail in W2. eapply Forall_impl; [|exact W2]. intros w. apply hwf_same_levels. exact Hlv.
  - intros w Hw. apply Hother; [exact Hw|]. rewrite Forall_forall in W. apply W.
    apply in_app_or in Hw. apply in_or_app. destruct Hw; [left|right; right]; assumption.
Qed.

(* ---- set *)
Theorem hvset_refines_frame : forall (hp : heap) pre v post idx x vv vv',
  hinv hp (pre ++ v :: post) -> vabs hp v = Some vv -> vset B vv idx x = Some vv' ->
  exists hp' v', hvset B hp v idx x = Some (hp', v')
    /\ hinv hp' (pre ++ v' :: post) /\ vabs hp' v' = Some vv'
    /\ (forall w, In w (pre ++ post) -> vabs hp' w = vabs hp w).
Proof.
  intros hp pre v post idx x vv vv' HI Hv Hset.
  destruct v as [rt len h]. unfold vabs in Hv. unfold hvset, vset in *. cbn [hroot hvlen hheight] in *.
  destruct rt as [r|].
  - destruct (habs h hp r) as [n|] eqn:Hab; [|discriminate]. injection Hv as <-. cbn [vlen root height] in *.
    destruct (len <=? idx); [discriminate|].
    destruct (node_set B h n idx x) as [n'|] eqn:Hns; [|discriminate]. injection Hset as <-.
    destruct (root_update hp pre (mkHVec (Some r) len h) post r idx x n n' HI eq_refl Hab Hns)
      as (hp1 & r' & hp' & -> & Ehs & Hab' & HI' & Hfr). cbn [hheight] in *. rewrite Ehs.
    eexists. eexists. split; [reflexivity|]. split; [apply HI'|]. split; [|exact Hfr].
    unfold vabs. cbn [hroot hvlen hheight]. rewrite Hab'. reflexivity.
  - injection Hv as <-. cbn [vlen root height] in *. destruct (len <=? idx); [discriminate|].
    injection Hset as <-. eexists. eexists. split; [reflexivity|]. split; [exact HI|]. split; [reflexivity|auto].
Qed.

Theorem hvset_out_of_bounds : forall (hp : heap) v idx x, hvlen v <= idx -> hvset B hp v idx x = None.
Proof. intros hp v idx x H. unfold hvset. destruct (Nat.leb_spec (hvlen v) idx); [reflexivity|lia]. Qed.

(* ---- push *)
Lemma count_mid : forall (l1 l2 : list nat) a y,
  count_occ Nat.eq_dec (l1 ++ a :: l2) y = count_occ Nat.eq_dec (a :: l1 ++ l2) y.
Proof. intros. rewrite !count_occ_app. cbn [count_occ]. rewrite count_occ_app. destruct (Nat.eq_dec a y); lia. Qed.

Theorem hvpush_refines_frame : forall (hp : heap) pre v post x vv vv',
  hinv hp (pre ++ v :: post) -> vabs hp v = Some vv -> vpush B vv x = Some vv' ->
  exists hp' v', hvpush B hp v x = Some (hp', v')
    /\ hinv hp' (pre ++ v' :: post) /\ vabs hp' v' = Some vv'
    /\ (forall w, In w (pre ++ post) -> vabs hp' w = vabs hp w).
Proof.
  intros hp pre v post x vv vv' HI Hv Hpush.
  (* first the optional [add_level] *)
  assert (Hlevel : exists hp0 v1 vv1,
            (if hv_is_full B v then hv_add_level hp v else (hp, v)) = (hp0, v1)
            /\ (if is_full B vv then add_level vv else vv) = vv1
            /\ hinv hp0 (pre ++ v1 :: post) /\ vabs hp0 v1 = Some vv1
            /\ (forall w, In w (pre ++ post) -> vabs hp0 w = vabs hp w)).
  { destruct v as [rt len h]. unfold vabs in Hv. cbn [hroot hvlen hheight] in Hv.
    unfold hv_is_full, is_full, hv_add_level, add_level. cbn [hroot hvlen hheight].
    destruct HI as [I W].
    rewrite roots_of_mid in I. unfold root_list in I. cbn [hroot] in I.
    assert (Wv : hwf hp (mkHVec rt len h)).
    { rewrite Forall_forall in W. apply W. apply in_or_app. right. left. reflexivity. }
    assert (Hothers : forall (c0 : cell) w, In w (pre ++ post) -> vabs (hp ++ [c0]) w = vabs hp w).
    { intros c0 w Hw. unfold vabs. destruct (hroot w) as [rw|] eqn:Erw; [|reflexivity].
      assert (Hrw : rw < length hp).
      { apply (inv_roots _ _ I). pose proof (root_in w rw (pre ++ post) Hw Erw) as Hin.
        rewrite roots_of_app in Hin. apply in_app_or in Hin. apply in_or_app.
        destruct Hin; [left|right; apply in_or_app; right]; assumption. }
      rewrite (habs_ext hp _ _ (hheight w) rw I Hrw). reflexivity. }
    assert (Hlv : forall (c0 : cell) y, y < length hp -> lvat (hp ++ [c0]) y = lvat hp y).
    { intros c0 y Hy. unfold lvat. rewrite nth_error_app1 by exact Hy. reflexivity. }
    assert (Wothers : forall (c0 : cell) (v1 : hvec), hwf (hp ++ [c0]) v1 -> Forall (hwf (hp ++ [c0])) (pre ++ v1 :: post)).
    { intros c0 v1 W1. apply Forall_app in W. destruct W as [Wa Wb]. apply Forall_app. split.
      - eapply Forall_impl; [|exact Wa]. intros w. apply hwf_same_levels. apply Hlv.
      - constructor; [exact W1|]. apply Forall_inv_tail in Wb.
        eapply Forall_impl; [|exact Wb]. intros w. apply hwf_same_levels. apply Hlv. }
    destruct rt as [r|].
    - destruct (habs h hp r) as [n|] eqn:Hab; [|discriminate]. injection Hv as <-. cbn [root vlen height].
      cbn [app] in I. unfold hwf in Wv. cbn [hroot hheight] in Wv.
      destruct (len =? B ^ (h + 1)).
      + (* a new interior root above the old one *)
        unfold alloc. eexists. eexists. eexists. split; [reflexivity|]. split; [reflexivity|].
        assert (Hr : r < length hp) by (eapply lvat_Some; eauto).
        assert (I1 : inv (hp ++ [mkCell (HInt [r]) 1 (h + 1)]) (length hp :: roots_of pre ++ roots_of post)).
        { apply (inv_alloc hp _ (HInt [r]) (h + 1)).
          - cbn [kids app]. apply (inv_perm hp _ _ I). intros y. symmetry. apply count_mid.
          - intros k [<-|[]]. unfold lvat in Wv. destruct (nth_error hp r) as [ck|]; [|discriminate].
            cbn in Wv. injection Wv as Wv. exists ck. split; [reflexivity|lia]. }
        split; [split|split].
        * rewrite roots_of_mid. unfold root_list. cbn [hroot app].
          apply (inv_perm _ _ _ I1). intros y. apply count_mid.
        * apply Wothers. unfold hwf. cbn [hroot hheight]. unfold lvat.
          rewrite nth_alloc, Nat.ltb_irrefl, Nat.eqb_refl. reflexivity.
        * unfold vabs. cbn [hroot hvlen hheight]. rewrite Nat.add_1_r, habs_unfold. unfold nodeat.
          rewrite nth_alloc, Nat.ltb_irrefl, Nat.eqb_refl. cbn [option_map cnode map].
          rewrite (habs_ext hp _ _ h r I Hr), Hab. reflexivity.
        * intros w Hw. apply Hothers. exact Hw.
      + eexists. eexists. eexists. split; [reflexivity|]. split; [reflexivity|].
        split; [split; [rewrite roots_of_mid; exact I|exact W]|].
        split; [|auto]. unfold vabs. cbn [hroot hvlen hheight]. rewrite Hab. reflexivity.
    - (* no root yet: an empty leaf *)
      injection Hv as <-. cbn [root vlen height]. unfold alloc. cbn [app] in I.
      unfold hwf in Wv. cbn [hroot hheight] in Wv. subst h.
      eexists. eexists. eexists. split; [reflexivity|]. split; [reflexivity|].
      assert (I1 : inv (hp ++ [mkCell (HLeaf []) 1 0]) (length hp :: roots_of pre ++ roots_of post)).
      { apply (inv_alloc hp _ (HLeaf []) 0); [exact I|intros k []]. }
      split; [split|split].
      * rewrite roots_of_mid. unfold root_list. cbn [hroot app].
        apply (inv_perm _ _ _ I1). intros y. apply count_mid.
      * apply Wothers. unfold hwf. cbn [hroot hheight]. unfold lvat.
        rewrite nth_alloc, Nat.ltb_irrefl, Nat.eqb_refl. reflexivity.
      * unfold vabs. cbn [hroot hvlen hheight]. rewrite habs_unfold. unfold nodeat.
        rewrite nth_alloc, Nat.ltb_irrefl, Nat.eqb_refl. reflexivity.
      * intros w Hw. apply Hothers. exact Hw. }
  destruct Hlevel as (hp0 & v1 & vv1 & E1 & E2 & HI0 & Hv1 & Hfr0).
  unfold hvpush. rewrite E1. unfold vpush in Hpush. cbv zeta in Hpush. rewrite E2 in Hpush.
  destruct v1 as [rt1 len1 h1]. unfold vabs in Hv1. cbn [hroot hvlen hheight] in *.
  destruct rt1 as [r1|].
  - destruct (habs h1 hp0 r1) as [n1|] eqn:Hab; [|discriminate]. injection Hv1 as <-.
    cbn [root vlen height] in Hpush.
    destruct (node_set B h1 n1 len1 x) as [n1'|] eqn:Hns; [|discriminate]. injection Hpush as <-.
    destruct (root_update hp0 pre (mkHVec (Some r1) len1 h1) post r1 len1 x n1 n1' HI0 eq_refl Hab Hns)
      as (hp1 & r' & hp' & -> & Ehs & Hab' & HI' & Hfr). cbn [hheight] in *. rewrite Ehs.
    eexists. eexists. split; [reflexivity|]. split; [apply HI'|]. split.
    + unfold vabs. cbn [hroot hvlen hheight]. rewrite Hab'. reflexivity.
    + intros w Hw. rewrite (Hfr w Hw). apply Hfr0. exact Hw.
  - injection Hv1 as <-. cbn [root] in Hpush. discriminate.
Qed.

(* ---- new *)
Theorem hvnew_spec : forall (hp : heap) hs, hinv hp hs ->
  hinv hp (hvnew :: hs) /\ vabs hp hvnew = Some (@vnew A).
Proof.
  intros hp hs [I W]. split; [split|reflexivity].
  - exact I.
  - constructor; [reflexivity|exact W].
Qed.

Lemma hinv_empty : hinv (@nil cell) [].
Proof.
  split; [|constructor]. constructor.
  - intros l c E. destruct l; discriminate.
  - intros l c k E. destruct l; discriminate.
  - intros r [].
Qed.

End Handles.
