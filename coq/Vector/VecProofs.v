(* Vector-level theorems: [wf] is established by [vnew] and preserved by push / pop / set /
   truncate, these never panic on in-contract arguments, and each refines the corresponding list
   operation on [to_list].  Also [wf -> check_invariants = true]. *)
From Coq Require Import List Arith Bool Lia.
Import ListNotations.
From NV Require Import Vector.Model Vector.Wf Vector.ListLemmas Vector.NodeProofs.

Section Vec.
Context {A : Type}.
Variable B : nat.
Hypothesis HB : 2 <= B.
Notation node := (@node A).
Notation vec := (@vec A).
Notation pk := (@pk A B).
Notation wf := (@wf A B).
Notation cap := (cap B).
Notation nl := (@node_list A).

(* ---- constructing and destructing [wf] *)
Lemma wf_intro : forall h r len, pk h true r -> len = length (nl h r) -> (h = 0 \/ B ^ h < len) ->
  wf (mkVec (Some r) len h).
Proof.
  intros h r len P L Hh. unfold Wf.wf. cbn [root vlen height].
  destruct (pk_len B HB _ _ _ P) as (L1 & L2 & _). unfold Wf.cap in L2.
  split; [exact L|]. split.
  - symmetry. destruct h as [|h].
    + apply hfl_small; [exact HB|]. rewrite Nat.pow_1_r in L2. lia.
    + apply hfl_of_bounds; lia.
  - right. split; [exact P|]. apply (root_ok_iff B HB _ _ P). subst len. exact Hh.
Qed.

Lemma wf_empty_leaf : wf (mkVec (Some (Leaf [])) 0 0).
Proof.
  unfold Wf.wf. cbn [root vlen height node_list length]. split; [reflexivity|].
  split; [symmetry; apply hfl_small; lia|]. left. auto.
Qed.

Lemma wf_cases : forall v, wf v ->
  (root v = None /\ vlen v = 0 /\ height v = 0)
  \/ (root v = Some (Leaf []) /\ vlen v = 0 /\ height v = 0)
  \/ (exists r, root v = Some r /\ pk (height v) true r /\ vlen v = length (nl (height v) r)
                /\ 1 <= vlen v /\ vlen v <= cap (height v)
                /\ (height v = 0 \/ B ^ height v < vlen v) /\ root_children_ok r).
Proof.
  intros [rt L h] H. unfold Wf.wf in H. cbn [root vlen height] in *.
  destruct rt as [r|]; [|left; tauto].
  destruct H as (HL & Hh & [[H0 Hr]|[P Hc]]).
  - right. left. subst r. rewrite H0 in HL. cbn in HL. auto.
  - right. right. exists r. destruct (pk_len B HB _ _ _ P) as (L1 & L2 & _).
    split; [reflexivity|]. split; [exact P|]. split; [exact HL|]. split; [lia|]. split; [lia|].
    split; [|exact Hc]. rewrite HL. apply (root_ok_iff B HB _ _ P). exact Hc.
Qed.

Lemma wf_length : forall v, wf v -> length (to_list v) = vlen v.
Proof.
  intros v H. destruct (wf_cases v H) as [(Hr & HL & Hh)|[(Hr & HL & Hh)|(r & Hr & P & HL & _)]];
    unfold to_list; rewrite Hr.
  - rewrite HL. reflexivity.
  - rewrite HL, Hh. reflexivity.
  - rewrite HL. reflexivity.
Qed.

(* ---- new *)
Lemma vnew_wf : wf vnew.
Proof. unfold Wf.wf, vnew. cbn. auto. Qed.

Lemma vnew_list : to_list (@vnew A) = [].
Proof. reflexivity. Qed.

(* ---- push *)
Lemma node_set_empty_leaf : forall x : A, node_set B 0 (Leaf []) 0 x = Some (Leaf [x]).
Proof.
  intros x. cbn [node_set length]. rewrite Nat.mod_0_l by lia. reflexivity.
Qed.

Lemma wf_singleton : forall x : A, wf (mkVec (Some (Leaf [x])) 1 0).
Proof.
  intros x. apply wf_intro; [|reflexivity|left; reflexivity].
  cbn. repeat split; try lia; try discriminate.
Qed.

Theorem vpush_spec : forall v x, wf v ->
  exists v', vpush B v x = Some v' /\ wf v' /\ to_list v' = to_list v ++ [x]
             /\ vlen v' = vlen v + 1.
Proof.
  intros v x H. destruct (wf_cases v H) as [(Hr & HL & Hh)|[(Hr & HL & Hh)|(r & Hr & P & HL & L1 & L2 & Hb & Hc)]];
    destruct v as [rt L h]; cbn [root vlen height] in *; subst.
  - unfold vpush, is_full, add_level. cbn [root vlen height]. rewrite node_set_empty_leaf.
    eexists. split; [reflexivity|]. split; [apply wf_singleton|]. split; reflexivity.
  - unfold vpush, is_full, add_level. cbn [root vlen height].
    destruct (Nat.eqb_spec 0 (B ^ (0 + 1))) as [E|_].
    { pose proof (pow_pos B HB (0 + 1)). lia. }
    cbn [root vlen height]. rewrite node_set_empty_leaf.
    eexists. split; [reflexivity|]. split; [apply wf_singleton|]. split; reflexivity.
  - unfold vpush, is_full. cbn [root vlen height]. rewrite Nat.add_1_r. fold (cap h).
    destruct (Nat.eqb_spec (length (nl h r)) (cap h)) as [E|E].
    + (* full: add a level *)
      unfold add_level. cbn [root vlen height]. rewrite Nat.add_1_r.
      assert (P1 : pk (S h) true (Interior [r])).
      { apply (pk_S_intro B h true [] r); cbn [length]; auto; try lia; try discriminate. }
      assert (E1 : nl (S h) (Interior [r]) = nl h r) by (cbn [node_list flat_map]; apply app_nil_r).
      assert (Hpos : length (nl h r) mod cap (S h) = length (nl (S h) (Interior [r]))).
      { rewrite E1. apply Nat.mod_small.
        rewrite E, (cap_S B). pose proof (cap_pos B HB h). nia. }
      destruct (node_set_push B HB _ _ _ x P1 Hpos) as (n' & -> & Pn & Ln).
      eexists. split; [reflexivity|]. rewrite E1 in Ln.
      split; [|split; [exact Ln|reflexivity]].
      apply wf_intro; [exact Pn| |].
      * rewrite Ln, app_length. reflexivity.
      * right. rewrite E. unfold Wf.cap. lia.
    + cbn [root vlen height].
      assert (Hpos : length (nl h r) mod cap h = length (nl h r)) by (apply Nat.mod_small; lia).
      destruct (node_set_push B HB _ _ _ x P Hpos) as (n' & -> & Pn & Ln).
      eexists. split; [reflexivity|]. split; [|split; [exact Ln|reflexivity]].
      apply wf_intro; [exact Pn| |].
      * rewrite Ln, app_length. reflexivity.
      * destruct Hb as [Hb|Hb]; [left; exact Hb|right; lia].
Qed.

(* ---- pop *)
Theorem vpop_spec : forall v, wf v ->
  exists v', vpop v = Some (last_opt (to_list v), v') /\ wf v'
             /\ to_list v' = removelast (to_list v) /\ vlen v' = vlen v - 1
             /\ (to_list v = [] -> v' = v).
Proof.
  intros v H. destruct (wf_cases v H) as [(Hr & HL & Hh)|[(Hr & HL & Hh)|(r & Hr & P & HL & L1 & L2 & Hb & Hc)]];
    destruct v as [rt L h]; cbn [root vlen height] in *; subst.
  - exists (mkVec None 0 0). unfold vpop, to_list. cbn. auto 6.
  - exists (mkVec (Some (Leaf [])) 0 0). unfold vpop, to_list. cbn. auto 6.
  - unfold vpop, to_list. cbn [root vlen height].
    destruct (Nat.eqb_spec (length (nl h r)) 0) as [E|_]; [lia|].
    destruct h as [|h].
    + (* a single leaf *)
      destruct (pk_0_inv B _ _ P) as (d & -> & D1 & D2 & _). cbn [node_list node_pop] in *.
      destruct (snoc_cases d) as [->|(d' & x & ->)]; [cbn in D1; lia|].
      rewrite last_opt_snoc, removelast_last. rewrite app_length in *. cbn [length] in *.
      eexists. split; [reflexivity|]. cbn [root vlen height node_list].
      replace (length d' + 1 - 1) with (length d') by lia.
      split; [|split; [reflexivity|split; [reflexivity|]]].
      * destruct d' as [|a d']; [apply wf_empty_leaf|].
        apply wf_intro; [|reflexivity|left; reflexivity].
        cbn [Wf.pk length] in *. repeat split; try lia; try discriminate.
      * intros E. destruct d'; discriminate.
    + destruct (node_pop_spec B HB _ _ P) as (x & r' & e & -> & Lr & He1 & He2).
      destruct Hb as [Hb|Hb]; [discriminate|].
      rewrite Lr, app_length in Hb, L1, L2 |- *. cbn [length] in *.
      rewrite last_opt_snoc, removelast_last.
      pose proof (pow_pos B HB (S h)) as Hpp.
      destruct e.
      { rewrite (He1 eq_refl) in Hb. cbn [length] in Hb. lia. }
      specialize (He2 eq_refl).
      destruct (pk_S_inv B _ _ _ He2) as (init & c & -> & I1 & I2 & Hi & Pc).
      replace (length (nl (S h) (Interior (init ++ [c]))) + 1 - 1)
        with (length (nl (S h) (Interior (init ++ [c])))) by lia.
      destruct init as [|a init].
      * (* the root is left with a single child: it becomes the root *)
        cbn [app]. eexists. split; [reflexivity|]. cbn [root vlen height].
        cbn [node_list flat_map app] in *. rewrite app_nil_r in *.
        rewrite Nat.sub_succ, Nat.sub_0_r.
        split; [|split; [reflexivity|split; [reflexivity|]]].
        -- apply wf_intro; [exact Pc|reflexivity|]. right.
           pose proof (pow_lt_S B HB h). lia.
        -- intros E. apply (f_equal (@length _)) in E. rewrite app_length in E. cbn in E. lia.
      * cbn [app]. destruct (init ++ [c]) as [|c2 t] eqn:E2; [destruct init; discriminate|].
        eexists. split; [reflexivity|]. rewrite <- E2. cbn [root vlen height].
        change (a :: init ++ [c]) with ((a :: init) ++ [c]).
        split; [|split; [reflexivity|split; [reflexivity|]]].
        -- apply wf_intro; [exact He2|reflexivity|].
           apply (root_ok_iff B HB _ _ He2). cbn. rewrite app_length. cbn. lia.
        -- intros E. apply (f_equal (@length _)) in E. rewrite app_length in E. cbn in E. lia.
Qed.

(* ---- get *)
Theorem vget_spec : forall v idx, wf v -> vget B v idx = nth_error (to_list v) idx.
Proof.
  intros v idx H. pose proof (wf_length v H) as HLen. unfold vget.
  destruct (Nat.leb_spec (vlen v) idx) as [Hle|Hlt].
  - symmetry. apply nth_error_None. lia.
  - destruct (wf_cases v H) as [(Hr & HL & Hh)|[(Hr & HL & Hh)|(r & Hr & P & HL & L1 & L2 & Hb & Hc)]];
      try lia.
    unfold to_list. rewrite Hr. rewrite (node_get_spec B HB _ _ _ idx P).
    rewrite Nat.mod_small by lia. reflexivity.
Qed.

(* ---- set *)
Theorem vset_spec : forall v idx x, wf v -> idx < vlen v ->
  exists v', vset B v idx x = Some v' /\ wf v' /\ to_list v' = list_set (to_list v) idx x
             /\ vlen v' = vlen v.
Proof.
  intros v idx x H Hlt. unfold vset. destruct (Nat.leb_spec (vlen v) idx) as [Hle|_]; [lia|].
  destruct (wf_cases v H) as [(Hr & HL & Hh)|[(Hr & HL & Hh)|(r & Hr & P & HL & L1 & L2 & Hb & Hc)]];
    try lia.
  unfold to_list. rewrite Hr.
  assert (Hm : idx mod cap (height v) = idx) by (apply Nat.mod_small; lia).
  destruct (node_set_in B HB _ _ _ idx x P ltac:(rewrite Hm; lia)) as (r' & -> & Pr & Lr).
  rewrite Hm in Lr.
  eexists. split; [reflexivity|]. cbn [root vlen height]. split; [|auto].
  apply wf_intro; [exact Pr| |exact Hb]. rewrite Lr, list_set_length. exact HL.
Qed.

Lemma vset_out_of_bounds : forall (v : vec) idx x, vlen v <= idx -> vset B v idx x = None.
Proof. intros v idx x H. unfold vset. destruct (Nat.leb_spec (vlen v) idx); [reflexivity|lia]. Qed.

(* ---- truncate *)
Lemma trunc_tail : forall nh rm n len, pk nh rm n -> len <= length (nl nh n) ->
  nh = height_for_length B len ->
  exists n', node_truncate B nh n len = Some n' /\ wf (mkVec (Some n') len nh)
             /\ nl nh n' = firstn len (nl nh n).
Proof.
  intros nh rm n len P Hle Hnh. subst nh. destruct (hfl_bounds B HB len) as [Hb1 Hb2].
  destruct (Nat.eq_dec len 0) as [->|Hne].
  - rewrite (hfl_small B HB 0) in * by lia.
    destruct (pk_0_inv B _ _ P) as (d & -> & _). cbn [node_truncate node_list firstn].
    eexists. split; [reflexivity|]. split; [apply wf_empty_leaf|reflexivity].
  - destruct (node_truncate_spec B HB _ _ _ len P ltac:(lia) Hle) as (n' & -> & Pn & Ln).
    eexists. split; [reflexivity|]. split; [|exact Ln].
    apply wf_intro; [exact Pn| |].
    + rewrite Ln, firstn_length_le; [reflexivity|exact Hle].
    + destruct (height_for_length B len); [left; reflexivity|right; apply Hb2; lia].
Qed.

Theorem vtruncate_spec : forall v len, wf v ->
  exists v', vtruncate B v len = Some v' /\ wf v' /\ to_list v' = firstn len (to_list v)
             /\ vlen v' = Nat.min len (vlen v).
Proof.
  intros v len H. pose proof (wf_length v H) as HLen. unfold vtruncate.
  destruct (Nat.leb_spec (vlen v) len) as [Hle|Hlt].
  - exists v. split; [reflexivity|]. split; [exact H|]. split; [|lia].
    rewrite firstn_all2; [reflexivity|lia].
  - destruct (wf_cases v H) as [(Hr & HL & Hh)|[(Hr & HL & Hh)|(r & Hr & P & HL & L1 & L2 & Hb & Hc)]];
      try lia.
    destruct v as [rt L h]; cbn [root vlen height] in *; subst rt. unfold to_list. cbn [root height].
    set (nh := height_for_length B len) in *.
    destruct (hfl_bounds B HB len) as [Hb1 Hb2]. fold nh in Hb1, Hb2.
    assert (Hnh : nh <= h).
    { destruct (Nat.le_gt_cases nh h) as [?|Hgt]; [assumption|exfalso].
      specialize (Hb2 ltac:(lia)). pose proof (pow_mono B HB (S h) nh ltac:(lia)).
      unfold Wf.cap in L2. lia. }
    destruct (Nat.ltb_spec nh h) as [Hlt2|Hge].
    + (* descend along first children to the new root *)
      destruct h as [|h]; [lia|].
      destruct Hb as [Hb|Hb]; [discriminate|].
      destruct (pk_S_inv B _ _ _ P) as (init & c & -> & I1 & I2 & Hi & Pc).
      destruct init as [|c0 init]; [cbn in Hc; lia|].
      pose proof (Forall_inv Hi) as Pc0.
      replace (S h - nh) with (S (h - nh)) by lia. cbn [app first_descent].
      destruct (first_descent_full B HB (h - nh) h c0 Pc0 ltac:(lia)) as (n1 & -> & Pn1 & Ln1).
      replace (h - (h - nh)) with nh in * by lia.
      pose proof (pk_full_len B HB _ _ Pn1) as Ln1'.
      pose proof (pk_full_len B HB _ _ Pc0) as Lc0.
      pose proof (cap_mono B HB nh h ltac:(lia)) as Hcm.
      destruct (trunc_tail nh false n1 len Pn1 ltac:(unfold Wf.cap in *; lia) eq_refl)
        as (n2 & -> & Wn2 & Ln2).
      eexists. split; [reflexivity|]. split; [exact Wn2|]. split; [|cbn [vlen]; lia].
      unfold to_list. cbn [root height]. rewrite Ln2, Ln1, firstn_firstn.
      replace (Nat.min len (cap nh)) with len by (unfold Wf.cap in *; lia).
      cbn [node_list flat_map]. symmetry. apply firstn_app_le. unfold Wf.cap in *. lia.
    + assert (nh = h) by lia. subst h.
      destruct (trunc_tail nh true r len P ltac:(lia) eq_refl) as (n2 & -> & Wn2 & Ln2).
      eexists. split; [reflexivity|]. split; [exact Wn2|]. split; [exact Ln2|cbn [vlen]; lia].
Qed.

(* ---- iter_starting_at *)
Theorem viter_from_spec : forall v idx, wf v ->
  viter_from B v idx = if idx <=? vlen v then Some (skipn idx (to_list v)) else None.
Proof.
  intros v idx H. pose proof (wf_length v H) as HLen. unfold viter_from.
  destruct (Nat.eqb_spec idx (vlen v)) as [E|NE].
  - destruct (Nat.leb_spec idx (vlen v)); [|lia]. rewrite skipn_all2 by lia. reflexivity.
  - destruct (Nat.ltb_spec (vlen v) idx) as [Hgt|Hle].
    + destruct (Nat.leb_spec idx (vlen v)); [lia|reflexivity].
    + destruct (Nat.leb_spec idx (vlen v)); [|lia].
      destruct (wf_cases v H) as [(Hr & HL & Hh)|[(Hr & HL & Hh)|(r & Hr & P & HL & L1 & L2 & Hb & Hc)]];
        try lia.
      unfold to_list. rewrite Hr.
      assert (Hm : idx mod cap (height v) = idx) by (apply Nat.mod_small; lia).
      rewrite (node_iter_from_spec B HB _ _ _ idx P) by (rewrite Hm; lia).
      rewrite Hm. reflexivity.
Qed.

(* ---- the executable invariant check of the crate accepts every [wf] vector *)
Definition packed_children (f : node -> bool -> bool) : list node -> bool :=
  fix go (l : list node) : bool :=
    match l with
    | [] => true
    | [c] => f c true
    | c :: t => f c false && go t
    end.

Lemma is_packed_rec_S : forall h ch rm,
  is_packed_rec B (S h) (Interior ch) rm
  = match ch with [] => false | _ => packed_children (fun c b => is_packed_rec B h c b) ch end.
Proof. intros h ch rm. destruct ch; reflexivity. Qed.

Lemma is_packed_pk : forall h rm n rm', pk h rm n -> (rm = false \/ rm' = true) ->
  is_packed_rec B h n rm' = true.
Proof.
  induction h as [|h IH]; intros rm n rm' P Hrm.
  - destruct (pk_0_inv B _ _ P) as (d & -> & D1 & D2 & D3). cbn [is_packed_rec].
    destruct Hrm as [->| ->]; [|apply orb_true_r].
    rewrite (D3 eq_refl), Nat.eqb_refl. reflexivity.
  - destruct n as [d|ch]; [cbn in P; contradiction|].
    destruct (pk_S_ch B HB _ _ _ P) as (L1 & L2 & Hp). rewrite is_packed_rec_S.
    destruct ch as [|c0 ch0]; [cbn in L1; lia|].
    remember (c0 :: ch0) as l eqn:El. clear El L1 L2 P c0 ch0.
    induction Hp as [c Pc|c l Pc Hl IHl].
    + cbn [packed_children]. apply (IH rm c true Pc). right. reflexivity.
    + pose proof (pkl_nonempty _ _ _ Hl). destruct l as [|c2 l]; [congruence|].
      cbn [packed_children] in *. rewrite (IH false c false Pc (or_introl eq_refl)). exact IHl.
Qed.

Theorem wf_check_invariants : forall v, wf v -> check_invariants B v = true.
Proof.
  intros v H. destruct (wf_cases v H) as [(Hr & HL & Hh)|[(Hr & HL & Hh)|(r & Hr & P & HL & L1 & L2 & Hb & Hc)]];
    unfold check_invariants; rewrite Hr.
  - rewrite HL, Hh, (hfl_small B HB 0) by lia. reflexivity.
  - rewrite HL, Hh. cbn [is_packed_rec length node_len node_list].
    rewrite (hfl_small B HB 0) by lia. rewrite orb_true_r. reflexivity.
  - rewrite (is_packed_pk _ _ _ true P (or_intror eq_refl)). unfold node_len. rewrite <- HL, Nat.eqb_refl.
    assert (Hh : height v = height_for_length B (vlen v)).
    { unfold Wf.wf in H. rewrite Hr in H. tauto. }
    rewrite <- Hh, Nat.eqb_refl. destruct r as [d|ch]; [reflexivity|].
    cbn in Hc. destruct (Nat.ltb_spec 1 (length ch)); [reflexivity|lia].
Qed.

End Vec.
