From Coq Require Import ZArith QArith String List Bool Lia.
From NV Require Import Crash.Outcome Crash.MergeDispatch.

Lemma Qeq_bool_cmp : forall a b, Qeq_bool a b = true <-> (a ?= b)%Q = Eq.
Proof. intros a b. rewrite Qeq_bool_iff. apply Qeq_alt. Qed.

Lemma Qcmp_flip_lt : forall a b, (a ?= b)%Q = Lt -> (b ?= a)%Q = Gt.
Proof. intros a b H. rewrite <- Qcompare_antisym, H. reflexivity. Qed.

(* the two instances agree: [==] is [cmp = Equal] *)
Lemma prio_eq_cmp : forall a b, prio_eq a b = true <-> prio_cmp a b = Eq.
Proof.
  intros [| |p| ] [| |q| ]; cbn [prio_eq prio_cmp]; try (split; (reflexivity || discriminate)).
  - rewrite Qeq_bool_cmp. split; intros H.
    + rewrite <- Qcompare_antisym, H. reflexivity.
    + rewrite <- Qcompare_antisym, H. reflexivity.
  - apply Qeq_bool_cmp.
  - apply Qeq_bool_cmp.
Qed.

Lemma prio_cmp_flip_lt : forall a b, prio_cmp a b = Lt -> prio_cmp b a = Gt.
Proof.
  intros [| |p| ] [| |q| ]; cbn [prio_cmp]; intros H; try reflexivity; try discriminate; now apply Qcmp_flip_lt.
Qed.

(* the unreachable!() arm is unreachable: for every pair of priorities exactly one of ==, >, < holds *)
Theorem no_panic_select_value : forall has1 has2 p1 p2, no_panic (select_value has1 has2 p1 p2).
Proof.
  intros [|] [|] p1 p2 site; cbn [select_value]; try discriminate.
  destruct (prio_eq p1 p2) eqn:E; [discriminate|].
  unfold prio_gt. destruct (prio_cmp p1 p2) eqn:C.
  - apply prio_eq_cmp in C. congruence.
  - rewrite (prio_cmp_flip_lt _ _ C). discriminate.
  - discriminate.
Qed.

(* Neutral and Numeral 0 are merged as equals, in both orders *)
Example neutral_is_zero : select_value true true Neutral (Numeral 0) = Val MergeBoth
                       /\ select_value true true (Numeral (0 # 5)) Neutral = Val MergeBoth.
Proof. split; reflexivity. Qed.
