From Coq Require Import ZArith QArith String List Bool Lia.
From NV Require Import Crash.Outcome Crash.NumOps Crash.Index.
Import ListNotations.
Open Scope Z_scope.

Lemma lenZ_nonneg : forall A (l : list A), 0 <= lenZ l.
Proof. intros. unfold lenZ. lia. Qed.

Lemma lenZ_cons : forall A (x : A) l, lenZ (x :: l) = lenZ l + 1.
Proof. intros. unfold lenZ. cbn [List.length]. lia. Qed.

Lemma nthZ_some : forall A (l : list A) i, 0 <= i < lenZ l -> exists x, nthZ i l = Some x.
Proof.
  induction l as [|x t IH]; intros i H.
  - unfold lenZ in H. cbn in H. lia.
  - cbn [nthZ]. destruct (i <=? 0) eqn:E; [eauto|].
    apply Z.leb_gt in E. apply IH. rewrite lenZ_cons in H. lia.
Qed.

(* ---- substring *)
Lemma no_panic_substring : forall A (s : list A) start end_, no_panic (substring s start end_).
Proof.
  intros A s start end_ site. unfold substring.
  destruct (usize_try_from start) as [st|]; [|discriminate].
  destruct (usize_try_from end_) as [en|]; [|discriminate].
  destruct (skipZ st s) eqn:F; [discriminate|].
  destruct (en <? st) eqn:L; [discriminate|].
  apply Z.ltb_ge in L. unfold usub.
  destruct (st <=? en) eqn:L2; [|apply Z.leb_gt in L2; lia].
  cbn [bind]. match goal with |- (if ?c then _ else _) <> _ => destruct c end; discriminate.
Qed.

(* the [end < start] test is what keeps the subtraction from overflowing *)
Lemma substring_unguarded_panics :
  exists (s : list nat) start end_ site, substring_unguarded s start end_ = Panic site.
Proof.
  exists [1%nat; 2%nat; 3%nat], (2 # 1)%Q, (1 # 1)%Q, "attempt to subtract with overflow"%string.
  reflexivity.
Qed.

(* ---- array slice *)
Lemma no_panic_array_slice : forall A start end_ (arr : list A), no_panic (op_array_slice start end_ arr).
Proof.
  intros A start end_ arr site. unfold op_array_slice.
  destruct (usize_try_from start) as [st|]; [|discriminate].
  destruct (usize_try_from end_) as [en|]; [|discriminate].
  destruct ((en <? st) || (lenZ arr <? en))%bool eqn:G; [discriminate|].
  apply orb_false_iff in G. destruct G as [G1 G2].
  apply Z.ltb_ge in G1. apply Z.ltb_ge in G2.
  unfold vec_slice.
  destruct (st <=? en) eqn:E1; [|apply Z.leb_gt in E1; lia].
  destruct (en <=? lenZ arr) eqn:E2; [|apply Z.leb_gt in E2; lia].
  cbn [negb]. discriminate.
Qed.

(* ---- array at *)
Lemma usize_try_from_nonneg : forall q z, usize_try_from q = Some z -> 0 <= z.
Proof.
  intros q z. unfold usize_try_from, try_from_range.
  destruct (is_int q) as [z0|]; [|discriminate].
  destruct (0 <=? z0) eqn:E; cbn [andb]; [|discriminate].
  destruct (z0 <=? 2 ^ 64 - 1); [|discriminate].
  intros [= <-]. now apply Z.leb_le in E.
Qed.

Lemma no_panic_array_at : forall A (arr : list A) n, no_panic (op_array_at arr n).
Proof.
  intros A arr n site. unfold op_array_at.
  destruct (usize_try_from n) as [i|] eqn:U; [|discriminate].
  destruct arr as [|x t]; [discriminate|].
  destruct (lenZ (x :: t) <=? i) eqn:G; [discriminate|].
  apply Z.leb_gt in G. unfold vec_get.
  destruct (lenZ (x :: t) <=? i) eqn:G'; [apply Z.leb_le in G'; lia|].
  destruct (nthZ_some _ (x :: t) i) as [y Hy].
  { apply usize_try_from_nonneg in U. lia. }
  rewrite Hy. cbn [unwrap]. discriminate.
Qed.

Lemma no_panic_array_gen : forall n, no_panic (op_array_gen_len n).
Proof.
  intros n site. unfold op_array_gen_len.
  destruct (Qle_bool 0 n); [|discriminate].
  destruct (u32_try_from n); discriminate.
Qed.

(* ---- find_all: the code before c9daf53 refuted, the current code proved *)
Lemma find_all_index_panics :
  exists offsets len m site, find_all_index offsets len m = Panic site.
Proof.
  (* "abc": clusters at 0, 1, 2; the empty match of `b*` at the end of the string starts at 3 *)
  exists [0; 1; 2], 3, 3, "find_all_regex: first_match.start() occurs on a cluster boundary"%string.
  reflexivity.
Qed.

Lemma position_app_found : forall m l i, existsb (Z.eqb m) l = true -> exists k, position m l i = Some k.
Proof.
  induction l as [|x t IH]; intros i H; cbn in H; [discriminate|].
  cbn [position]. rewrite Z.eqb_sym. destruct (m =? x) eqn:E; [eauto|].
  cbn in H. now apply IH.
Qed.

Lemma position_last : forall m l i, exists k, position m (l ++ [m]) i = Some k.
Proof.
  induction l as [|x t IH]; intros i; cbn [app position].
  - rewrite Z.eqb_refl. eauto.
  - destruct (x =? m); eauto.
Qed.

Lemma existsb_app_l : forall m l l', existsb (Z.eqb m) l = true -> existsb (Z.eqb m) (l ++ l') = true.
Proof. intros. rewrite existsb_app, H. reflexivity. Qed.

Lemma no_panic_find_all_fixed : forall offsets len m, no_panic (find_all_index_fixed offsets len m).
Proof.
  intros offsets len m site. unfold find_all_index_fixed.
  destruct (is_boundary offsets len m) eqn:B; [|discriminate].
  unfold is_boundary in B. apply orb_true_iff in B. destruct B as [B|B].
  - destruct (position_app_found m (offsets ++ [len]) 0) as [k Hk].
    { now apply existsb_app_l. }
    rewrite Hk. cbn [unwrap]. discriminate.
  - apply Z.eqb_eq in B. subst len.
    destruct (position_last m offsets 0) as [k Hk]. rewrite Hk. cbn [unwrap]. discriminate.
Qed.

(* the unrepaired function panics exactly for a match that starts at the end of the string *)
Lemma find_all_index_panics_iff : forall offsets len m,
  (exists site, find_all_index offsets len m = Panic site) <->
  (m = len /\ existsb (Z.eqb m) offsets = false).
Proof.
  intros offsets len m. unfold find_all_index, is_boundary. split.
  - intros [site H]. destruct (existsb (Z.eqb m) offsets) eqn:E.
    + cbn in H. destruct (position_app_found m offsets 0 E) as [k Hk]. rewrite Hk in H. discriminate.
    + cbn in H. destruct (m =? len) eqn:E2; [|discriminate]. apply Z.eqb_eq in E2. auto.
  - intros [-> E]. rewrite E, Z.eqb_refl. cbn.
    assert (P : forall l i, existsb (Z.eqb len) l = false -> position len l i = None).
    { induction l as [|x t IH]; intros i H; cbn in *; [reflexivity|].
      apply orb_false_iff in H. destruct H as [H1 H2]. rewrite Z.eqb_sym, H1. now apply IH. }
    rewrite (P _ _ E). cbn. eauto.
Qed.
