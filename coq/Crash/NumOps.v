(* C10 (a) — number primops of core/src/eval/operation.rs with the panics of the arithmetic
   library (malachite) explicit.

   Library layer ("what malachite does", read from malachite-q 0.6 and exercised by the
   correspondence run):
     Rational / Rational          panics when the divisor is zero
     Rational::pow(i64)           panics when the base is zero and the exponent negative
                                  (reciprocal of zero)
     Integer::rounding_from(q, Down), f64::rounding_from(q, Nearest), i64/u32/usize::try_from(q)
                                  total
     Rational::try_from_float_simplest(f64)  Err for NaN and the infinities
   Floats are abstract: a float is finite (an exact rational), an infinity or NaN, and the float
   functions (powf, ln, cos ...) are arbitrary functions on that type — the theorems hold for
   every such function, so nothing is assumed about IEEE arithmetic. *)
From Coq Require Import ZArith QArith Qreduction Qpower String List Bool.
From NV Require Import Crash.Outcome.
Import ListNotations.
Open Scope Q_scope.

(* ---------------------------------------------------------------- library layer *)

Definition qzero (q : Q) : bool := Z.eqb (Qnum q) 0.

Definition rat_div (a b : Q) : outcome Q :=
  if qzero b then Panic "malachite: Rational / 0" else Val (Qred (a / b)).

Definition rat_pow (a : Q) (n : Z) : outcome Q :=
  if (Z.ltb n 0 && qzero a)%bool then Panic "malachite: Rational::pow, reciprocal of 0"
  else Val (Qred (Qpower a n)).

(* Integer::rounding_from(q, RoundingMode::Down): towards zero *)
Definition rounding_down (q : Q) : Z := Z.quot (Qnum q) (Zpos (Qden q)).

Definition is_int (q : Q) : option Z :=
  let r := Qred q in if Pos.eqb (Qden r) 1 then Some (Qnum r) else None.

Definition try_from_range (lo hi : Z) (q : Q) : option Z :=
  match is_int q with
  | Some z => if (Z.leb lo z && Z.leb z hi)%bool then Some z else None
  | None => None
  end.

Definition i64_try_from : Q -> option Z := try_from_range (- 2 ^ 63) (2 ^ 63 - 1).
Definition u32_try_from : Q -> option Z := try_from_range 0 (2 ^ 32 - 1).
Definition usize_try_from : Q -> option Z := try_from_range 0 (2 ^ 64 - 1).

Inductive fl := Fin (q : Q) | Inf (neg : bool) | NaN.

Definition try_from_float_simplest (f : fl) : option Q :=
  match f with Fin q => Some (Qred q) | _ => None end.

(* ---------------------------------------------------------------- primops *)

Section Ops.
  (* f64::rounding_from(_, Nearest) and the float functions: arbitrary *)
  Variable to_f64 : Q -> fl.
  Variable powf : fl -> fl -> fl.
  Variable atan2 : fl -> fl -> fl.
  Variable logf : fl -> Q -> fl.          (* log2 / log10 / log base, chosen on the exact base *)
  Variable f1 : fl -> fl.                 (* cos, sin, tan, arccos, ... *)

  Definition of_float (what : string) (f : fl) : outcome Q :=
    match try_from_float_simplest f with
    | Some q => Val q
    | None => Error ("invalid arithmetic operation: " ++ what)
    end.

  (* BinaryOp::Div *)
  Definition op_div (n1 n2 : Q) : outcome Q :=
    if qzero n2 then Error "division by zero" else rat_div n1 n2.

  (* BinaryOp::Modulo *)
  Definition op_mod (n1 n2 : Q) : outcome Q :=
    if qzero n2 then Error "division by zero (%)"
    else
      do d <- rat_div n1 n2;
      let quotient := inject_Z (rounding_down d) in
      Val (Qred (n1 - quotient * n2)).

  (* BinaryOp::Pow, the three-way split: exponent fits i64 -> exact (zero base with a negative
     exponent is a division by zero error, guard added by commit c4c4d42); otherwise through f64 *)
  Definition op_pow (n1 n2 : Q) : outcome Q :=
    match i64_try_from n2 with
    | Some e =>
        if (Z.ltb e 0 && qzero n1)%bool then Error "division by zero"
        else rat_pow n1 e
    | None => of_float "pow" (powf (to_f64 n1) (to_f64 n2))
    end.

  (* the same primop before c4c4d42 (no guard): kept to show what the guard excludes *)
  Definition op_pow_unguarded (n1 n2 : Q) : outcome Q :=
    match i64_try_from n2 with
    | Some e => rat_pow n1 e
    | None => of_float "pow" (powf (to_f64 n1) (to_f64 n2))
    end.

  (* number_op1 (cos, sin, tan, arccos, arcsin, arctan) *)
  Definition op_float1 (n : Q) : outcome Q := of_float "op1" (f1 (to_f64 n)).

  (* BinaryOp::NumberArcTan2 *)
  Definition op_atan2 (n1 n2 : Q) : outcome Q := of_float "arctan2" (atan2 (to_f64 n1) (to_f64 n2)).

  (* BinaryOp::NumberLog *)
  Definition op_log (n1 n2 : Q) : outcome Q := of_float "log" (logf (to_f64 n1) n2).
End Ops.

(* the exact part, without floats, for extraction: [None] = the f64 path *)
Definition pow_exact (n1 n2 : Q) : option (outcome Q) :=
  match i64_try_from n2 with
  | Some e =>
      Some (if (Z.ltb e 0 && qzero n1)%bool then Error "division by zero" else rat_pow n1 e)
  | None => None
  end.

Definition div_exact (n1 n2 : Q) : outcome Q := if qzero n2 then Error "division by zero" else rat_div n1 n2.
Definition mod_exact (n1 n2 : Q) : outcome Q :=
  if qzero n2 then Error "division by zero (%)"
  else do d <- rat_div n1 n2; Val (Qred (n1 - inject_Z (rounding_down d) * n2)).
