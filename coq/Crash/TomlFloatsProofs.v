From Coq Require Import String List Bool.
From NV Require Import Crash.Outcome Crash.TomlFloats.
Import ListNotations.

(* induction principles for the nested types *)
Fixpoint value_ind' (P : value -> Prop)
  (Hf : forall b, P (VFloat b)) (Ho : P VOther)
  (Ha : forall vs, Forall P vs -> P (VArray vs))
  (Hi : forall vs, Forall P vs -> P (VInline vs)) (v : value) : P v :=
  match v with
  | VFloat b => Hf b
  | VOther => Ho
  | VArray vs => Ha vs ((fix go (l : list value) : Forall P l :=
                           match l with [] => Forall_nil P | x :: t => Forall_cons x (value_ind' P Hf Ho Ha Hi x) (go t) end) vs)
  | VInline vs => Hi vs ((fix go (l : list value) : Forall P l :=
                            match l with [] => Forall_nil P | x :: t => Forall_cons x (value_ind' P Hf Ho Ha Hi x) (go t) end) vs)
  end.

Fixpoint item_ind' (P : item -> Prop)
  (Hn : P INone) (Hv : forall v, P (IValue v))
  (Ht : forall is, Forall P is -> P (ITable is))
  (Ha : forall ts, Forall (Forall P) ts -> P (IAoT ts)) (i : item) : P i :=
  match i with
  | INone => Hn
  | IValue v => Hv v
  | ITable is => Ht is ((fix go (l : list item) : Forall P l :=
                           match l with [] => Forall_nil P | x :: t => Forall_cons x (item_ind' P Hn Hv Ht Ha x) (go t) end) is)
  | IAoT ts => Ha ts ((fix go2 (ll : list (list item)) : Forall (Forall P) ll :=
                         match ll with
                         | [] => Forall_nil _
                         | l :: tl => Forall_cons l ((fix go (l : list item) : Forall P l :=
                                        match l with [] => Forall_nil P | x :: t => Forall_cons x (item_ind' P Hn Hv Ht Ha x) (go t) end) l) (go2 tl)
                         end) ts)
  end.

Lemma fold_seq_ok : forall A (f : A -> outcome unit) (chk : A -> bool) l,
  Forall (fun x => chk x = true -> f x = Val tt) l -> forallb chk l = true ->
  fold_right (fun x acc => seq (f x) acc) (Val tt) l = Val tt.
Proof.
  intros A f chk l H. induction H as [|x t Hx Ht IH]; intros C; cbn in *; [reflexivity|].
  apply andb_true_iff in C. destruct C as [C1 C2]. rewrite (Hx C1). cbn. now apply IH.
Qed.

Lemma convert_value_ok : forall v, check_value v = true -> convert_value v = Val tt.
Proof.
  induction v using value_ind'; cbn [check_value convert_value]; intros C.
  - subst. reflexivity.
  - reflexivity.
  - now apply (fold_seq_ok _ convert_value check_value).
  - now apply (fold_seq_ok _ convert_value check_value).
Qed.

Lemma convert_item_ok : forall i, check_floats i = true -> convert_item i = Val tt.
Proof.
  induction i using item_ind'; cbn [check_floats convert_item]; intros C.
  - reflexivity.
  - now apply convert_value_ok.
  - now apply (fold_seq_ok _ convert_item check_floats).
  - apply (fold_seq_ok _ (fun t => fold_right (fun x acc' => seq (convert_item x) acc') (Val tt) t) (forallb check_floats)); [|exact C].
    induction H as [|t tl Ht Htl IH]; constructor; [|apply IH; cbn in C; apply andb_true_iff in C; tauto].
    intros Ct. now apply (fold_seq_ok _ convert_item check_floats).
Qed.

(* importing a TOML document never reaches the expect of number_from_float: a non-finite float
   anywhere in the tree is the structured parse error *)
Theorem no_panic_toml_import : forall doc, no_panic (from_doc doc).
Proof.
  intros doc site. unfold from_doc. destruct (check_floats doc) eqn:C; [|discriminate].
  rewrite (convert_item_ok _ C). discriminate.
Qed.

(* the conversion alone does panic: the check is what protects the expect *)
Lemma convert_panics_without_check : exists doc site, convert_item doc = Panic site.
Proof. exists (IValue (VFloat false)). eexists. reflexivity. Qed.

(* a walk that skips inline tables below values is not enough: an inline table inside an array *)
Lemma check_without_inline_arm_is_unsound : exists v site,
  check_value_no_inline v = true /\ convert_value v = Panic site.
Proof. exists (VArray [VInline [VFloat true; VFloat false]]). eexists. split; reflexivity. Qed.

Example toml_doc_example :
  from_doc (ITable [IValue (VArray [VInline [VFloat true; VOther]]); IAoT [[IValue VOther]; [ITable [IValue (VFloat true)]]]]) = Val tt.
Proof. reflexivity. Qed.
