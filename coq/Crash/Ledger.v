(* C10 — the panic-site ledger.

   checks/c10_sites.py lists in Gen/PanicSites.v every panic-capable site (unwrap, expect, panic!,
   unreachable!, unimplemented!, assert!, debug_assert!, indexing/slicing, integer casts; for the
   files owned by C10 also unsigned subtractions and panicking library calls) of the Rust
   functions mirrored by a model under coq/ (key = file, impl, function, match arm, kind, ordinal;
   line numbers are not part of the key).  This table says, for each key, what excludes the site:

     ByTheorem    a theorem of coq/Crash (the term is checked here: the name must exist and prove P)
     Delegated    a theorem of another property, by name (checks/c10.py verifies that coq/Props/<id>.v
                  still states it; no Coq-level dependency on the other areas)
     KnownDefect  the site IS reachable in the current tree: a refuted-lemma with the witness, and
                  the key of the finding in known_findings.txt
     Hook         verification hook
     Unproved     explicitly open, with the reason

   [sites_all_covered] / [ledger_no_stale] fail to compile when a site appears, disappears or moves
   to another function: an open obligation (the check then runs the search harness focused on the
   file and reports no-failing-input-found if nothing turns up). *)
From Coq Require Import List String Bool ZArith QArith.
Import ListNotations.
From NV Require Import Crash.Outcome Crash.NumOps Crash.NumOpsProofs Crash.Index Crash.IndexProofs
  Crash.Lexer Crash.LexerProofs Crash.Span Crash.SpanProofs Crash.NameReg Crash.NameRegProofs
  Crash.Defects Crash.MergeDispatch Crash.MergeDispatchProofs Crash.TomlFloats Crash.TomlFloatsProofs Crash.TypePos Crash.TypePosProofs Gen.PanicSites.
Open Scope string_scope.

Inductive coverage : Type :=
| ByTheorem (name : string) (P : Prop) (proof : P) (why : string)
| Delegated (property theorem why : string)
| KnownDefect (finding_key lemma : string) (P : Prop) (proof : P) (why : string)
| Hook (why : string)
| Unproved (why : string).

Definition ledger : list (string * coverage) := [
  ("core/src/ast/compat.rs::FromMainline<'ast, term::Term> for Node<'ast>::from_mainline:debug_assert#1",
   Unproved "runtime term -> AST conversion used by the REPL (:load, feature repl, not compiled into the harness): variants without an AST counterpart panic; property C12 owns the REPL (finding panic:load)");
  ("core/src/ast/compat.rs::FromMainline<'ast, term::Term> for Node<'ast>::from_mainline:panic#1",
   Unproved "runtime term -> AST conversion used by the REPL (:load, feature repl, not compiled into the harness): variants without an AST counterpart panic; property C12 owns the REPL (finding panic:load)");
  ("core/src/ast/compat.rs::FromMainline<'ast, term::Term> for Node<'ast>::from_mainline:panic#2",
   Unproved "runtime term -> AST conversion used by the REPL (:load, feature repl, not compiled into the harness): variants without an AST counterpart panic; property C12 owns the REPL (finding panic:load)");
  ("core/src/ast/compat.rs::FromMainline<'ast, term::Term> for Node<'ast>::from_mainline:panic#3",
   Unproved "runtime term -> AST conversion used by the REPL (:load, feature repl, not compiled into the harness): variants without an AST counterpart panic; property C12 owns the REPL (finding panic:load)");
  ("core/src/ast/compat.rs::FromMainline<'ast, NickelValue> for Ast<'ast>::from_mainline:unimplemented#1",
   Unproved "runtime term -> AST conversion used by the REPL (:load, feature repl, not compiled into the harness): variants without an AST counterpart panic; property C12 owns the REPL (finding panic:load)");
  ("core/src/ast/compat.rs::From<&term::UnaryOp> for PrimOp::from:panic#1",
   Unproved "runtime-only primops have no AST counterpart; only reached through from_mainline (REPL)");
  ("core/src/ast/compat.rs::From<&term::UnaryOp> for PrimOp::from:panic#2",
   Unproved "runtime-only primops have no AST counterpart; only reached through from_mainline (REPL)");
  ("core/src/ast/compat.rs::From<&term::BinaryOp> for PrimOp::from:panic#1",
   Unproved "runtime-only primops have no AST counterpart; only reached through from_mainline (REPL)");
  ("core/src/ast/compat.rs::FromAst<record::FieldDef<'ast>> for (FieldName, term::record::Field)::from_ast:unwrap#1",
   Unproved "field paths produced by the parser are never empty (grammar fact, not modelled)");
  ("core/src/ast/compat.rs::FromAst<record::FieldDef<'ast>> for (FieldName, term::record::Field)::from_ast:unwrap#2",
   Unproved "field paths produced by the parser are never empty (grammar fact, not modelled)");
  ("core/src/ast/compat.rs::FromAst<Type<'ast>> for term::LabeledType::from_ast:panic#1",
   ByTheorem "no_panic_labeled_type" _ no_panic_labeled_type "the type of an annotation always has a position: the grammar sets it (WithPos) after fix_type_vars for let / inline / pattern / include annotations and before it for record fields, and every node rebuilt by fix_type_vars keeps the position of the node it replaces (build_fixed); tied by the annotation matrix of checks/c10_gen.py (every annotation position x type shape x identifier kind); types built elsewhere with Type::from are not annotations");
  ("core/src/ast/compat.rs::FromAst<Type<'ast>> for term::LabeledType::from_ast:unwrap#1",
   ByTheorem "no_panic_labeled_type" _ no_panic_labeled_type "the type of an annotation always has a position: the grammar sets it (WithPos) after fix_type_vars for let / inline / pattern / include annotations and before it for record fields, and every node rebuilt by fix_type_vars keeps the position of the node it replaces (build_fixed); tied by the annotation matrix of checks/c10_gen.py (every annotation position x type shape x identifier kind); types built elsewhere with Type::from are not annotations");
  ("core/src/ast/compat.rs::FromAst<Ast<'ast>> for NickelValue::from_ast:index#1",
   Unproved "args[i] of a primop application: arity fixed by the grammar rule that built the node (not modelled)");
  ("core/src/ast/compat.rs::FromAst<Ast<'ast>> for NickelValue::from_ast:index#2",
   Unproved "args[i] of a primop application: arity fixed by the grammar rule that built the node (not modelled)");
  ("core/src/ast/compat.rs::FromAst<Ast<'ast>> for NickelValue::from_ast:index#3",
   Unproved "args[i] of a primop application: arity fixed by the grammar rule that built the node (not modelled)");
  ("core/src/ast/compat.rs::merge_fields:unreachable#1",
   ByTheorem "no_panic_select_value" _ no_panic_select_value "same selection by priority as eval/merge.rs merge_fields (== / > / < of MergePriority are exhaustive)");
  ("core/src/ast/compat.rs::merge_fields:debug_assert#1",
   Unproved "not modelled");
  ("core/src/error/mod.rs::path_span:unwrap#1",
   Unproved "FixedTypeParser.parse_tolerant_compat(format!(""{ty}"")).unwrap(): relies on the printer/parser law `every runtime type printed by core/src/pretty.rs parses back as a type` (taken whenever the type of a label or of an ArrowTypeMismatch has no source position); the runtime printer is not modelled (coq/Surface models the AST printer, property C14): the law is checked directly on the implementation on every run (checks/c10.py run_type_law: every type shape in every type context, composed twice, ~5000 types; any type the pipeline parses) and the path is exercised by the error matrix");
  ("core/src/error/mod.rs::path_span:expect#1",
   Unproved "ty_path::span on the re-parsed type: every node of a freshly parsed type has a position and the path was computed on the same type up to printing; relies on the same law plus stability of the printed form (checked by run_type_law: print(parse(print(T))) = print(T))");
  ("core/src/error/mod.rs::report_ty_path:panic#1",
   Unproved "not modelled");
  ("core/src/eval/cache/lazy.rs::ThunkData::init_cached:assert#1",
   Unproved "revertible thunk protocol: cached is set by build_cached/init_cached before it is read; modelled in coq/Mech (thunk machine) but no theorem is stated about this unwrap");
  ("core/src/eval/cache/lazy.rs::ThunkData::closure:expect#1",
   Unproved "revertible thunk protocol: cached is set by build_cached/init_cached before it is read; modelled in coq/Mech (thunk machine) but no theorem is stated about this unwrap");
  ("core/src/eval/cache/lazy.rs::ThunkData::into_closure:expect#1",
   Unproved "revertible thunk protocol: cached is set by build_cached/init_cached before it is read; modelled in coq/Mech (thunk machine) but no theorem is stated about this unwrap");
  ("core/src/eval/merge.rs::merge_fields:unwrap#1",
   Unproved "fields_merge_closurize(..).unwrap(): its error comes from field_deps / saturate on the cache; coq/Merge models the data algebra, not the cache");
  ("core/src/eval/merge.rs::merge_fields:unreachable#1",
   ByTheorem "no_panic_select_value" _ no_panic_select_value "the last arm of the match on (value1, value2) and the priorities: == and > are the hand-written PartialEq / Ord instances of MergePriority, which agree (prio_eq_cmp) and are antisymmetric, so one of the guarded arms always fires");
  ("core/src/eval/operation.rs::VirtualMachine<'ctxt, R, C>::eval_op2::Div:libcall#1",
   ByTheorem "no_panic_div" _ no_panic_div "Rational / Rational panics on a zero divisor: dominated by the test n2 == 0");
  ("core/src/eval/operation.rs::VirtualMachine<'ctxt, R, C>::eval_op2::Modulo:libcall#1",
   ByTheorem "no_panic_mod" _ no_panic_mod "n1 / n2 is dominated by the test n2 == 0; the subtraction is on Rationals (total)");
  ("core/src/eval/operation.rs::VirtualMachine<'ctxt, R, C>::eval_op2::Modulo:sub#1",
   ByTheorem "no_panic_mod" _ no_panic_mod "n1 / n2 is dominated by the test n2 == 0; the subtraction is on Rationals (total)");
  ("core/src/eval/operation.rs::VirtualMachine<'ctxt, R, C>::eval_op2::Pow:libcall#1",
   ByTheorem "no_panic_pow" _ no_panic_pow "Rational::pow panics for a zero base and a negative exponent: dominated by the guard added in c4c4d42 (pow_unguarded_panics_iff: exactly that case)");
  ("core/src/eval/operation.rs::VirtualMachine<'ctxt, R, C>::eval_op2::ArrayAt:unwrap#1",
   ByTheorem "no_panic_array_at" _ no_panic_array_at "array.get(n).unwrap() is dominated by the test n >= len (and the empty-array test)");
  ("core/src/eval/operation.rs::VirtualMachine<'ctxt, R, C>::eval_opn::StringSubstr:unwrap#1",
   Unproved "args.next().unwrap() / debug_assert!(args.next().is_none()): the evaluator collects exactly NAryOp::arity() arguments before calling eval_opn (arity table, property C01); not restated here");
  ("core/src/eval/operation.rs::VirtualMachine<'ctxt, R, C>::eval_opn::StringSubstr:unwrap#2",
   Unproved "args.next().unwrap() / debug_assert!(args.next().is_none()): the evaluator collects exactly NAryOp::arity() arguments before calling eval_opn (arity table, property C01); not restated here");
  ("core/src/eval/operation.rs::VirtualMachine<'ctxt, R, C>::eval_opn::StringSubstr:unwrap#3",
   Unproved "args.next().unwrap() / debug_assert!(args.next().is_none()): the evaluator collects exactly NAryOp::arity() arguments before calling eval_opn (arity table, property C01); not restated here");
  ("core/src/eval/operation.rs::VirtualMachine<'ctxt, R, C>::eval_opn::StringSubstr:debug_assert#1",
   Unproved "args.next().unwrap() / debug_assert!(args.next().is_none()): the evaluator collects exactly NAryOp::arity() arguments before calling eval_opn (arity table, property C01); not restated here");
  ("core/src/eval/operation.rs::VirtualMachine<'ctxt, R, C>::eval_opn::ArraySlice:unwrap#1",
   Unproved "args.next().unwrap() / debug_assert!(args.next().is_none()): the evaluator collects exactly NAryOp::arity() arguments before calling eval_opn (arity table, property C01); not restated here");
  ("core/src/eval/operation.rs::VirtualMachine<'ctxt, R, C>::eval_opn::ArraySlice:unwrap#2",
   Unproved "args.next().unwrap() / debug_assert!(args.next().is_none()): the evaluator collects exactly NAryOp::arity() arguments before calling eval_opn (arity table, property C01); not restated here");
  ("core/src/eval/operation.rs::VirtualMachine<'ctxt, R, C>::eval_opn::ArraySlice:unwrap#3",
   Unproved "args.next().unwrap() / debug_assert!(args.next().is_none()): the evaluator collects exactly NAryOp::arity() arguments before calling eval_opn (arity table, property C01); not restated here");
  ("core/src/eval/operation.rs::VirtualMachine<'ctxt, R, C>::eval_opn::ArraySlice:debug_assert#1",
   Unproved "args.next().unwrap() / debug_assert!(args.next().is_none()): the evaluator collects exactly NAryOp::arity() arguments before calling eval_opn (arity table, property C01); not restated here");
  ("core/src/eval/operation.rs::VirtualMachine<'ctxt, R, C>::eval_opn::ArraySlice:libcall#1",
   ByTheorem "no_panic_array_slice" _ no_panic_array_slice "Slice::slice asserts from <= to <= len, both established by the test just above");
  ("core/src/eval/stack.rs::Stack<C>::push:cast#1",
   Delegated "C18" "C18_stack_typed" "coq/Mem: every pop/read happens at the type the marker selects; see also C18_sites_all_covered for the unsafe sites");
  ("core/src/eval/stack.rs::Stack<C>::read_unchecked:expect#1",
   Delegated "C18" "C18_stack_typed" "coq/Mem: every pop/read happens at the type the marker selects; see also C18_sites_all_covered for the unsafe sites");
  ("core/src/eval/stack.rs::Stack<C>::read_unchecked:expect#2",
   Delegated "C18" "C18_stack_typed" "coq/Mem: every pop/read happens at the type the marker selects; see also C18_sites_all_covered for the unsafe sites");
  ("core/src/eval/stack.rs::Stack<C>::verif_stack_markers:cast#1",
   Hook "verification hook (feature verif-hooks), not part of the shipped code");
  ("core/src/eval/stack.rs::verif_stack_replay:cast#1",
   Hook "verification hook (feature verif-hooks), not part of the shipped code");
  ("core/src/eval/stack.rs::verif_stack_replay:unwrap#1",
   Hook "verification hook (feature verif-hooks), not part of the shipped code");
  ("core/src/eval/stack.rs::verif_stack_replay:cast#2",
   Hook "verification hook (feature verif-hooks), not part of the shipped code");
  ("core/src/eval/stack.rs::verif_stack_replay:cast#3",
   Hook "verification hook (feature verif-hooks), not part of the shipped code");
  ("core/src/eval/stack.rs::verif_stack_replay:cast#4",
   Hook "verification hook (feature verif-hooks), not part of the shipped code");
  ("core/src/eval/stack.rs::verif_stack_replay:cast#5",
   Hook "verification hook (feature verif-hooks), not part of the shipped code");
  ("core/src/eval/stack.rs::verif_stack_replay:cast#6",
   Hook "verification hook (feature verif-hooks), not part of the shipped code");
  ("core/src/eval/stack.rs::verif_stack_replay:cast#7",
   Hook "verification hook (feature verif-hooks), not part of the shipped code");
  ("core/src/eval/stack.rs::verif_stack_replay:cast#8",
   Hook "verification hook (feature verif-hooks), not part of the shipped code");
  ("core/src/eval/stack.rs::verif_stack_replay:cast#9",
   Hook "verification hook (feature verif-hooks), not part of the shipped code");
  ("core/src/eval/stack.rs::verif_stack_replay:cast#10",
   Hook "verification hook (feature verif-hooks), not part of the shipped code");
  ("core/src/eval/stack.rs::verif_stack_replay:cast#11",
   Hook "verification hook (feature verif-hooks), not part of the shipped code");
  ("core/src/eval/stack.rs::verif_stack_replay:cast#12",
   Hook "verification hook (feature verif-hooks), not part of the shipped code");
  ("core/src/eval/stack.rs::verif_stack_replay:cast#13",
   Hook "verification hook (feature verif-hooks), not part of the shipped code");
  ("core/src/eval/stack.rs::verif_stack_replay:cast#14",
   Hook "verification hook (feature verif-hooks), not part of the shipped code");
  ("core/src/eval/stack.rs::verif_stack_replay:cast#15",
   Hook "verification hook (feature verif-hooks), not part of the shipped code");
  ("core/src/eval/stack.rs::Iterator for StackMarkerIter<'_, C>::next:index#1",
   Delegated "C18" "C18_stack_typed" "coq/Mem: every pop/read happens at the type the marker selects; see also C18_sites_all_covered for the unsafe sites");
  ("core/src/eval/stack.rs::Iterator for StackMarkerIter<'_, C>::next:expect#1",
   Delegated "C18" "C18_stack_typed" "coq/Mem: every pop/read happens at the type the marker selects; see also C18_sites_all_covered for the unsafe sites");
  ("core/src/pretty.rs::PrettyPrintCap::pretty_print_cap:libcall#1",
   ByTheorem "no_panic_pretty_print_cap_fixed" _ no_panic_pretty_print_cap_fixed "char_indices().nth(max_width) is matched, not unwrapped, since 03ad279 (pretty_print_cap_panics: before that commit it panicked when bytes > max_width >= characters)");
  ("core/src/pretty.rs::PrettyPrintCap::pretty_print_cap:index#1",
   Unproved "output[..end] with end taken from char_indices(): a char boundary by construction; not modelled");
  ("core/src/serialize/mod.rs::number_from_float:expect#1",
   ByTheorem "no_panic_toml_import" _ no_panic_toml_import "try_from_float_simplest(f).expect(..) fails on inf / nan only: check_floats, run before any conversion, visits every float the conversion visits (tables, arrays of tables, arrays, inline tables at any depth) and turns a non-finite one into a parse error");
  ("core/src/serialize/mod.rs::range_pos:cast#1",
   ByTheorem "mk_span_id" _ mk_span_id "usize as u32: identity for offsets of sources shorter than 4 GiB");
  ("core/src/serialize/mod.rs::range_pos:cast#2",
   ByTheorem "mk_span_id" _ mk_span_id "usize as u32: identity for offsets of sources shorter than 4 GiB");
  ("core/src/term/string.rs::NickelString::substring:sub#1",
   ByTheorem "no_panic_substring" _ no_panic_substring "end_usize - start_usize is dominated by the test end_usize < start_usize");
  ("core/src/term/string.rs::NickelString::find_all_regex:unwrap#1",
   Unproved "capt.get(0).unwrap(): group 0 always participates in a match (guarantee of the regex crate, not modelled)");
  ("core/src/term/string.rs::NickelString::find_all_regex:expect#1",
   ByTheorem "no_panic_find_all_fixed" _ no_panic_find_all_fixed "the start of a match that passed does_match_start_and_end_on_boundary is one of the cluster offsets or the length of the string, both searched since c9daf53 (find_all_index_panics_iff: before that commit an empty match at the end panicked)");
  ("core/src/typecheck/reporting.rs::NameReg::gen_candidate_name:cast#1",
   ByTheorem "no_panic_candidate_char" _ no_panic_candidate_char "'a' + (next % 26) is a valid scalar value; the casts are on values below 26 / equal to 97");
  ("core/src/typecheck/reporting.rs::NameReg::gen_candidate_name:cast#2",
   ByTheorem "no_panic_candidate_char" _ no_panic_candidate_char "'a' + (next % 26) is a valid scalar value; the casts are on values below 26 / equal to 97");
  ("core/src/typecheck/reporting.rs::NameReg::gen_candidate_name:unwrap#1",
   ByTheorem "no_panic_candidate_char" _ no_panic_candidate_char "'a' + (next % 26) is a valid scalar value; the casts are on values below 26 / equal to 97");
  ("lsp/nls/src/world.rs::World::parse:unwrap#1",
   Delegated "C19" "C19_no_crash" "coq/Lsp: the World model never terminates abnormally on good histories (model-level; the unwrap sites of world.rs are the model's crash outcomes)");
  ("lsp/nls/src/world.rs::World::typecheck:unwrap#1",
   Delegated "C19" "C19_no_crash" "coq/Lsp: the World model never terminates abnormally on good histories (model-level; the unwrap sites of world.rs are the model's crash outcomes)");
  ("lsp/nls/src/world.rs::World::typecheck:unwrap#2",
   Delegated "C19" "C19_no_crash" "coq/Lsp: the World model never terminates abnormally on good histories (model-level; the unwrap sites of world.rs are the model's crash outcomes)");
  ("lsp/nls/src/world.rs::World::check_non_nickel:unwrap#1",
   Delegated "C19" "C19_no_crash" "coq/Lsp: the World model never terminates abnormally on good histories (model-level; the unwrap sites of world.rs are the model's crash outcomes)");
  ("lsp/nls/src/world.rs::World::typecheck_uncached:unwrap#1",
   Delegated "C19" "C19_no_crash" "coq/Lsp: the World model never terminates abnormally on good histories (model-level; the unwrap sites of world.rs are the model's crash outcomes)");
  ("lsp/nls/src/world.rs::World::typecheck_uncached:unwrap#2",
   Delegated "C19" "C19_no_crash" "coq/Lsp: the World model never terminates abnormally on good histories (model-level; the unwrap sites of world.rs are the model's crash outcomes)");
  ("lsp/nls/src/world.rs::World::typecheck_uncached:unwrap#3",
   Delegated "C19" "C19_no_crash" "coq/Lsp: the World model never terminates abnormally on good histories (model-level; the unwrap sites of world.rs are the model's crash outcomes)");
  ("lsp/nls/src/world.rs::World::typecheck_uncached:unwrap#4",
   Delegated "C19" "C19_no_crash" "coq/Lsp: the World model never terminates abnormally on good histories (model-level; the unwrap sites of world.rs are the model's crash outcomes)");
  ("lsp/nls/src/world.rs::World::typecheck_uncached:unwrap#5",
   Delegated "C19" "C19_no_crash" "coq/Lsp: the World model never terminates abnormally on good histories (model-level; the unwrap sites of world.rs are the model's crash outcomes)");
  ("lsp/nls/src/world.rs::World::typecheck_uncached:unwrap#6",
   Delegated "C19" "C19_no_crash" "coq/Lsp: the World model never terminates abnormally on good histories (model-level; the unwrap sites of world.rs are the model's crash outcomes)");
  ("lsp/nls/src/world.rs::World::reparse_range:unreachable#1",
   Delegated "C19" "C19_no_crash" "coq/Lsp: the World model never terminates abnormally on good histories (model-level; the unwrap sites of world.rs are the model's crash outcomes)");
  ("lsp/nls/src/world.rs::World::eval_diagnostics:unwrap#1",
   Delegated "C19" "C19_no_crash" "coq/Lsp: the World model never terminates abnormally on good histories (model-level; the unwrap sites of world.rs are the model's crash outcomes)");
  ("lsp/nls/src/world.rs::World::get_defs::inner:unwrap#1",
   Delegated "C19" "C19_no_crash" "coq/Lsp: the World model never terminates abnormally on good histories (model-level; the unwrap sites of world.rs are the model's crash outcomes)");
  ("lsp/nls/src/world.rs::World::get_defs::inner:unwrap#2",
   Delegated "C19" "C19_no_crash" "coq/Lsp: the World model never terminates abnormally on good histories (model-level; the unwrap sites of world.rs are the model's crash outcomes)");
  ("lsp/nls/src/world.rs::World::get_defs::inner:unwrap#3",
   Delegated "C19" "C19_no_crash" "coq/Lsp: the World model never terminates abnormally on good histories (model-level; the unwrap sites of world.rs are the model's crash outcomes)");
  ("lsp/nls/src/world.rs::World::get_defs::inner:unwrap#4",
   Delegated "C19" "C19_no_crash" "coq/Lsp: the World model never terminates abnormally on good histories (model-level; the unwrap sites of world.rs are the model's crash outcomes)");
  ("lsp/nls/src/world.rs::World::position:cast#1",
   Delegated "C19" "C19_no_crash" "coq/Lsp: the World model never terminates abnormally on good histories (model-level; the unwrap sites of world.rs are the model's crash outcomes)");
  ("lsp/nls/src/world.rs::World::cache_hub_for_eval:unwrap#1",
   Delegated "C19" "C19_no_crash" "coq/Lsp: the World model never terminates abnormally on good histories (model-level; the unwrap sites of world.rs are the model's crash outcomes)");
  ("lsp/nls/src/world.rs::AstImportResolver for WorldImportResolver<'_, '_>::resolve:unwrap#1",
   Delegated "C19" "C19_no_crash" "coq/Lsp: the World model never terminates abnormally on good histories (model-level; the unwrap sites of world.rs are the model's crash outcomes)");
  ("lsp/nls/src/world.rs::AstImportResolver for WorldImportResolver<'_, '_>::resolve:unwrap#2",
   Delegated "C19" "C19_no_crash" "coq/Lsp: the World model never terminates abnormally on good histories (model-level; the unwrap sites of world.rs are the model's crash outcomes)");
  ("lsp/nls/src/world.rs::AstImportResolver for WorldImportResolver<'_, '_>::resolve:unwrap#3",
   Delegated "C19" "C19_no_crash" "coq/Lsp: the World model never terminates abnormally on good histories (model-level; the unwrap sites of world.rs are the model's crash outcomes)");
  ("lsp/nls/src/world.rs::AstImportResolver for WorldImportResolver<'_, '_>::resolve:unreachable#1",
   Delegated "C19" "C19_no_crash" "coq/Lsp: the World model never terminates abnormally on good histories (model-level; the unwrap sites of world.rs are the model's crash outcomes)");
  ("lsp/nls/src/world.rs::AstImportResolver for WorldImportResolver<'_, '_>::resolve:unwrap#4",
   Delegated "C19" "C19_no_crash" "coq/Lsp: the World model never terminates abnormally on good histories (model-level; the unwrap sites of world.rs are the model's crash outcomes)");
  ("lsp/nls/src/world.rs::AstImportResolver for WorldImportResolver<'_, '_>::resolve:unreachable#2",
   Delegated "C19" "C19_no_crash" "coq/Lsp: the World model never terminates abnormally on good histories (model-level; the unwrap sites of world.rs are the model's crash outcomes)");
  ("lsp/nls/src/world.rs::AstImportResolver for StdlibResolver::resolve:panic#1",
   Delegated "C19" "C19_no_crash" "coq/Lsp: the World model never terminates abnormally on good histories (model-level; the unwrap sites of world.rs are the model's crash outcomes)");
  ("package/src/lock.rs::LockFile::write:unwrap#1",
   Unproved "serialisation / I-O of the lock file, not modelled");
  ("package/src/resolve.rs::print_resolve_error:unreachable#1",
   Unproved "error printing path, not modelled");
  ("package/src/resolve.rs::Resolution::index_dep_version:unwrap#1",
   Delegated "C20" "C20_lookup_total_and_right" "coq/Pkg: the look-up finds the resolved version for every edge of a valid solution");
  ("package/src/resolve.rs::Resolution::index_dep_version:unwrap#2",
   Delegated "C20" "C20_lookup_total_and_right" "coq/Pkg: the look-up finds the resolved version for every edge of a valid solution");
  ("package/src/resolve.rs::Resolution::precise:index#1",
   Delegated "C20" "C20_lock_no_crash" "coq/Pkg: lock-file construction does not crash on valid solutions");
  ("package/src/resolve.rs::Resolution::sorted_dependencies:index#1",
   Delegated "C20" "C20_package_map_no_crash" "coq/Pkg");
  ("package/src/resolve.rs::Resolution::sorted_dependencies:unwrap#1",
   Delegated "C20" "C20_package_map_no_crash" "coq/Pkg");
  ("parser/src/error.rs::ParseError::from_serde_json:sub#1",
   Unproved "error.line() - 1 guarded by the test error.line() == 0 just above; not modelled");
  ("parser/src/error.rs::ParseError::from_serde_json:unwrap#1",
   Unproved "location.unwrap() under start.map(..): start is Some only if location was Some (line_span is derived from location); data-flow fact, not modelled (only reachable with feature nix-experimental)");
  ("parser/src/lexer.rs::symbolic_string_prefix_and_length:expect#1",
   Unproved "rsplit_once('-') on a slice matched by the regex [a-zA-Z][_a-zA-Z0-9-']*-s(%+)"": the regex contains the '-'; logos regex semantics are not modelled (sampled by the lextrace correspondence)");
  ("parser/src/lexer.rs::Lexer<'input>::enter_strlike:panic#1",
   ByTheorem "lexer_no_panic" _ lexer_no_panic "mode-switch panic: excluded by the alternation invariant of the mode stack for every raw token sequence");
  ("parser/src/lexer.rs::Lexer<'input>::enter_normal:panic#1",
   ByTheorem "lexer_no_panic" _ lexer_no_panic "mode-switch panic: excluded by the alternation invariant of the mode stack for every raw token sequence");
  ("parser/src/lexer.rs::Lexer<'input>::leave_str:panic#1",
   ByTheorem "lexer_no_panic" _ lexer_no_panic "mode-switch panic: excluded by the alternation invariant of the mode stack for every raw token sequence");
  ("parser/src/lexer.rs::Lexer<'input>::leave_str:panic#2",
   ByTheorem "lexer_no_panic" _ lexer_no_panic "mode-switch panic: excluded by the alternation invariant of the mode stack for every raw token sequence");
  ("parser/src/lexer.rs::Lexer<'input>::leave_indstr:panic#1",
   ByTheorem "lexer_no_panic" _ lexer_no_panic "mode-switch panic: excluded by the alternation invariant of the mode stack for every raw token sequence");
  ("parser/src/lexer.rs::Lexer<'input>::leave_indstr:panic#2",
   ByTheorem "lexer_no_panic" _ lexer_no_panic "mode-switch panic: excluded by the alternation invariant of the mode stack for every raw token sequence");
  ("parser/src/lexer.rs::Lexer<'input>::leave_normal:panic#1",
   ByTheorem "lexer_no_panic" _ lexer_no_panic "mode-switch panic: excluded by the alternation invariant of the mode stack for every raw token sequence");
  ("parser/src/lexer.rs::Lexer<'input>::leave_normal:panic#2",
   ByTheorem "lexer_no_panic" _ lexer_no_panic "mode-switch panic: excluded by the alternation invariant of the mode stack for every raw token sequence");
  ("parser/src/lexer.rs::Lexer<'input>::split_candidate_interp:sub#1",
   ByTheorem "lexer_no_panic" _ lexer_no_panic "usize subtraction: the guard s.len() >= percent_count (resp. the regex: delimiter length >= 1) excludes the underflow");
  ("parser/src/lexer.rs::Lexer<'input>::split_candidate_interp:index#1",
   ByTheorem "split_spans_ok" _ split_spans_ok "s[0..split_at] with split_at = s.len() - percent_count <= s.len(); the prefix consists of ASCII `""`/`%` so it ends on a char boundary");
  ("parser/src/lexer.rs::Lexer<'input>::handle_normal_token:sub#1",
   ByTheorem "lexer_no_panic" _ lexer_no_panic "usize subtraction: the guard s.len() >= percent_count (resp. the regex: delimiter length >= 1) excludes the underflow");
  ("parser/src/lexer.rs::Lexer<'input>::normal_mode_data_mut:panic#1",
   ByTheorem "lexer_no_panic" _ lexer_no_panic "mode-switch panic: excluded by the alternation invariant of the mode stack for every raw token sequence");
  ("parser/src/lexer.rs::Lexer<'input>::multistring_mode_data:panic#1",
   ByTheorem "lexer_no_panic" _ lexer_no_panic "mode-switch panic: excluded by the alternation invariant of the mode stack for every raw token sequence");
  ("parser/src/lexer.rs::Lexer<'input>::bufferize:panic#1",
   ByTheorem "lexer_no_panic" _ lexer_no_panic "mode-switch panic: excluded by the alternation invariant of the mode stack for every raw token sequence");
  ("parser/src/lexer.rs::Iterator for Lexer<'input>::next:unwrap#1",
   ByTheorem "lexer_consumes" _ lexer_consumes "self.lexer is None only inside enter_*/leave_*, which restore it on every non-panicking path; those paths never panic");
  ("parser/src/uniterm.rs::FixTypeVars<'ast> for Type<'ast>::fix_type_vars_env:unwrap#1",
   Unproved "bound_vars.get(var).unwrap() right after bound_vars.insert(var): by inspection, environments never delete");
  ("parser/src/utils.rs::mk_span:cast#1",
   ByTheorem "mk_span_id" _ mk_span_id "usize as u32 truncates: identity for offsets of sources shorter than 4 GiB (hypothesis of the theorem; larger sources are not covered)");
  ("parser/src/utils.rs::mk_span:cast#2",
   ByTheorem "mk_span_id" _ mk_span_id "usize as u32 truncates: identity for offsets of sources shorter than 4 GiB (hypothesis of the theorem; larger sources are not covered)");
  ("vector/src/slice.rs::Slice<T, N>::set:panic#1",
   Delegated "C17" "C17_set" "coq/Vector: the operation does not panic in contract and refines the list operation");
  ("vector/src/slice.rs::Slice<T, N>::set:unwrap#1",
   Delegated "C17" "C17_set" "coq/Vector: the operation does not panic in contract and refines the list operation");
  ("vector/src/slice.rs::Slice<T, N>::slice:assert#1",
   Delegated "C17" "C17_history_refines" "coq/Vector: every history returns the same results as independent lists, including exactly the same (out-of-contract) panics");
  ("vector/src/slice.rs::Slice<T, N>::slice:assert#2",
   Delegated "C17" "C17_history_refines" "coq/Vector: every history returns the same results as independent lists, including exactly the same (out-of-contract) panics");
  ("vector/src/slice.rs::Index<usize> for Slice<T, N>::index:expect#1",
   Delegated "C17" "C17_history_refines" "coq/Vector: every history returns the same results as independent lists, including exactly the same (out-of-contract) panics");
  ("vector/src/vector.rs::Node<T, N>::get:debug_assert#1",
   Delegated "C17" "C17_get" "coq/Vector: the operation does not panic in contract and refines the list operation");
  ("vector/src/vector.rs::Node<T, N>::set:debug_assert#1",
   Delegated "C17" "C17_set" "coq/Vector: the operation does not panic in contract and refines the list operation");
  ("vector/src/vector.rs::Node<T, N>::set:debug_assert#2",
   Delegated "C17" "C17_set" "coq/Vector: the operation does not panic in contract and refines the list operation");
  ("vector/src/vector.rs::Node<T, N>::set:assert#1",
   Delegated "C17" "C17_set" "coq/Vector: the operation does not panic in contract and refines the list operation");
  ("vector/src/vector.rs::Node<T, N>::set:assert#2",
   Delegated "C17" "C17_set" "coq/Vector: the operation does not panic in contract and refines the list operation");
  ("vector/src/vector.rs::Node<T, N>::set:index#1",
   Delegated "C17" "C17_set" "coq/Vector: the operation does not panic in contract and refines the list operation");
  ("vector/src/vector.rs::Node<T, N>::pop:debug_assert#1",
   Delegated "C17" "C17_pop" "coq/Vector: the operation does not panic in contract and refines the list operation");
  ("vector/src/vector.rs::Node<T, N>::pop:expect#1",
   Delegated "C17" "C17_pop" "coq/Vector: the operation does not panic in contract and refines the list operation");
  ("vector/src/vector.rs::Node<T, N>::truncate:debug_assert#1",
   Delegated "C17" "C17_truncate" "coq/Vector: the operation does not panic in contract and refines the list operation");
  ("vector/src/vector.rs::Node<T, N>::truncate:index#1",
   Delegated "C17" "C17_truncate" "coq/Vector: the operation does not panic in contract and refines the list operation");
  ("vector/src/vector.rs::Iterator for Iter<'a, T, N>::next:unreachable#1",
   Delegated "C17" "C17_iter_from" "coq/Vector: the operation does not panic in contract and refines the list operation");
  ("vector/src/vector.rs::Iterator for Iter<'a, T, N>::next:expect#1",
   Delegated "C17" "C17_iter_from" "coq/Vector: the operation does not panic in contract and refines the list operation");
  ("vector/src/vector.rs::Iterator for Iter<'a, T, N>::next:unreachable#2",
   Delegated "C17" "C17_iter_from" "coq/Vector: the operation does not panic in contract and refines the list operation");
  ("vector/src/vector.rs::Iterator for Iter<'a, T, N>::next:debug_assert#1",
   Delegated "C17" "C17_iter_from" "coq/Vector: the operation does not panic in contract and refines the list operation");
  ("vector/src/vector.rs::Iterator for IterMut<'a, T, N>::next:unreachable#1",
   Delegated "C17" "C17_iter_from" "coq/Vector: the operation does not panic in contract and refines the list operation");
  ("vector/src/vector.rs::Iterator for IterMut<'a, T, N>::next:expect#1",
   Delegated "C17" "C17_iter_from" "coq/Vector: the operation does not panic in contract and refines the list operation");
  ("vector/src/vector.rs::Iterator for IterMut<'a, T, N>::next:unreachable#2",
   Delegated "C17" "C17_iter_from" "coq/Vector: the operation does not panic in contract and refines the list operation");
  ("vector/src/vector.rs::Iterator for IterMut<'a, T, N>::next:debug_assert#1",
   Delegated "C17" "C17_iter_from" "coq/Vector: the operation does not panic in contract and refines the list operation");
  ("vector/src/vector.rs::Iterator for IntoIter<T, N>::next:unreachable#1",
   Delegated "C17" "C17_iter_from" "coq/Vector: the operation does not panic in contract and refines the list operation");
  ("vector/src/vector.rs::Iterator for IntoIter<T, N>::next:expect#1",
   Delegated "C17" "C17_iter_from" "coq/Vector: the operation does not panic in contract and refines the list operation");
  ("vector/src/vector.rs::Iterator for IntoIter<T, N>::next:unreachable#2",
   Delegated "C17" "C17_iter_from" "coq/Vector: the operation does not panic in contract and refines the list operation");
  ("vector/src/vector.rs::Iterator for IntoIter<T, N>::next:debug_assert#1",
   Delegated "C17" "C17_iter_from" "coq/Vector: the operation does not panic in contract and refines the list operation");
  ("vector/src/vector.rs::Extend<T> for Vector<T, N>::extend::extend_rec:debug_assert#1",
   Delegated "C17" "C17_extend" "coq/Vector: the operation does not panic in contract and refines the list operation");
  ("vector/src/vector.rs::Extend<T> for Vector<T, N>::extend::extend_rec:unreachable#1",
   Delegated "C17" "C17_extend" "coq/Vector: the operation does not panic in contract and refines the list operation");
  ("vector/src/vector.rs::Extend<T> for Vector<T, N>::extend::extend_rec:unreachable#2",
   Delegated "C17" "C17_extend" "coq/Vector: the operation does not panic in contract and refines the list operation");
  ("vector/src/vector.rs::Extend<T> for Vector<T, N>::extend:unwrap#1",
   Delegated "C17" "C17_extend" "coq/Vector: the operation does not panic in contract and refines the list operation");
  ("vector/src/vector.rs::height_for_length:unwrap#1",
   Delegated "C17" "C17_history_refines" "coq/Vector: every history returns the same results as independent lists, including exactly the same (out-of-contract) panics");
  ("vector/src/vector.rs::Vector<T, N>::is_packed::is_packed_rec:debug_assert#1",
   Delegated "C17" "C17_history_refines" "coq/Vector: every history returns the same results as independent lists, including exactly the same (out-of-contract) panics");
  ("vector/src/vector.rs::Vector<T, N>::check_invariants:assert#1",
   Delegated "C17" "C17_history_refines" "coq/Vector: every history returns the same results as independent lists, including exactly the same (out-of-contract) panics");
  ("vector/src/vector.rs::Vector<T, N>::check_invariants:assert#2",
   Delegated "C17" "C17_history_refines" "coq/Vector: every history returns the same results as independent lists, including exactly the same (out-of-contract) panics");
  ("vector/src/vector.rs::Vector<T, N>::check_invariants:assert#3",
   Delegated "C17" "C17_history_refines" "coq/Vector: every history returns the same results as independent lists, including exactly the same (out-of-contract) panics");
  ("vector/src/vector.rs::Vector<T, N>::check_invariants:assert#4",
   Delegated "C17" "C17_history_refines" "coq/Vector: every history returns the same results as independent lists, including exactly the same (out-of-contract) panics");
  ("vector/src/vector.rs::Vector<T, N>::set:panic#1",
   Delegated "C17" "C17_set" "coq/Vector: the operation does not panic in contract and refines the list operation");
  ("vector/src/vector.rs::Vector<T, N>::add_level:unreachable#1",
   Delegated "C17" "C17_history_refines" "coq/Vector: every history returns the same results as independent lists, including exactly the same (out-of-contract) panics");
  ("vector/src/vector.rs::Vector<T, N>::push:unwrap#1",
   Delegated "C17" "C17_push" "coq/Vector: the operation does not panic in contract and refines the list operation");
  ("vector/src/vector.rs::Vector<T, N>::pop:unwrap#1",
   Delegated "C17" "C17_pop" "coq/Vector: the operation does not panic in contract and refines the list operation");
  ("vector/src/vector.rs::Vector<T, N>::truncate:unwrap#1",
   Delegated "C17" "C17_truncate" "coq/Vector: the operation does not panic in contract and refines the list operation");
  ("vector/src/vector.rs::Vector<T, N>::truncate:unreachable#1",
   Delegated "C17" "C17_truncate" "coq/Vector: the operation does not panic in contract and refines the list operation");
  ("vector/src/vector.rs::Vector<T, N>::truncate:expect#1",
   Delegated "C17" "C17_truncate" "coq/Vector: the operation does not panic in contract and refines the list operation");
  ("vector/src/vector.rs::Vector<T, N>::truncate:unwrap#2",
   Delegated "C17" "C17_truncate" "coq/Vector: the operation does not panic in contract and refines the list operation");
  ("vector/src/vector.rs::Vector<T, N>::iter_starting_at:panic#1",
   Delegated "C17" "C17_iter_from" "coq/Vector: the operation does not panic in contract and refines the list operation");
  ("vector/src/vector.rs::Vector<T, N>::iter_starting_at:unwrap#1",
   Delegated "C17" "C17_iter_from" "coq/Vector: the operation does not panic in contract and refines the list operation");
  ("vector/src/vector.rs::Vector<T, N>::iter_starting_at:index#1",
   Delegated "C17" "C17_iter_from" "coq/Vector: the operation does not panic in contract and refines the list operation");
  ("vector/src/vector.rs::Vector<T, N>::iter_starting_at:expect#1",
   Delegated "C17" "C17_iter_from" "coq/Vector: the operation does not panic in contract and refines the list operation");
  ("vector/src/vector.rs::Vector<T, N>::iter_starting_at:expect#2",
   Delegated "C17" "C17_iter_from" "coq/Vector: the operation does not panic in contract and refines the list operation");
  ("vector/src/vector.rs::Vector<T, N>::iter_starting_at:unreachable#1",
   Delegated "C17" "C17_iter_from" "coq/Vector: the operation does not panic in contract and refines the list operation");
  ("vector/src/vector.rs::Vector<T, N>::iter_starting_at:index#2",
   Delegated "C17" "C17_iter_from" "coq/Vector: the operation does not panic in contract and refines the list operation");
  ("vector/src/vector.rs::Vector<T, N>::iter_mut_starting_at:panic#1",
   Delegated "C17" "C17_iter_from" "coq/Vector: the operation does not panic in contract and refines the list operation");
  ("vector/src/vector.rs::Vector<T, N>::iter_mut_starting_at:unwrap#1",
   Delegated "C17" "C17_iter_from" "coq/Vector: the operation does not panic in contract and refines the list operation");
  ("vector/src/vector.rs::Vector<T, N>::iter_mut_starting_at:unreachable#1",
   Delegated "C17" "C17_iter_from" "coq/Vector: the operation does not panic in contract and refines the list operation");
  ("vector/src/vector.rs::Vector<T, N>::iter_mut_starting_at:index#1",
   Delegated "C17" "C17_iter_from" "coq/Vector: the operation does not panic in contract and refines the list operation");
  ("vector/src/vector.rs::Vector<T, N>::iter_mut_starting_at:expect#1",
   Delegated "C17" "C17_iter_from" "coq/Vector: the operation does not panic in contract and refines the list operation");
  ("vector/src/vector.rs::Vector<T, N>::iter_mut_starting_at:expect#2",
   Delegated "C17" "C17_iter_from" "coq/Vector: the operation does not panic in contract and refines the list operation");
  ("vector/src/vector.rs::Vector<T, N>::iter_mut_starting_at:unreachable#2",
   Delegated "C17" "C17_iter_from" "coq/Vector: the operation does not panic in contract and refines the list operation");
  ("vector/src/vector.rs::Vector<T, N>::iter_mut_starting_at:index#2",
   Delegated "C17" "C17_iter_from" "coq/Vector: the operation does not panic in contract and refines the list operation");
  ("vector/src/vector.rs::Vector<T, N>::into_iter_starting_at:panic#1",
   Delegated "C17" "C17_iter_from" "coq/Vector: the operation does not panic in contract and refines the list operation");
  ("vector/src/vector.rs::Vector<T, N>::into_iter_starting_at:unwrap#1",
   Delegated "C17" "C17_iter_from" "coq/Vector: the operation does not panic in contract and refines the list operation");
  ("vector/src/vector.rs::Vector<T, N>::into_iter_starting_at:expect#1",
   Delegated "C17" "C17_iter_from" "coq/Vector: the operation does not panic in contract and refines the list operation");
  ("vector/src/vector.rs::Vector<T, N>::into_iter_starting_at:expect#2",
   Delegated "C17" "C17_iter_from" "coq/Vector: the operation does not panic in contract and refines the list operation");
  ("vector/src/vector.rs::Vector<T, N>::into_iter_starting_at:unreachable#1",
   Delegated "C17" "C17_iter_from" "coq/Vector: the operation does not panic in contract and refines the list operation");
  ("vector/src/vector.rs::IntoIterator for &'a Vector<T, N>::into_iter:expect#1",
   Delegated "C17" "C17_iter_from" "coq/Vector: the operation does not panic in contract and refines the list operation");
  ("vector/src/vector.rs::IntoIterator for &'a Vector<T, N>::into_iter:unreachable#1",
   Delegated "C17" "C17_iter_from" "coq/Vector: the operation does not panic in contract and refines the list operation");
  ("vector/src/vector.rs::IntoIterator for &'a mut Vector<T, N>::into_iter:unreachable#1",
   Delegated "C17" "C17_iter_from" "coq/Vector: the operation does not panic in contract and refines the list operation");
  ("vector/src/vector.rs::IntoIterator for &'a mut Vector<T, N>::into_iter:expect#1",
   Delegated "C17" "C17_iter_from" "coq/Vector: the operation does not panic in contract and refines the list operation");
  ("vector/src/vector.rs::IntoIterator for &'a mut Vector<T, N>::into_iter:unreachable#2",
   Delegated "C17" "C17_iter_from" "coq/Vector: the operation does not panic in contract and refines the list operation");
  ("vector/src/vector.rs::IntoIterator for Vector<T, N>::into_iter:expect#1",
   Delegated "C17" "C17_iter_from" "coq/Vector: the operation does not panic in contract and refines the list operation");
  ("vector/src/vector.rs::IntoIterator for Vector<T, N>::into_iter:unreachable#1",
   Delegated "C17" "C17_iter_from" "coq/Vector: the operation does not panic in contract and refines the list operation");
  ("vector/src/vector.rs::Index<usize> for Vector<T, N>::index:expect#1",
   Delegated "C17" "C17_history_refines" "coq/Vector: every history returns the same results as independent lists, including exactly the same (out-of-contract) panics")
].

Definition keys_of {A} (l : list (string * A)) : list string := map fst l.

Fixpoint mem (k : string) (l : list string) : bool :=
  match l with [] => false | x :: t => if String.eqb k x then true else mem k t end.

Lemma mem_In : forall k l, mem k l = true -> In k l.
Proof.
  induction l as [|x t IH]; cbn; [discriminate|].
  destruct (String.eqb k x) eqn:E; [apply String.eqb_eq in E; auto|auto].
Qed.

Definition all_covered : bool := forallb (fun s => mem (fst s) (keys_of ledger)) sites.
Definition no_stale : bool := forallb (fun e => mem (fst e) (keys_of sites)) ledger.

Lemma all_covered_true : all_covered = true.
Proof. vm_compute. reflexivity. Qed.

Lemma no_stale_true : no_stale = true.
Proof. vm_compute. reflexivity. Qed.

(* every listed site has a ledger entry (a theorem, a delegation, a known defect, or an explicit
   Unproved) ... *)
Theorem sites_all_covered : forall key line, In (key, line) sites -> exists c, In (key, c) ledger.
Proof.
  intros key line H.
  assert (M : mem key (keys_of ledger) = true).
  { pose proof all_covered_true as A. unfold all_covered in A. rewrite forallb_forall in A. exact (A _ H). }
  apply mem_In in M. unfold keys_of in M. apply in_map_iff in M. destruct M as [[k c] [E I]].
  cbn in E. subst k. eauto.
Qed.

(* ... and every ledger entry is about a site that still exists *)
Theorem ledger_no_stale : forall key c, In (key, c) ledger -> exists line, In (key, line) sites.
Proof.
  intros key c H.
  assert (M : mem key (keys_of sites) = true).
  { pose proof no_stale_true as A. unfold no_stale in A. rewrite forallb_forall in A. exact (A _ H). }
  apply mem_In in M. unfold keys_of in M. apply in_map_iff in M. destruct M as [[k l] [E I]].
  cbn in E. subst k. eauto.
Qed.

Definition is_open (c : coverage) : bool := match c with Unproved _ => true | _ => false end.
Definition is_proved (c : coverage) : bool := match c with ByTheorem _ _ _ _ => true | _ => false end.
Definition is_delegated (c : coverage) : bool := match c with Delegated _ _ _ => true | _ => false end.
Definition is_known (c : coverage) : bool := match c with KnownDefect _ _ _ _ _ => true | _ => false end.
Definition count (p : coverage -> bool) : nat := List.length (filter (fun e => p (snd e)) ledger).
