From Coq Require Import ZArith String List Bool Lia.
From NV Require Import Crash.Outcome Crash.Index Crash.Span.
Import ListNotations.
Open Scope Z_scope.

Lemma as_u32_id : forall x, 0 <= x < 2 ^ 32 -> as_u32 x = x.
Proof. intros. unfold as_u32. now apply Z.mod_small. Qed.

Lemma mk_span_id : forall len l r, len < 2 ^ 32 -> in_range len (l, r) -> mk_span l r = (l, r).
Proof.
  intros len l r L [H1 [H2 H3]]. cbn [fst snd] in *. unfold mk_span.
  rewrite !as_u32_id by lia. reflexivity.
Qed.

(* the casts are not harmless on their own: 2^32 wraps to 0 *)
Lemma as_u32_wraps : as_u32 (2 ^ 32) = 0.
Proof. reflexivity. Qed.

Lemma sat_u32_range : forall x, 0 <= sat_u32 x <= 2 ^ 32 - 1.
Proof.
  intros x. unfold sat_u32. destruct ((0 <=? x) && (x <=? 2 ^ 32 - 1)) eqn:E; [|lia].
  apply andb_true_iff in E. destruct E as [E1 E2]. apply Z.leb_le in E1. apply Z.leb_le in E2. lia.
Qed.

(* ---- lexical errors: every span the conversion builds lies inside the file, start <= end *)
Lemma from_lexical_in_range : forall len bnd e,
  len < 2 ^ 32 -> lexical_error_ok len bnd e ->
  Forall (in_range len) (from_lexical e).
Proof.
  intros len bnd e L H.
  destruct e as [t|t|t|t|o c]; cbn [from_lexical lexical_error_ok] in *.
  - destruct H as [[R1 [R2 R3]] _]. constructor; [|constructor].
    rewrite (mk_span_id len) by (auto; repeat split; auto). repeat split; auto.
  - destruct H as [[[R1 [R2 R3]] _] E]. constructor; [|constructor].
    rewrite (mk_span_id len); unfold in_range; cbn [fst snd]; lia.
  - destruct H as [[[R1 [R2 R3]] _] [E _]]. constructor; [|constructor].
    rewrite (mk_span_id len); unfold in_range; cbn [fst snd]; lia.
  - destruct H as [[[R1 [R2 R3]] _] [E _]]. constructor; [|constructor].
    rewrite (mk_span_id len); unfold in_range; cbn [fst snd]; lia.
  - destruct H as [[[O1 [O2 O3]] _] [[C1 [C2 C3]] _]].
    constructor; [|constructor; [|constructor]];
      rewrite (mk_span_id len); unfold in_range; cbn [fst snd]; lia.
Qed.

(* ... but not necessarily on char boundaries: the escape span is one byte long whatever the
   escaped character (the conversion before 62096ac, refuted: backslash followed by a two-byte character) *)
Lemma from_lexical_splits_char :
  exists len bnd e, len < 2 ^ 32 /\ src_ok len bnd /\ lexical_error_ok len bnd e /\
    ~ Forall (on_bnd bnd) (from_lexical e).
Proof.
  (* source: quote backslash e-acute quote = bytes 0 1 2 3 4, boundaries 0 1 2 4 5 *)
  exists 5, (fun p => negb (p =? 3)), (LInvalidEscape (1, 4)).
  repeat split; try reflexivity; try (cbn; lia).
  intros H. inversion H as [|? ? [_ B] _]; subst. cbn in B. discriminate.
Qed.

Lemma from_lexical_fixed_ok : forall len bnd e,
  len < 2 ^ 32 -> lexical_error_ok len bnd e ->
  Forall (fun s => in_range len s /\ on_bnd bnd s) (from_lexical_fixed e).
Proof.
  intros len bnd e L H.
  destruct e as [t|t|t|t|o c]; cbn [from_lexical_fixed from_lexical lexical_error_ok] in *.
  - destruct H as [[R1 [R2 R3]] [B1 B2]]. constructor; [|constructor].
    rewrite (mk_span_id len) by (auto; repeat split; auto). repeat split; auto.
  - destruct H as [[[R1 [R2 R3]] [B1 B2]] E]. constructor; [|constructor].
    rewrite (mk_span_id len) by (auto; unfold in_range; cbn [fst snd]; lia).
    unfold in_range, on_bnd; cbn [fst snd]. rewrite <- E. repeat split; auto; lia.
  - destruct H as [[[R1 [R2 R3]] [B1 B2]] [E B3]]. constructor; [|constructor].
    rewrite (mk_span_id len) by (auto; unfold in_range; cbn [fst snd]; lia).
    unfold in_range, on_bnd; cbn [fst snd]. repeat split; auto; lia.
  - destruct H as [[[R1 [R2 R3]] [B1 B2]] [E B3]]. constructor; [|constructor].
    rewrite (mk_span_id len) by (auto; unfold in_range; cbn [fst snd]; lia).
    unfold in_range, on_bnd; cbn [fst snd].
    replace (fst t + 2 + 2) with (snd t) by lia. repeat split; auto; lia.
  - destruct H as [[[O1 [O2 O3]] [OB1 OB2]] [[C1 [C2 C3]] [CB1 CB2]]].
    constructor; [|constructor; [|constructor]];
      rewrite (mk_span_id len) by (auto; unfold in_range; cbn [fst snd]; lia);
      unfold in_range, on_bnd; cbn [fst snd]; repeat split; auto; lia.
Qed.

(* ---- lalrpop errors *)
Lemma from_lalrpop_in_range : forall len e,
  len < 2 ^ 32 ->
  match e with
  | PInvalidToken l => 0 <= l < len
  | PUnrecognizedToken t | PExtraToken t => in_range len t
  end ->
  in_range len (from_lalrpop e).
Proof.
  intros len e L H. destruct e as [l|t|t]; cbn [from_lalrpop].
  - rewrite (mk_span_id len); unfold in_range; cbn [fst snd]; lia.
  - destruct t as [a b]. cbn [fst snd]. rewrite (mk_span_id len); auto.
  - destruct t as [a b]. cbn [fst snd]. rewrite (mk_span_id len); auto.
Qed.

(* ---- split of a candidate interpolation *)
Lemma split_spans_ok : forall len tok pc,
  in_range len tok -> 0 <= pc <= snd tok - fst tok ->
  exists a b, split_spans tok pc = Val (a, b) /\ in_range len a /\ in_range len b /\
              fst a = fst tok /\ snd a = fst b /\ snd b = snd tok /\ snd b - fst b = pc.
Proof.
  intros len [s e] pc [R1 [R2 R3]] G. cbn [fst snd] in *.
  unfold split_spans, usub. cbn [fst snd].
  destruct (pc <=? e - s) eqn:E; [|apply Z.leb_gt in E; lia].
  cbn [bind]. eexists _, _. split; [reflexivity|].
  unfold in_range; cbn [fst snd]. repeat split; lia.
Qed.

Lemma split_spans_panics_without_guard : exists tok pc site, split_spans tok pc = Panic site.
Proof. exists (0, 2), 3. eexists. reflexivity. Qed.

(* ---- fusion *)
Lemma fuse_in_range : forall len a b, in_range len a -> in_range len b ->
  in_range len (fuse a b) /\ fst (fuse a b) <= fst a /\ snd a <= snd (fuse a b)
  /\ fst (fuse a b) <= fst b /\ snd b <= snd (fuse a b).
Proof.
  intros len [a1 a2] [b1 b2] [A1 [A2 A3]] [B1 [B2 B3]]. unfold fuse, in_range. cbn [fst snd] in *.
  repeat split; lia.
Qed.

(* ---- external formats: the conversions before fa9c5c0, refuted *)
Lemma json_error_span_out_of_range : exists len off, 0 <= off <= len /\ ~ in_range len (json_error_span off).
Proof. exists 0, 0. split; [lia|]. unfold in_range, json_error_span. cbn. lia. Qed.

Lemma toml_error_span_out_of_range : exists len t, in_range len t /\ ~ in_range len (toml_error_span t).
Proof. exists 4, (4, 4). split; [unfold in_range; cbn; lia|]. unfold in_range, toml_error_span. cbn. lia. Qed.

(* ---- and the repair *)
Lemma snap_down_spec : forall bnd fuel p, bnd 0 = true -> 0 <= p -> (Z.to_nat p < fuel)%nat ->
  let r := snap_down bnd fuel p in 0 <= r <= p /\ bnd r = true.
Proof.
  intros bnd fuel. induction fuel as [|f IH]; intros p B0 P F; [lia|].
  cbn [snap_down]. destruct (bnd p) eqn:E; [cbn; split; [lia|assumption]|].
  assert (p <> 0) by (intros ->; congruence).
  destruct (IH (p - 1) B0) as [R1 R2]; [lia|lia|].
  cbn zeta in *. split; [lia|assumption].
Qed.

Lemma snap_up_spec : forall bnd len fuel p, bnd len = true -> p <= len -> (Z.to_nat (len - p) < fuel)%nat ->
  let r := snap_up bnd len fuel p in p <= r <= len /\ bnd r = true.
Proof.
  intros bnd len fuel. induction fuel as [|f IH]; intros p BL P F; [lia|].
  cbn [snap_up]. destruct (bnd p) eqn:E; [cbn; split; [lia|assumption]|].
  assert (p <> len) by (intros ->; congruence).
  destruct (IH (p + 1) BL) as [R1 R2]; [lia|lia|].
  cbn zeta in *. split; [lia|assumption].
Qed.

Theorem external_error_span_ok : forall len bnd start end_,
  src_ok len bnd -> 0 <= start ->
  let s := external_error_span len bnd start end_ in
  in_range len s /\ on_bnd bnd s /\ (fst s < len -> fst s < snd s).
Proof.
  intros len bnd start end_ [L [B0 BL]] S. unfold external_error_span.
  destruct (snap_down_spec bnd (Z.to_nat len + 1) (Z.min start len) B0) as [D1 D2]; [lia|lia|].
  cbn zeta in D1, D2.
  set (st := snap_down bnd (Z.to_nat len + 1) (Z.min start len)) in *.
  set (e0 := clamp st len end_).
  assert (E0 : st <= e0 <= len) by (unfold e0, clamp; lia).
  set (e1 := if (e0 =? st) && (st <? len) then st + 1 else e0).
  assert (E1 : st <= e1 <= len /\ (st < len -> st < e1)).
  { unfold e1. destruct (e0 =? st) eqn:Q; destruct (st <? len) eqn:Q2; cbn [andb].
    - apply Z.ltb_lt in Q2. lia.
    - apply Z.ltb_ge in Q2. lia.
    - apply Z.eqb_neq in Q. lia.
    - apply Z.eqb_neq in Q. lia. }
  destruct E1 as [E1 E1'].
  destruct (snap_up_spec bnd len (Z.to_nat len + 1) e1 BL) as [U1 U2]; [lia|lia|].
  cbn zeta in U1, U2. cbn zeta.
  unfold in_range, on_bnd. cbn [fst snd]. repeat split; try assumption; lia.
Qed.

Example src_ok_example : src_ok 5 (fun p => negb (p =? 3)).
Proof. repeat split; try reflexivity. lia. Qed.
