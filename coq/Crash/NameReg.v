(* C10 — typecheck/reporting.rs: NameReg, the generator of distinct display names for unification
   variables and type constants in type errors.

   [select_uniq] appends a numeric suffix to a taken candidate name until the name is free.  The
   loop before commit 26454e7 incremented [suffix] but never rebuilt [name], so it span forever
   as soon as [name ++ "1"] is taken as well (more than 52 unification variables in one reported
   type).  The loop is modelled with fuel; [None] = the fuel ran out. *)
From Coq Require Import ZArith String List Bool Arith.
From NV Require Import Crash.Outcome.
Import ListNotations.

Section Reg.
  (* [taken base suffix]: is [base ++ suffix] in the registry?  suffix 0 = the bare candidate *)
  Variable taken : nat -> bool.

  (* the unchanged loop: [while self.taken(&name) { suffix += 1; }] with name = base ++ "1" *)
  Fixpoint spin_orig (fuel : nat) (suffix : nat) : option nat :=
    match fuel with
    | O => None
    | S f => if taken 1 then spin_orig f (S suffix) else Some 1
    end.

  Definition select_uniq_orig (fuel : nat) : option nat :=
    if taken 0 then spin_orig fuel 1 else Some 0.

  (* since commit 26454e7 (the code as it is now): the name is rebuilt from the suffix at every iteration *)
  Fixpoint spin_fixed (fuel : nat) (suffix : nat) : option nat :=
    match fuel with
    | O => None
    | S f => if taken suffix then spin_fixed f (S suffix) else Some suffix
    end.

  Definition select_uniq_fixed (fuel : nat) : option nat :=
    if taken 0 then spin_fixed fuel 1 else Some 0.
End Reg.

(* gen_candidate_name: [char::from_u32('a' as u32 + (next % 26) as u32).unwrap()] *)
Definition candidate_code (next : Z) : Z := (97 + next mod 26)%Z.
Definition valid_scalar (c : Z) : bool :=
  ((0 <=? c) && (c <? 55296) || (57343 <? c) && (c <? 1114112))%Z%bool.
Definition candidate_char (next : Z) : outcome Z :=
  if valid_scalar (candidate_code next) then Val (candidate_code next)
  else Panic "gen_candidate_name: char::from_u32(..).unwrap()".
