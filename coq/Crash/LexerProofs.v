From Coq Require Import ZArith String List Bool Lia.
From NV Require Import Crash.Outcome Crash.Index Crash.Lexer.
Import ListNotations.
Open Scope Z_scope.

(* The invariant of the mode stack: modes alternate.  Under a Normal current lexer the stack is
   empty or its top is a string-like mode; under a string-like current lexer the top exists and is
   Normal. *)
Fixpoint okstack (cur_normal : bool) (ms : list mode) : bool :=
  match ms with
  | [] => cur_normal
  | MdNormal _ :: r => negb cur_normal && okstack true r
  | _ :: r => cur_normal && okstack false r
  end.

Definition is_normal (c : cur) : bool := match c with CNormal _ => true | _ => false end.

Definition wf (st : state) : Prop := okstack (is_normal (lexer st)) (modes st) = true.

Lemma wf_init : wf init.
Proof. reflexivity. Qed.

Ltac crush :=
  repeat match goal with
  | H : _ && _ = true |- _ => apply andb_true_iff in H; destruct H
  | H : negb _ = true |- _ => apply negb_true_iff in H
  | H : false = true |- _ => discriminate H
  | H : true = false |- _ => discriminate H
  end.

Lemma step_ok : forall st s, wf st -> sym_wf s = true ->
  exists st' e, next_step st s = Val (st', e) /\ wf st'.
Proof.
  intros [c ms] s W S. unfold wf in W. cbn [lexer modes] in W.
  unfold sym_wf in S. apply andb_true_iff in S. destruct S as [SN SM].
  unfold next_step. cbn [lexer modes].
  destruct c as [b| |pc buf].
  - (* normal mode *)
    cbn [is_normal] in W. unfold handle_normal_token.
    destruct (sN s) as [ | | |d|d| | | | ]; cbn [bind ret enter_str enter_indstr enter_strlike lexer modes normal_mode_data].
    + eexists _, _. split; [reflexivity|]. exact W.
    + eexists _, _. split; [reflexivity|]. unfold wf. cbn. exact W.
    + eexists _, _. split; [reflexivity|]. unfold wf. cbn. exact W.
    + apply Z.leb_le in SN. unfold usub. destruct (1 <=? d) eqn:E; [|apply Z.leb_gt in E; lia].
      cbn [bind]. eexists _, _. split; [reflexivity|]. unfold wf. cbn. exact W.
    + apply Z.leb_le in SN. unfold usub. destruct (1 <=? d) eqn:E; [|apply Z.leb_gt in E; lia].
      cbn [bind]. eexists _, _. split; [reflexivity|]. unfold wf. cbn. exact W.
    + eexists _, _. split; [reflexivity|]. unfold wf, set_brace_count. cbn. exact W.
    + destruct (b =? 0).
      * destruct ms as [|m r].
        -- eexists _, _. split; [reflexivity|]. exact W.
        -- unfold leave_normal. cbn [lexer modes].
           destruct m as [|pc|b']; cbn [okstack] in W; crush.
           ++ cbn [bind ret]. eexists _, _. split; [reflexivity|]. unfold wf. cbn. assumption.
           ++ cbn [bind ret]. eexists _, _. split; [reflexivity|]. unfold wf. cbn. assumption.
      * eexists _, _. split; [reflexivity|]. unfold wf, set_brace_count. cbn. exact W.
    + eexists _, _. split; [reflexivity|]. exact W.
    + eexists _, _. split; [reflexivity|]. exact W.
  - (* string mode *)
    cbn [is_normal] in W. unfold handle_string_token.
    destruct (sS s) as [[|]| | |[|]|[|]| ]; cbn [bind ret].
    + eexists _, _. split; [reflexivity|]. exact W.
    + eexists _, _. split; [reflexivity|]. exact W.
    + unfold leave_str. cbn [lexer modes]. destruct ms as [|m r]; [discriminate W|].
      destruct m as [|pc|b']; cbn [okstack] in W; crush.
      cbn [bind ret]. eexists _, _. split; [reflexivity|]. unfold wf. cbn. assumption.
    + unfold enter_normal. cbn [lexer modes bind ret]. eexists _, _. split; [reflexivity|].
      unfold wf. cbn. exact W.
    + eexists _, _. split; [reflexivity|]. exact W.
    + eexists _, _. split; [reflexivity|]. exact W.
    + eexists _, _. split; [reflexivity|]. exact W.
    + eexists _, _. split; [reflexivity|]. exact W.
    + eexists _, _. split; [reflexivity|]. exact W.
  - (* multiline string mode *)
    cbn [is_normal] in W.
    destruct buf.
    + (* buffered interpolation *)
      unfold handle_multistr_token, multistring_mode_data, enter_normal. cbn [lexer modes bind ret].
      eexists _, _. split; [reflexivity|]. unfold wf. cbn. exact W.
    + unfold handle_multistr_token, multistring_mode_data. cbn [lexer modes bind].
      destruct (sM s) as [[|]|n|n|n| ].
      * eexists _, _. split; [reflexivity|]. exact W.
      * eexists _, _. split; [reflexivity|]. exact W.
      * destruct (pc <? n); [eexists _, _; split; [reflexivity|exact W]|].
        destruct (n =? pc); [|eexists _, _; split; [reflexivity|exact W]].
        unfold leave_indstr. cbn [lexer modes]. destruct ms as [|m r]; [discriminate W|].
        destruct m as [|pc'|b']; cbn [okstack] in W; crush.
        cbn [bind ret]. eexists _, _. split; [reflexivity|]. unfold wf. cbn. assumption.
      * destruct (pc <=? n) eqn:G; [|eexists _, _; split; [reflexivity|exact W]].
        destruct (n =? pc).
        -- unfold enter_normal. cbn [lexer modes bind ret]. eexists _, _. split; [reflexivity|].
           unfold wf. cbn. exact W.
        -- unfold split_candidate_interp, usub. rewrite G. cbn [bind bufferize lexer modes ret].
           eexists _, _. split; [reflexivity|]. unfold wf. cbn. exact W.
      * destruct (pc <? n) eqn:G; [|eexists _, _; split; [reflexivity|exact W]].
        apply Z.ltb_lt in G. unfold split_candidate_interp, usub.
        destruct (pc <=? n) eqn:G'; [|apply Z.leb_gt in G'; lia].
        cbn [bind bufferize lexer modes ret].
        eexists _, _. split; [reflexivity|]. unfold wf. cbn. exact W.
      * eexists _, _. split; [reflexivity|]. exact W.
Qed.

Lemma run_ok : forall input st, wf st -> forallb sym_wf input = true ->
  exists es final, run st input = Val (es, final) /\ wf final /\ List.length es = List.length input.
Proof.
  induction input as [|s rest IH]; intros st W F.
  - exists [], st. auto.
  - cbn [forallb] in F. apply andb_true_iff in F. destruct F as [Fs Fr].
    destruct (step_ok st s W Fs) as (st' & e & Hs & W').
    destruct (IH st' W' Fr) as (es & final & Hr & Wf & L).
    exists (e :: es), final. cbn [run]. rewrite Hs. cbn [bind]. rewrite Hr. cbn [bind].
    repeat split; auto. cbn. now rewrite L.
Qed.

(* every input is consumed into tokens or structured lexical errors; no panic site is reached, in
   particular the mode stack is never popped when empty and never yields the wrong mode *)
Theorem lexer_no_panic : forall input, forallb sym_wf input = true -> no_panic (run init input).
Proof.
  intros input F site. destruct (run_ok input init wf_init F) as (es & final & H & _).
  rewrite H. discriminate.
Qed.

Theorem lexer_consumes : forall input, forallb sym_wf input = true ->
  exists es final, run init input = Val (es, final) /\ List.length es = List.length input /\ wf final.
Proof.
  intros input F. destruct (run_ok input init wf_init F) as (es & final & H & W & L). eauto.
Qed.

(* a closing brace with nothing to close is a structured error, not a pop of the empty stack *)
Lemma unmatched_brace_is_error : forall s, sN s = NRBrace ->
  next_step init s = Val (init, Err EUnmatchedCloseBrace).
Proof. intros s H. unfold next_step. cbn. rewrite H. reflexivity. Qed.

(* without the invariant the pop sites are reachable: the panics are real sites, not dead code *)
Lemma leave_normal_panics_on_bad_stack :
  exists st site, leave_normal st = Panic site.
Proof. exists {| lexer := CNormal 0; modes := [] |}. eexists. reflexivity. Qed.

(* the size side condition is needed: a zero-length delimiter would underflow [delim_size - 1] *)
Lemma delim_underflow_without_wf :
  exists s site, next_step init s = Panic site.
Proof.
  exists {| sN := NMultiStart 0; sS := SLiteral false; sM := MLiteral false |}. eexists. reflexivity.
Qed.

Example sym_wf_example :
  forallb sym_wf [ {| sN := NMultiStart 3; sS := SLiteral false; sM := MLiteral false |};
                   {| sN := NOther; sS := SLiteral false; sM := MCandInterp 4 |};
                   {| sN := NOther; sS := SLiteral false; sM := MLiteral false |};
                   {| sN := NRBrace; sS := SLiteral false; sM := MLiteral false |};
                   {| sN := NOther; sS := SLiteral false; sM := MCandEnd 2 |} ] = true.
Proof. reflexivity. Qed.
