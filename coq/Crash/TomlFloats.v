(* C10 — core/src/serialize/mod.rs, module toml_deser: importing a TOML document.

   TOML has inf and nan, Nickel numbers do not.  Two cooperating sites:
     check_floats     walks the parsed toml_edit document before any conversion and returns a
                      structured parse error for a non-finite float;
     number_from_float  (called by the conversion ToNickelValue / ToAst of every Value::Float)
                      Rational::try_from_float_simplest(f).expect(..): panics on a non-finite float.
   The expect is safe only if the walk of check_floats reaches every float the conversion reaches.
   The document is the toml_edit tree: items (none, value, table, array of tables) and values
   (float, other scalars, array, inline table); keys play no role. *)
From Coq Require Import String List Bool.
From NV Require Import Crash.Outcome.
Import ListNotations.

Inductive value :=
| VFloat (finite : bool)
| VOther                          (* string, integer, boolean, datetime *)
| VArray (vs : list value)
| VInline (vs : list value).      (* inline table: the values of its entries *)

Inductive item :=
| INone
| IValue (v : value)
| ITable (is : list item)
| IAoT (ts : list (list item)).   (* array of tables *)

(* check_value / check_floats: true = Ok(()) *)
Fixpoint check_value (v : value) : bool :=
  match v with
  | VFloat finite => finite
  | VArray vs => forallb check_value vs
  | VInline vs => forallb check_value vs
  | VOther => true
  end.

Fixpoint check_floats (i : item) : bool :=
  match i with
  | INone => true
  | IValue v => check_value v
  | ITable is => forallb check_floats is
  | IAoT ts => forallb (forallb check_floats) ts
  end.

(* the conversion: every float goes through number_from_float *)
Definition number_from_float (finite : bool) : outcome unit :=
  if finite then Val tt else Panic "toml_deser::number_from_float: non-finite floats are rejected before conversion".

Definition seq (a b : outcome unit) : outcome unit := bind a (fun _ => b).

Fixpoint convert_value (v : value) : outcome unit :=
  match v with
  | VFloat finite => number_from_float finite
  | VOther => Val tt
  | VArray vs => fold_right (fun x acc => seq (convert_value x) acc) (Val tt) vs
  | VInline vs => fold_right (fun x acc => seq (convert_value x) acc) (Val tt) vs
  end.

Fixpoint convert_item (i : item) : outcome unit :=
  match i with
  | INone => Val tt
  | IValue v => convert_value v
  | ITable is => fold_right (fun x acc => seq (convert_item x) acc) (Val tt) is
  | IAoT ts => fold_right (fun t acc => seq (fold_right (fun x acc' => seq (convert_item x) acc') (Val tt) t) acc) (Val tt) ts
  end.

(* toml_deser::from_str / ast_from_str after parsing *)
Definition from_doc (doc : item) : outcome unit :=
  if check_floats doc then convert_item doc else Error "toml parse error: Nickel numbers cannot be inf or NaN".

(* a walk that does not look inside inline tables met as array elements (or anywhere below a
   value): what the VInline arm of check_value is there for *)
Fixpoint check_value_no_inline (v : value) : bool :=
  match v with
  | VFloat finite => finite
  | VArray vs => forallb check_value_no_inline vs
  | _ => true
  end.
