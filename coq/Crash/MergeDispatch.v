(* C10 — core/src/eval/merge.rs: merge_fields, the selection of the value of a merged field by
   priority, whose last match arm is [_ => unreachable!()].

     match (value1, value2) {
         (Some(t1), Some(t2)) if metadata1.priority == metadata2.priority => merge both
         (Some(t1), _) if metadata1.priority > metadata2.priority         => left
         (Some(t1), None)                                                 => left
         (_, Some(t2)) if metadata2.priority > metadata1.priority         => right
         (None, Some(t2))                                                 => right
         (None, None)                                                     => no value
         _ => unreachable!(),
     }

   [==] and [>] are the hand-written PartialEq and Ord instances of MergePriority
   (parser/src/ast/mod.rs), mirrored below: Neutral behaves as Numeral 0. *)
From Coq Require Import ZArith QArith String List Bool.
From NV Require Import Crash.Outcome.

Inductive prio := Bottom | Neutral | Numeral (q : Q) | Top.

(* impl PartialEq for MergePriority *)
Definition prio_eq (a b : prio) : bool :=
  match a, b with
  | Bottom, Bottom | Neutral, Neutral | Top, Top => true
  | Numeral p1, Numeral p2 => Qeq_bool p1 p2
  | Neutral, Numeral p | Numeral p, Neutral => Qeq_bool p 0
  | _, _ => false
  end.

(* impl Ord for MergePriority (the arms in the order of the source) *)
Definition prio_cmp (a b : prio) : comparison :=
  match a, b with
  | Bottom, Bottom | Top, Top | Neutral, Neutral => Eq
  | Numeral p1, Numeral p2 => (p1 ?= p2)%Q
  | Bottom, _ => Lt
  | _, Top => Lt
  | Top, _ => Gt
  | _, Bottom => Gt
  | Neutral, Numeral n => (0 ?= n)%Q
  | Numeral n, Neutral => (n ?= 0)%Q
  end.

Definition prio_gt (a b : prio) : bool := match prio_cmp a b with Gt => true | _ => false end.

Inductive choice := MergeBoth | TakeLeft | TakeRight | NoValue.

Definition select_value (has1 has2 : bool) (p1 p2 : prio) : outcome choice :=
  match has1, has2 with
  | true, true =>
      if prio_eq p1 p2 then Val MergeBoth
      else if prio_gt p1 p2 then Val TakeLeft
      else if prio_gt p2 p1 then Val TakeRight
      else Panic "merge_fields: unreachable!()"
  | true, false => Val TakeLeft          (* arm 2 or arm 3 *)
  | false, true => Val TakeRight         (* arm 4 or arm 5 *)
  | false, false => Val NoValue
  end.
