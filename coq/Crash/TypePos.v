(* C10 — an invariant between compiler phases: "the type of an annotation has a position".

   core/src/ast/compat.rs, impl FromAst<Type> for LabeledType (the AST -> runtime conversion of
   every contract / type annotation) panics when the top-level node of the type has no position
   ("Expected a position to be set for the type", then typ.pos.unwrap()).  The position is set by
   the grammar with WithPos, but types also go through parser/src/uniterm.rs fix_type_vars, which
   REBUILDS every node on the path to an identifier that is not bound by a forall (it becomes a
   contract).  Two orders occur:
     let / inline / pattern / include annotations   WithPos<FixedType>: fix first, position after
     record field annotations                       FieldAnnot<Type>: position first, then
                                                    fix_field_types when the record is built
   so for fields the rebuilt node is the final one and must carry the position over
   ([build_fixed] does: Type { typ: new_type, pos }).

   A type is its top-level position flag and its shape; [fix] mirrors the arms of
   fix_type_vars_env: [None] = Ok(None), nothing to rebuild. *)
From Coq Require Import List Bool String.
From NV Require Import Crash.Outcome.
Import ListNotations.

Inductive ty :=
| Ty (pos : bool) (sh : shape)
with shape :=
| SBase                                  (* Dyn, Number, Bool, String, ForeignId, Symbol, Contract, Wildcard, {_ | T} *)
| SVar (bound : bool)                    (* an identifier, bound by an enclosing forall or not *)
| SArrow (a b : ty)
| SForall (kind_changed : bool) (body : ty)
| SDictType (t : ty)
| SArray (t : ty)
| SEnum (payloads : list (option ty))    (* enum rows: each variant with its optional payload *)
| SRecord (fields : list ty).

Definition pos_of (t : ty) : bool := match t with Ty p _ => p end.
Definition with_pos (t : ty) : ty := match t with Ty _ s => Ty true s end.

(* the result of fixing the children of a row list: Some = at least one child was rebuilt *)
Definition any_some {A} (l : list (option A)) : bool := existsb (fun o => match o with Some _ => true | None => false end) l.

Fixpoint fix_ty (fuel : nat) (t : ty) : option ty :=
  match fuel with
  | O => None
  | S f =>
    match t with
    | Ty pos sh =>
      let build_fixed (s : shape) := Ty pos s in           (* Type { typ: new_type, pos } *)
      match sh with
      | SBase => None
      | SVar true => None
      | SVar false => Some (build_fixed SBase)               (* TypeF::Contract(Var) *)
      | SArrow a b =>
          match fix_ty f a, fix_ty f b with
          | None, None => None
          | ra, rb => Some (build_fixed (SArrow (match ra with Some x => x | None => a end)
                                                (match rb with Some x => x | None => b end)))
          end
      | SForall changed body =>
          match fix_ty f body with
          | Some b' => Some (build_fixed (SForall false b'))
          | None => if changed then Some (build_fixed (SForall false body)) else None
          end
      | SDictType u => option_map (fun u' => build_fixed (SDictType u')) (fix_ty f u)
      | SArray u => option_map (fun u' => build_fixed (SArray u')) (fix_ty f u)
      | SEnum ps =>
          let rs := map (fun p => match p with Some u => fix_ty f u | None => None end) ps in
          if any_some rs
          then Some (build_fixed (SEnum (map (fun pr => match snd pr with Some u' => Some u' | None => fst pr end) (combine ps rs))))
          else None
      | SRecord fs =>
          let rs := map (fix_ty f) fs in
          if any_some rs
          then Some (build_fixed (SRecord (map (fun pr => match snd pr with Some u' => u' | None => fst pr end) (combine fs rs))))
          else None
      end
    end
  end.

Definition fixed (fuel : nat) (t : ty) : ty := match fix_ty fuel t with Some t' => t' | None => t end.

(* the two orders of the grammar *)
Definition annot_fix_then_pos (fuel : nat) (t : ty) : ty := with_pos (fixed fuel t).
Definition annot_pos_then_fix (fuel : nat) (t : ty) : ty := fixed fuel (with_pos t).

(* compat.rs: LabeledType::from_ast *)
Definition labeled_type_from_ast (t : ty) : outcome ty :=
  if pos_of t then Val t else Panic "compat.rs: Expected a position to be set for the type".

(* a fix_type_vars whose Enum arm builds the type with Type::from (no position): what a rebuilt
   node without build_fixed does *)
Definition fixed_enum_drops_pos (fuel : nat) (t : ty) : ty :=
  match t with
  | Ty _ (SEnum _) => match fix_ty fuel t with Some (Ty _ s) => Ty false s | None => t end
  | _ => fixed fuel t
  end.
