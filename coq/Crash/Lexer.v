(* C10 (c) — the mode automaton of the modal lexer (parser/src/lexer.rs: [Lexer], its mode stack
   [modes], the brace counter, the `%`-count arithmetic of multiline strings, the one-token
   buffer), as an executable automaton over the *raw* tokens that the three logos sub-lexers
   return.

   One step of [next_step] is one call of [Lexer::next] up to the point where it either returns or
   calls itself again (after a comment).  Every [panic!] / [unwrap] / unchecked subtraction of the
   mirrored functions is an explicit [Panic]:

     enter_strlike      panic!                       current lexer is not Normal
     enter_normal       panic!                       current lexer is Normal
     leave_str          panic!                       current is not String / popped mode is not Normal
     leave_indstr       panic!                       current is not MultiString / popped mode is not Normal
     leave_normal       panic!                       current is not Normal / popped None or Normal
     normal_mode_data_mut, multistring_mode_data, bufferize       wrong current mode
     handle_normal_token   delim_size - 1                         usize underflow
     split_candidate_interp   s.len() - percent_count             usize underflow

   Sizes are [Z] (no upper bound: overflow of [brace_count += 1] at 2^64 is out of reach of any
   input that fits in memory and is not modelled). *)
From Coq Require Import ZArith String List Bool.
From NV Require Import Crash.Outcome Crash.Index.
Import ListNotations.
Open Scope Z_scope.

(* ---------------------------------------------------------------- alphabet *)
Inductive rawN :=
| NOther | NDQuote | NStrEnumTagBegin
| NMultiStart (delim_size : Z)        (* MultiStringStart(lex.slice().len()): m, percents, quote *)
| NSymStart (delim_size : Z)          (* SymbolicStringStart, length of: s, percents, quote *)
| NLBrace | NRBrace | NComment | NError.

Inductive rawS :=
| SLiteral (lone_cr : bool)         (* a lone carriage return is left after normalisation *)
| SDQuote | SInterp
| SEscChar (valid : bool)             (* escape_char(c) is Some *)
| SEscAscii (valid : bool)            (* escape_ascii(code) is Some *)
| SError.

Inductive rawM :=
| MLiteral (lone_cr : bool)
| MCandEnd (n : Z)                    (* quote then percents: n = slice length *)
| MCandInterp (n : Z)                 (* percents then brace *)
| MQCandInterp (n : Z)                (* quote, percents, brace *)
| MError.

(* what each sub-lexer would return at the current position; the automaton reads the component
   of its current mode *)
Record sym := { sN : rawN; sS : rawS; sM : rawM }.

Inductive tok :=
| TNormal (t : rawN)
| TStrLiteral | TStrInterp | TStrEsc
| TMLiteral (len : option Z)          (* Some: a candidate turned into a literal (its length) *)
| TMInterp | TMEnd.

Inductive lexerr :=
| EUnmatchedCloseBrace | EInvalidEscape | EInvalidAscii | EDelimMismatch | EGeneric.

Inductive emit := Tok (t : tok) | Err (e : lexerr) | Again.   (* Again = [return self.next()] *)

(* ---------------------------------------------------------------- state *)
Inductive mode :=
| MdString
| MdMulti (percent_count : Z)
| MdNormal (brace_count : Z).

Inductive cur :=
| CNormal (brace_count : Z)
| CString
| CMulti (percent_count : Z) (buffered : bool).   (* buffer holds an Interpolation token *)

Record state := { lexer : cur; modes : list mode }.

Definition init : state := {| lexer := CNormal 0; modes := [] |}.

(* ---------------------------------------------------------------- mode switches *)
Definition enter_strlike (st : state) (target : cur) : outcome state :=
  match lexer st with
  | CNormal b => Val {| lexer := target; modes := MdNormal b :: modes st |}
  | _ => Panic "lexer::enter_strlike"
  end.

Definition enter_str (st : state) := enter_strlike st CString.
Definition enter_indstr (st : state) (pc : Z) := enter_strlike st (CMulti pc false).

Definition enter_normal (st : state) : outcome state :=
  match lexer st with
  | CString => Val {| lexer := CNormal 0; modes := MdString :: modes st |}
  | CMulti pc _ => Val {| lexer := CNormal 0; modes := MdMulti pc :: modes st |}
  | CNormal _ => Panic "lexer::enter_normal"
  end.

Definition leave_str (st : state) : outcome state :=
  match lexer st with
  | CString =>
      match modes st with
      | MdNormal b :: rest => Val {| lexer := CNormal b; modes := rest |}
      | _ => Panic "lexer::leave_str (popped wrong mode)"
      end
  | _ => Panic "lexer::leave_str"
  end.

Definition leave_indstr (st : state) : outcome state :=
  match lexer st with
  | CMulti _ _ =>
      match modes st with
      | MdNormal b :: rest => Val {| lexer := CNormal b; modes := rest |}
      | _ => Panic "lexer::leave_str (popped wrong mode)"
      end
  | _ => Panic "lexer::leave_str"
  end.

Definition leave_normal (st : state) : outcome state :=
  match lexer st with
  | CNormal _ =>
      match modes st with
      | MdString :: rest => Val {| lexer := CString; modes := rest |}
      | MdMulti pc :: rest => Val {| lexer := CMulti pc false; modes := rest |}
      | _ => Panic "lexer::leave_normal (popped mode None or Normal)"
      end
  | _ => Panic "lexer::leave_normal"
  end.

Definition normal_mode_data (st : state) : outcome Z :=
  match lexer st with CNormal b => Val b | _ => Panic "lexer: normal_mode_data() called while not in normal mode" end.

Definition set_brace_count (st : state) (b : Z) : state := {| lexer := CNormal b; modes := modes st |}.

Definition multistring_mode_data (st : state) : outcome Z :=
  match lexer st with CMulti pc _ => Val pc | _ => Panic "lexer: multistring_mode_data() called while not in multistring mode" end.

Definition bufferize (st : state) : outcome state :=
  match lexer st with
  | CMulti pc _ => Val {| lexer := CMulti pc true; modes := modes st |}
  | _ => Panic "lexer: bufferize() called while not in normal mode"
  end.

(* ---------------------------------------------------------------- handlers *)
Definition ret (st : state) (e : emit) : outcome (state * emit) := Val (st, e).

Definition handle_normal_token (st : state) (t : rawN) : outcome (state * emit) :=
  match t with
  | NDQuote | NStrEnumTagBegin => do st' <- enter_str st; ret st' (Tok (TNormal t))
  | NMultiStart d | NSymStart d =>
      do size <- usub d 1;                      (* size_without_kind_marker = delim_size - 1 *)
      do st' <- enter_indstr st size;
      ret st' (Tok (TNormal t))
  | NLBrace =>
      do b <- normal_mode_data st;
      ret (set_brace_count st (b + 1)) (Tok (TNormal t))
  | NRBrace =>
      do b <- normal_mode_data st;
      if b =? 0 then
        match modes st with
        | [] => ret st (Err EUnmatchedCloseBrace)
        | _ => do st' <- leave_normal st; ret st' (Tok (TNormal t))
        end
      else ret (set_brace_count st (b - 1)) (Tok (TNormal t))
  | NComment => ret st Again
  | NError => ret st (Err EGeneric)
  | NOther => ret st (Tok (TNormal t))
  end.

Definition handle_string_token (st : state) (t : rawS) : outcome (state * emit) :=
  match t with
  | SDQuote => do st' <- leave_str st; ret st' (Tok (TNormal NDQuote))
  | SInterp => do st' <- enter_normal st; ret st' (Tok TStrInterp)
  | SEscChar true | SEscAscii true => ret st (Tok TStrEsc)
  | SEscChar false => ret st (Err EInvalidEscape)
  | SEscAscii false => ret st (Err EInvalidAscii)
  | SError => ret st (Err EGeneric)
  | SLiteral true => ret st (Err EGeneric)      (* since 4ff7631; a debug assertion failed before *)
  | SLiteral false => ret st (Tok TStrLiteral)
  end.

(* split_candidate_interp: literal of length [n - percent_count], Interpolation buffered *)
Definition split_candidate_interp (st : state) (n pc : Z) : outcome (state * emit) :=
  do split_at <- usub n pc;
  do st' <- bufferize st;
  ret st' (Tok (TMLiteral (Some split_at))).

Inductive mtoken := FromLogos (t : rawM) | Buffered.   (* the buffer only ever holds Interpolation *)

Definition handle_multistr_token (st : state) (t : mtoken) : outcome (state * emit) :=
  do pc <- multistring_mode_data st;
  match t with
  | Buffered => do st' <- enter_normal st; ret st' (Tok TMInterp)
  | FromLogos (MCandInterp n) =>
      if pc <=? n then
        if n =? pc then do st' <- enter_normal st; ret st' (Tok TMInterp)
        else split_candidate_interp st n pc
      else ret st (Tok (TMLiteral (Some n)))
  | FromLogos (MQCandInterp n) =>
      if pc <? n then split_candidate_interp st n pc
      else ret st (Tok (TMLiteral (Some n)))
  | FromLogos (MCandEnd n) =>
      if pc <? n then ret st (Err EDelimMismatch)
      else if n =? pc then do st' <- leave_indstr st; ret st' (Tok TMEnd)
      else ret st (Tok (TMLiteral (Some n)))
  | FromLogos MError => ret st (Err EGeneric)
  | FromLogos (MLiteral true) => ret st (Err EGeneric)
  | FromLogos (MLiteral false) => ret st (Tok (TMLiteral None))
  end.

(* [Lexer::next], one call, given what the sub-lexers see at the current position.  In multistring
   mode a buffered token is taken first ([buffer.take()]) and the input is not read. *)
Definition next_step (st : state) (s : sym) : outcome (state * emit) :=
  match lexer st with
  | CNormal _ => handle_normal_token st (sN s)
  | CString => handle_string_token st (sS s)
  | CMulti pc true => handle_multistr_token {| lexer := CMulti pc false; modes := modes st |} Buffered
  | CMulti pc false => handle_multistr_token st (FromLogos (sM s))
  end.

(* the whole run: every symbol yields a token, a structured lexical error, or nothing (comment) *)
Fixpoint run (st : state) (input : list sym) : outcome (list emit * state) :=
  match input with
  | [] => Val ([], st)
  | s :: rest =>
      do r <- next_step st s;
      let '(st', e) := r in
      do rs <- run st' rest;
      let '(es, final) := rs in
      Val (e :: es, final)
  end.

(* the regexes guarantee these sizes (a multiline start has length >= 3, candidates >= 2) *)
Definition sym_wf (s : sym) : bool :=
  (match sN s with NMultiStart d | NSymStart d => 1 <=? d | _ => true end)
  && (match sM s with MCandEnd n | MCandInterp n | MQCandInterp n => 0 <=? n | MLiteral _ | MError => true end).
