From Coq Require Import List Bool String.
From NV Require Import Crash.Outcome Crash.TypePos.
Import ListNotations.

(* every rebuilt node carries the position of the node it replaces *)
Lemma fix_keeps_pos : forall fuel t t', fix_ty fuel t = Some t' -> pos_of t' = pos_of t.
Proof.
  intros [|f] [pos sh] t' H; cbn in H; [discriminate|].
  destruct sh as [ |[|]|a b|ch body|u|u|ps|fs]; cbn in H; try discriminate.
  - injection H as <-. reflexivity.
  - destruct (fix_ty f a), (fix_ty f b); try discriminate; injection H as <-; reflexivity.
  - destruct (fix_ty f body); [injection H as <-; reflexivity|].
    destruct ch; [injection H as <-; reflexivity|discriminate].
  - destruct (fix_ty f u); cbn in H; [injection H as <-; reflexivity|discriminate].
  - destruct (fix_ty f u); cbn in H; [injection H as <-; reflexivity|discriminate].
  - match type of H with (if ?c then _ else _) = _ => destruct c end; [injection H as <-; reflexivity|discriminate].
  - match type of H with (if ?c then _ else _) = _ => destruct c end; [injection H as <-; reflexivity|discriminate].
Qed.

Lemma fixed_keeps_pos : forall fuel t, pos_of (fixed fuel t) = pos_of t.
Proof.
  intros fuel t. unfold fixed. destruct (fix_ty fuel t) eqn:E; [now apply fix_keeps_pos in E|reflexivity].
Qed.

(* both orders of the grammar deliver a positioned type: the panic of the conversion is excluded *)
Theorem annot_positions_set : forall fuel t,
  pos_of (annot_fix_then_pos fuel t) = true /\ pos_of (annot_pos_then_fix fuel t) = true.
Proof.
  intros fuel [pos sh]. split.
  - unfold annot_fix_then_pos. destruct (fixed fuel (Ty pos sh)). reflexivity.
  - unfold annot_pos_then_fix. rewrite fixed_keeps_pos. reflexivity.
Qed.

Theorem no_panic_labeled_type : forall fuel t,
  no_panic (labeled_type_from_ast (annot_fix_then_pos fuel t)) /\
  no_panic (labeled_type_from_ast (annot_pos_then_fix fuel t)).
Proof.
  intros fuel t. destruct (annot_positions_set fuel t) as [H1 H2].
  split; intros site; unfold labeled_type_from_ast; [rewrite H1|rewrite H2]; discriminate.
Qed.

(* the invariant is not for free: a rebuilt enum node without the position breaks the field order
   (and only that one): a field annotated with an enum whose payload is a contract identifier *)
Lemma enum_without_build_fixed_panics : exists t site,
  labeled_type_from_ast (fixed_enum_drops_pos 3 (with_pos t)) = Panic site
  /\ pos_of (with_pos (fixed_enum_drops_pos 3 t)) = true.
Proof.
  exists (Ty false (SEnum [Some (Ty true (SVar false)); None])). eexists. split; reflexivity.
Qed.

Example annot_example :
  annot_pos_then_fix 3 (Ty false (SEnum [Some (Ty true (SVar false)); None]))
  = Ty true (SEnum [Some (Ty true SBase); None]).
Proof. reflexivity. Qed.
