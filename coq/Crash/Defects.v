(* C10 — small models of sites that WERE reachable (findings of this property, since repaired in
   /repo: commits 03ad279 and 4ff7631), each with the refuting witness for the old code and the
   statement that holds for the code as it is now. *)
From Coq Require Import ZArith String List Bool Lia.
From NV Require Import Crash.Outcome Crash.Index.
Import ListNotations.
Open Scope Z_scope.

(* ---------------------------------------------------------------- PrettyPrintCap::pretty_print_cap
   core/src/pretty.rs and parser/src/ast/pretty.rs:
     if output.len() <= max_width { output }
     else { let (end, _) = output.char_indices().nth(max_width).unwrap(); ... }
   [widths]: the UTF-8 width of each character of the output. *)
Definition bytes (widths : list Z) : Z := fold_right Z.add 0 widths.

Definition pretty_print_cap (widths : list Z) (max_width : Z) : outcome (list Z) :=
  if bytes widths <=? max_width then Val widths
  else
    do _ <- unwrap "pretty_print_cap: output.char_indices().nth(max_width).unwrap()" (nthZ max_width widths);
    Val (takeZ max_width widths).

(* since commit 03ad279: no character beyond max_width = nothing to cut *)
Definition pretty_print_cap_fixed (widths : list Z) (max_width : Z) : outcome (list Z) :=
  match nthZ max_width widths with
  | None => Val widths
  | Some _ => Val (takeZ max_width widths)
  end.

Lemma pretty_print_cap_panics : exists widths max_width site,
  Forall (fun w => 1 <= w <= 4) widths /\ 0 <= max_width /\ pretty_print_cap widths max_width = Panic site.
Proof.
  (* two two-byte characters, cap 3: 4 bytes > 3, but only 2 characters *)
  exists [2; 2], 3. eexists. split; [|split; [lia|reflexivity]].
  repeat constructor; lia.
Qed.

Lemma no_panic_pretty_print_cap_fixed : forall widths max_width, no_panic (pretty_print_cap_fixed widths max_width).
Proof. intros w m site. unfold pretty_print_cap_fixed. destruct (nthZ m w); discriminate. Qed.

(* ---------------------------------------------------------------- a lone carriage return in a string literal
   parser/src/lexer.rs, string mode: logos returns the longest match among
     Literal  one or more characters other than double quote, percent, backslash
              (callback normalize_line_endings: debug_assert that no CR is left)
     Error    CR followed by anything but LF
   so a carriage return that is not at the start of the literal is swallowed by Literal. *)
Inductive ch := Cr | Lf | Quote | Pct | Bsl | Other.

Definition lit_char (c : ch) : bool := match c with Quote | Pct | Bsl => false | _ => true end.

Fixpoint lit_prefix (s : list ch) : list ch :=
  match s with
  | c :: t => if lit_char c then c :: lit_prefix t else []
  | [] => []
  end.

Definition err_len (s : list ch) : Z :=
  match s with
  | Cr :: Lf :: _ => 0
  | Cr :: _ :: _ => 2
  | _ => 0
  end.

(* replace CR LF by LF *)
Fixpoint normalize (s : list ch) : list ch :=
  match s with
  | Cr :: ((Lf :: _) as t) => normalize t
  | c :: t => c :: normalize t
  | [] => []
  end.

Definition has_cr (s : list ch) : bool := existsb (fun c => match c with Cr => true | _ => false end) s.

Inductive stok := SLit (l : list ch) | SErr | SOther.

(* longest match; on a tie the more specific Error rule is not preferred by length, so we only
   claim the case where Literal is strictly longer *)
Definition string_token (s : list ch) : stok :=
  let l := lit_prefix s in
  if err_len s <? lenZ l then SLit l else if 0 <? err_len s then SErr else SOther.

Definition literal_callback (l : list ch) : outcome (list ch) :=
  let n := normalize l in
  if has_cr n then Panic "normalize_line_endings: debug_assert!(normalized.find('\r').is_none())" else Val n.

(* since commit 4ff7631: no assertion, the handler reports a lexical error *)
Definition literal_handler_fixed (l : list ch) : outcome (list ch) :=
  let n := normalize l in
  if has_cr n then Error "LexicalError::Generic" else Val n.

Lemma lone_cr_reaches_literal : exists s l site,
  string_token s = SLit l /\ literal_callback l = Panic site.
Proof.
  (* the inside of the literal: a, CR, b, closing quote *)
  exists [Other; Cr; Other; Quote], [Other; Cr; Other]. eexists. split; reflexivity.
Qed.

Lemma no_panic_literal_fixed : forall l, no_panic (literal_handler_fixed l).
Proof. intros l site. unfold literal_handler_fixed. destruct (has_cr (normalize l)); discriminate. Qed.
