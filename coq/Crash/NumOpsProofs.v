From Coq Require Import ZArith QArith Qreduction Qpower String List Bool Lia.
From NV Require Import Crash.Outcome Crash.NumOps.
Open Scope Q_scope.

Lemma of_float_no_panic : forall w f, no_panic (of_float w f).
Proof. intros w f s. unfold of_float. destruct (try_from_float_simplest f); discriminate. Qed.

Section P.
  Variable to_f64 : Q -> fl.
  Variable powf : fl -> fl -> fl.
  Variable atan2 : fl -> fl -> fl.
  Variable logf : fl -> Q -> fl.
  Variable f1 : fl -> fl.

  Lemma no_panic_div : forall n1 n2, no_panic (op_div n1 n2).
  Proof.
    intros n1 n2 s. unfold op_div, rat_div. destruct (qzero n2); discriminate.
  Qed.

  Lemma no_panic_mod : forall n1 n2, no_panic (op_mod n1 n2).
  Proof.
    intros n1 n2 s. unfold op_mod, rat_div. destruct (qzero n2) eqn:E; [discriminate|].
    cbn [bind]. discriminate.
  Qed.

  Lemma no_panic_pow : forall n1 n2, no_panic (op_pow to_f64 powf n1 n2).
  Proof.
    intros n1 n2 s. unfold op_pow, rat_pow.
    destruct (i64_try_from n2) as [e|].
    - destruct (Z.ltb e 0 && qzero n1)%bool eqn:E; [discriminate|]. discriminate.
    - apply of_float_no_panic.
  Qed.

  (* what the guard excludes: without it the primop panics, e.g. on 0 ^ (-1) *)
  Lemma pow_unguarded_panics :
    exists n1 n2 s, op_pow_unguarded to_f64 powf n1 n2 = Panic s.
  Proof.
    exists 0, (-1 # 1), "malachite: Rational::pow, reciprocal of 0"%string. reflexivity.
  Qed.

  (* ... and exactly there: zero base, negative integer exponent in the i64 range *)
  Lemma pow_unguarded_panics_iff : forall n1 n2,
    (exists s, op_pow_unguarded to_f64 powf n1 n2 = Panic s) <->
    (exists e, i64_try_from n2 = Some e /\ (e < 0)%Z /\ qzero n1 = true).
  Proof.
    intros n1 n2. unfold op_pow_unguarded, rat_pow. split.
    - intros [s H]. destruct (i64_try_from n2) as [e|] eqn:E.
      + exists e. destruct (Z.ltb e 0) eqn:L; destruct (qzero n1) eqn:Z0; cbn in H; try discriminate.
        apply Z.ltb_lt in L. auto.
      + exfalso. eapply of_float_no_panic; eauto.
    - intros (e & E & L & Z0). rewrite E. apply Z.ltb_lt in L. rewrite L, Z0. cbn. eauto.
  Qed.

  Lemma no_panic_float1 : forall n, no_panic (op_float1 to_f64 f1 n).
  Proof. intros. apply of_float_no_panic. Qed.

  Lemma no_panic_atan2 : forall n1 n2, no_panic (op_atan2 to_f64 atan2 n1 n2).
  Proof. intros. apply of_float_no_panic. Qed.

  Lemma no_panic_log : forall n1 n2, no_panic (op_log to_f64 logf n1 n2).
  Proof. intros. apply of_float_no_panic. Qed.
End P.

(* division by zero and zero to a negative power are *structured errors* *)
Lemma div_by_zero_is_error : forall n1 n2, qzero n2 = true -> op_div n1 n2 = Error "division by zero".
Proof. intros n1 n2 H. unfold op_div. now rewrite H. Qed.

Lemma mod_by_zero_is_error : forall n1 n2, qzero n2 = true -> op_mod n1 n2 = Error "division by zero (%)".
Proof. intros n1 n2 H. unfold op_mod. now rewrite H. Qed.

Lemma pow_zero_neg_is_error : forall to_f64 powf n1 n2 e,
  i64_try_from n2 = Some e -> (e < 0)%Z -> qzero n1 = true ->
  op_pow to_f64 powf n1 n2 = Error "division by zero".
Proof.
  intros ? ? n1 n2 e E L Z0. unfold op_pow. rewrite E. apply Z.ltb_lt in L. now rewrite L, Z0.
Qed.

Example pow_zero_neg_example : forall to_f64 powf, op_pow to_f64 powf 0 (-1 # 1) = Error "division by zero".
Proof. reflexivity. Qed.

(* the extracted exact functions are the primops *)
Lemma div_exact_is_op : forall a b, div_exact a b = op_div a b.
Proof. reflexivity. Qed.
Lemma mod_exact_is_op : forall a b, mod_exact a b = op_mod a b.
Proof. reflexivity. Qed.
Lemma pow_exact_is_op : forall to_f64 powf a b r, pow_exact a b = Some r -> op_pow to_f64 powf a b = r.
Proof.
  intros ? ? a b r. unfold pow_exact, op_pow. destruct (i64_try_from b); [|discriminate].
  now intros [= <-].
Qed.
