(* C10 (b) — index arithmetic of the string and array primops, as written in
   core/src/eval/operation.rs (ArrayAt, ArraySlice, ArrayGen, StringSubstr),
   core/src/term/string.rs (NickelString::substring, find_all_regex) and
   vector/src/slice.rs (Slice::slice, Slice::get).

   Indices are [Z]; the casts the code performs are explicit: [usize::try_from(&Number)] and
   [u32::try_from(&Number)] (fail on non-integers and out-of-range values), and [usize]
   subtraction is checked as in the debug profile.  A string is the list of its extended grapheme
   clusters, an array the list of its elements. *)
From Coq Require Import ZArith QArith String List Bool.
From NV Require Import Crash.Outcome Crash.NumOps.
Import ListNotations.
Open Scope Z_scope.

Definition usize_max : Z := 2 ^ 64 - 1.

(* [a - b] on usize with overflow checks on *)
Definition usub (a b : Z) : outcome Z :=
  if b <=? a then Val (a - b) else Panic "attempt to subtract with overflow".

Definition uadd (a b : Z) : outcome Z :=
  if a + b <=? usize_max then Val (a + b) else Panic "attempt to add with overflow".

Fixpoint skipZ {A} (n : Z) (l : list A) : list A :=
  match l with
  | [] => []
  | _ :: t => if n <=? 0 then l else skipZ (n - 1) t
  end.

Fixpoint takeZ {A} (n : Z) (l : list A) : list A :=
  match l with
  | [] => []
  | x :: t => if n <=? 0 then [] else x :: takeZ (n - 1) t
  end.

Fixpoint nthZ {A} (n : Z) (l : list A) : option A :=
  match l with
  | [] => None
  | x :: t => if n <=? 0 then Some x else nthZ (n - 1) t
  end.

Definition lenZ {A} (l : list A) : Z := Z.of_nat (List.length l).

(* ---------------------------------------------------------------- NickelString::substring *)
Definition substring {A} (s : list A) (start end_ : Q) : outcome (list A) :=
  match usize_try_from start with
  | None => Error "substring: NonIntStart"
  | Some st =>
    match usize_try_from end_ with
    | None => Error "substring: NonIntEnd"
    | Some en =>
      let from_start := skipZ st s in
      match from_start with
      | [] => Error "substring: StartOutOfBounds"
      | _ =>
        if en <? st then Error "substring: EndOutOfBounds"
        else
          do wanted <- usub en st;
          let sub := takeZ wanted from_start in
          if lenZ sub =? wanted then Val sub else Error "substring: EndOutOfBounds"
      end
    end
  end.

(* the same function without the [end < start] test: what that test is there for *)
Definition substring_unguarded {A} (s : list A) (start end_ : Q) : outcome (list A) :=
  match usize_try_from start, usize_try_from end_ with
  | Some st, Some en =>
      match skipZ st s with
      | [] => Error "substring: StartOutOfBounds"
      | from_start =>
          do wanted <- usub en st;
          let sub := takeZ wanted from_start in
          if lenZ sub =? wanted then Val sub else Error "substring: EndOutOfBounds"
      end
  | _, _ => Error "substring: NonInt"
  end.

(* ---------------------------------------------------------------- Slice::slice / Slice::get *)
(* vector/src/slice.rs: assert!(from <= to); assert!(to <= self.len()) *)
Definition vec_slice {A} (arr : list A) (from to : Z) : outcome (list A) :=
  if negb (from <=? to) then Panic "Slice::slice: assertion failed: from <= to"
  else if negb (to <=? lenZ arr) then Panic "Slice::slice: assertion failed: to <= self.len()"
  else Val (takeZ (to - from) (skipZ from arr)).

Definition vec_get {A} (arr : list A) (idx : Z) : option A :=
  if lenZ arr <=? idx then None else nthZ idx arr.

(* NAryOp::ArraySlice *)
Definition op_array_slice {A} (start end_ : Q) (arr : list A) : outcome (list A) :=
  match usize_try_from start with
  | None => Error "array/slice: start is not a positive integer smaller than usize::MAX"
  | Some st =>
    match usize_try_from end_ with
    | None => Error "array/slice: end is not a positive integer smaller than usize::MAX"
    | Some en =>
      if ((en <? st) || (lenZ arr <? en))%bool then Error "array/slice: index out of bounds"
      else vec_slice arr st en
    end
  end.

(* BinaryOp::ArrayAt: [array_data.array.get(n_as_usize).unwrap()] after the bounds test (an empty
   array is the inline constant [Container::Empty], tested first) *)
Definition op_array_at {A} (arr : list A) (n : Q) : outcome A :=
  match usize_try_from n with
  | None => Error "array/at: not a positive integer smaller than usize::MAX"
  | Some i =>
    match arr with
    | [] => Error "array/at: index out of bounds. Can't index into an empty array."
    | _ =>
      if lenZ arr <=? i then Error "array/at: index out of bounds"
      else unwrap "array/at: array.get(n).unwrap()" (vec_get arr i)
    end
  end.

(* UnaryOp::ArrayGen: the length of the generated array *)
Definition op_array_gen_len (n : Q) : outcome Z :=
  if Qle_bool 0 n then
    match u32_try_from n with
    | Some k => Val k
    | None => Error "array/generate: not an integer smaller than u32::MAX"
    end
  else Error "array/generate: negative".

(* ---------------------------------------------------------------- find_all_regex: grapheme index of a match *)
(* [offsets]: byte offsets of the grapheme clusters of the string ([grapheme_indices]), [len] its
   byte length.  [does_match_start_and_end_on_boundary] accepts a match that starts at one of the
   offsets *or at [len]* (GraphemeCursor::is_boundary is true at the end of the string); the code
   before commit c9daf53 then looked the start up among the offsets only and [expect]ed to find it. *)
Fixpoint position (m : Z) (l : list Z) (i : Z) : option Z :=
  match l with
  | [] => None
  | x :: t => if x =? m then Some i else position m t (i + 1)
  end.

Definition is_boundary (offsets : list Z) (len m : Z) : bool :=
  (existsb (Z.eqb m) offsets || (m =? len))%bool.

Definition find_all_index (offsets : list Z) (len m : Z) : outcome Z :=
  if is_boundary offsets len m
  then unwrap "find_all_regex: first_match.start() occurs on a cluster boundary" (position m offsets 0)
  else Error "match filtered out (not on a cluster boundary)".

(* since commit c9daf53 (the code as it is now): the end of the string is searched too *)
Definition find_all_index_fixed (offsets : list Z) (len m : Z) : outcome Z :=
  if is_boundary offsets len m
  then unwrap "find_all_regex: first_match.start() occurs on a cluster boundary" (position m (offsets ++ [len]) 0)
  else Error "match filtered out (not on a cluster boundary)".
