From Coq Require Import ZArith String List Bool Arith Lia.
From NV Require Import Crash.Outcome Crash.NameReg.

(* the loop before 26454e7, refuted: when the candidate and candidate1 are both taken, no amount of
   fuel suffices *)
Lemma spin_orig_diverges : forall taken, taken 1 = true -> forall fuel s, spin_orig taken fuel s = None.
Proof. intros taken H. induction fuel as [|f IH]; intros s; cbn; [reflexivity|]. rewrite H. apply IH. Qed.

Theorem select_uniq_orig_diverges : forall taken, taken 0 = true -> taken 1 = true ->
  forall fuel, select_uniq_orig taken fuel = None.
Proof. intros taken H0 H1 fuel. unfold select_uniq_orig. rewrite H0. now apply spin_orig_diverges. Qed.

Example select_uniq_orig_diverges_example :
  forall fuel, select_uniq_orig (fun s => Nat.ltb s 2) fuel = None.
Proof. intros. now apply select_uniq_orig_diverges. Qed.

(* the repaired loop terminates on every finite registry and returns a free name *)
Lemma spin_fixed_terminates : forall taken bound,
  (forall s, bound <= s -> taken s = false) ->
  forall fuel s, 0 < fuel -> bound < s + fuel ->
  exists r, spin_fixed taken fuel s = Some r /\ taken r = false /\ s <= r.
Proof.
  intros taken bound B. induction fuel as [|f IH]; intros s P L; [lia|].
  cbn. destruct (taken s) eqn:E.
  - assert (s < bound).
    { destruct (Nat.lt_ge_cases s bound) as [|G]; [assumption|]. rewrite (B s G) in E. discriminate. }
    destruct (IH (S s)) as (r & H1 & H2 & H3); [lia|lia|]. exists r. repeat split; auto. lia.
  - exists s. auto.
Qed.

Theorem select_uniq_fixed_terminates : forall taken bound,
  (forall s, bound <= s -> taken s = false) ->
  exists r, select_uniq_fixed taken (S bound) = Some r /\ taken r = false.
Proof.
  intros taken bound B. unfold select_uniq_fixed. destruct (taken 0) eqn:E.
  - destruct (spin_fixed_terminates taken bound B (S bound) 1) as (r & H1 & H2 & _); [lia|lia|]. eauto.
  - eauto.
Qed.

Example select_uniq_fixed_example : select_uniq_fixed (fun s => Nat.ltb s 2) 3 = Some 2.
Proof. reflexivity. Qed.

Lemma no_panic_candidate_char : forall next, no_panic (candidate_char next).
Proof.
  intros next site. unfold candidate_char.
  assert (H : valid_scalar (candidate_code next) = true).
  { unfold valid_scalar, candidate_code.
    assert (0 <= next mod 26 < 26)%Z by (apply Z.mod_pos_bound; lia).
    apply orb_true_iff. left. apply andb_true_iff. split; [apply Z.leb_le|apply Z.ltb_lt]; lia. }
  rewrite H. discriminate.
Qed.
