(* C10 — outcomes of the modelled cores.

   Every place where the mirrored Rust code can panic ([unwrap], [expect], [panic!],
   [unreachable!], [assert!], slice indexing, integer overflow in the debug profile, a panicking
   library call) is an explicit [Panic site] result of the model, never totalised away.  The
   theorems [no_panic_*] say that the guards written in the Rust code exclude that result for every
   input. *)
From Coq Require Import String List Bool.
Import ListNotations.
Open Scope string_scope.

Inductive outcome (A : Type) : Type :=
| Val (a : A)                 (* the operation returns a value *)
| Error (class : string)      (* a structured error: EvalErrorKind / ParseError / LexicalError *)
| Panic (site : string).      (* the Rust code would panic / abort at this site *)
Arguments Val {A} a.
Arguments Error {A} class.
Arguments Panic {A} site.

Definition bind {A B} (o : outcome A) (f : A -> outcome B) : outcome B :=
  match o with
  | Val a => f a
  | Error c => Error c
  | Panic s => Panic s
  end.

Definition is_panic {A} (o : outcome A) : bool :=
  match o with Panic _ => true | _ => false end.

Definition no_panic {A} (o : outcome A) : Prop := forall s, o <> Panic s.

Notation "'do' x <- o ; k" := (bind o (fun x => k)) (at level 200, x name, o at level 100, k at level 200).

(* [Option::unwrap] / [Option::expect] *)
Definition unwrap {A} (site : string) (o : option A) : outcome A :=
  match o with Some a => Val a | None => Panic site end.
