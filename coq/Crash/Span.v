(* C10 (d) — span arithmetic of parser-error conversion and label rendering:
     parser/src/lexer.rs      positions put into LexicalError, spans of a split candidate interpolation
     parser/src/error.rs      ParseError::from_lexical / from_lalrpop (mk_span), from_toml, from_yaml,
                              json_scanner_error (core/src/serialize/yaml.rs)
     parser/src/utils.rs      mk_span: casts [usize as u32]
     parser/src/position.rs   RawSpan::fuse, RawSpan::from_range (saturating)
     core/src/error/mod.rs    primary / secondary: [span.start.to_usize()..span.end.to_usize()]

   A source is its byte length [len] and the predicate [bnd] of its char boundaries.  A span is a
   pair of byte offsets. *)
From Coq Require Import ZArith String List Bool.
From NV Require Import Crash.Outcome Crash.Index.
Import ListNotations.
Open Scope Z_scope.

Definition span := (Z * Z)%type.

Definition in_range (len : Z) (s : span) : Prop := 0 <= fst s /\ fst s <= snd s /\ snd s <= len.
Definition in_rangeb (len : Z) (s : span) : bool := (0 <=? fst s) && (fst s <=? snd s) && (snd s <=? len).
Definition on_bnd (bnd : Z -> bool) (s : span) : Prop := bnd (fst s) = true /\ bnd (snd s) = true.

(* [x as u32] *)
Definition as_u32 (x : Z) : Z := x mod 2 ^ 32.
Definition mk_span (l r : Z) : span := (as_u32 l, as_u32 r).

(* u32::try_from(x).unwrap_or(u32::MAX) *)
Definition sat_u32 (x : Z) : Z := if (0 <=? x) && (x <=? 2 ^ 32 - 1) then x else 2 ^ 32 - 1.
Definition from_range (l r : Z) : span := (sat_u32 l, sat_u32 r).

(* ---------------------------------------------------------------- lexical errors *)
(* the token the sub-lexer matched when the error was raised *)
Inductive lexical_error :=
| LGeneric (tok : span)                       (* LexicalError::Generic(span) *)
| LUnmatchedCloseBrace (tok : span)           (* UnmatchedCloseBrace(span.start) *)
| LInvalidEscape (tok : span)                 (* InvalidEscapeSequence(span.start + 1) *)
| LInvalidAscii (tok : span)                  (* InvalidAsciiEscapeCode(span.start + 2) *)
| LDelimMismatch (opening closing : span).

(* spans of the ParseError built by from_lexical (one or two) *)
Definition from_lexical (e : lexical_error) : list span :=
  match e with
  | LGeneric t => [mk_span (fst t) (snd t)]
  | LUnmatchedCloseBrace t => let l := fst t in [mk_span l (l + 1)]
  | LInvalidEscape t => let l := fst t + 1 in [mk_span l (l + 1)]
  | LInvalidAscii t => let l := fst t + 2 in [mk_span l (l + 2)]
  | LDelimMismatch o c => [mk_span (fst o) (snd o); mk_span (fst c) (snd c)]
  end.

(* since commit 62096ac (the code as it is now): the span of the whole escaped character *)
Definition from_lexical_fixed (e : lexical_error) : list span :=
  match e with
  | LInvalidEscape t => [mk_span (fst t + 1) (snd t)]
  | _ => from_lexical e
  end.

(* what the regexes guarantee about the token of each error *)
Definition tok_ok (len : Z) (bnd : Z -> bool) (t : span) : Prop := in_range len t /\ on_bnd bnd t.

Definition lexical_error_ok (len : Z) (bnd : Z -> bool) (e : lexical_error) : Prop :=
  match e with
  | LGeneric t => tok_ok len bnd t
  | LUnmatchedCloseBrace t => tok_ok len bnd t /\ snd t = fst t + 1            (* the token } *)
  | LInvalidEscape t => tok_ok len bnd t /\ fst t + 2 <= snd t                   (* backslash, one char *)
                        /\ bnd (fst t + 1) = true
  | LInvalidAscii t => tok_ok len bnd t /\ snd t = fst t + 4                     (* backslash x H H *)
                       /\ bnd (fst t + 2) = true
  | LDelimMismatch o c => tok_ok len bnd o /\ tok_ok len bnd c
  end.

(* ---------------------------------------------------------------- lalrpop errors *)
Inductive lalrpop_error :=
| PInvalidToken (location : Z)
| PUnrecognizedToken (tok : span)
| PExtraToken (tok : span).

Definition from_lalrpop (e : lalrpop_error) : span :=
  match e with
  | PInvalidToken l => mk_span l (l + 1)
  | PUnrecognizedToken t | PExtraToken t => mk_span (fst t) (snd t)
  end.

(* ---------------------------------------------------------------- split candidate interpolation *)
(* split_candidate_interp(s, span, percent_count): literal then interpolation *)
Definition split_spans (tok : span) (pc : Z) : outcome (span * span) :=
  do split_at <- usub (snd tok - fst tok) pc;
  Val ((fst tok, fst tok + split_at), (fst tok + split_at, snd tok)).

(* ---------------------------------------------------------------- fusion *)
Definition fuse (a b : span) : span := (Z.min (fst a) (fst b), Z.max (snd a) (snd b)).

(* ---------------------------------------------------------------- external formats *)
(* before commit fa9c5c0: byte_offset .. byte_offset + 1 (json_scanner_error), index .. index + 1
   with a *character* index (from_yaml), start .. end + 1 (from_toml) *)
Definition json_error_span (byte_offset : Z) : span := (byte_offset, byte_offset + 1).
Definition toml_error_span (t : span) : span := (fst t, snd t + 1).

(* since commit fa9c5c0 (the code as it is now): parser/src/error.rs external_error_span *)
Fixpoint snap_down (bnd : Z -> bool) (fuel : nat) (p : Z) : Z :=
  match fuel with
  | O => 0
  | S f => if bnd p then p else snap_down bnd f (p - 1)
  end.

Fixpoint snap_up (bnd : Z -> bool) (len : Z) (fuel : nat) (p : Z) : Z :=
  match fuel with
  | O => len
  | S f => if bnd p then p else snap_up bnd len f (p + 1)
  end.

Definition clamp (lo hi x : Z) : Z := Z.max lo (Z.min hi x).

Definition external_error_span (len : Z) (bnd : Z -> bool) (start end_ : Z) : span :=
  let start := snap_down bnd (Z.to_nat len + 1) (Z.min start len) in
  let e := clamp start len end_ in
  let e := if (e =? start) && (start <? len) then start + 1 else e in
  (start, snap_up bnd len (Z.to_nat len + 1) e).

(* a source: boundaries at 0 and len, nothing outside *)
Definition src_ok (len : Z) (bnd : Z -> bool) : Prop :=
  0 <= len /\ bnd 0 = true /\ bnd len = true.
