(* C09 — basic facts about the call-by-name semantics: induction principles for the nested
   datatypes, fuel monotonicity (proved once), the equivalence [≃] used by the laws. *)
From Coq Require Import List String ZArith Bool Lia.
From NV Require Import Lazy.Syntax Lazy.Spec.
Import ListNotations.
Open Scope string_scope.
Open Scope list_scope.

(* ------------------------------------------------------------------ induction principles *)

Section TmInd.
  Variable P : tm -> Prop.
  Hypothesis HVar : forall x, P (Var x).
  Hypothesis HLam : forall x b, P b -> P (Lam x b).
  Hypothesis HApp : forall f a, P f -> P a -> P (App f a).
  Hypothesis HLet : forall x e b, P e -> P b -> P (Let x e b).
  Hypothesis HLetRec : forall x e b, P e -> P b -> P (LetRec x e b).
  Hypothesis HNum : forall n, P (Num n).
  Hypothesis HStr : forall s, P (Str s).
  Hypothesis HBool : forall b, P (Bool b).
  Hypothesis HBin : forall o a b, P a -> P b -> P (Bin o a b).
  Hypothesis HIf : forall c t e, P c -> P t -> P e -> P (If c t e).
  Hypothesis HArr : forall es, Forall P es -> P (Arr es).
  Hypothesis HAt : forall i a, P i -> P a -> P (At i a).
  Hypothesis HRec : forall fs, Forall (fun p => P (snd p)) fs -> P (Rec fs).
  Hypothesis HGet : forall e f, P e -> P (Get e f).
  Hypothesis HSeq : forall a b, P a -> P b -> P (Seq a b).
  Hypothesis HFail : P Fail.
  Hypothesis HImport : forall f, P (Import f).

  Fixpoint tm_ind' (t : tm) : P t :=
    match t with
    | Var x => HVar x
    | Lam x b => HLam x b (tm_ind' b)
    | App f a => HApp f a (tm_ind' f) (tm_ind' a)
    | Let x e b => HLet x e b (tm_ind' e) (tm_ind' b)
    | LetRec x e b => HLetRec x e b (tm_ind' e) (tm_ind' b)
    | Num n => HNum n
    | Str s => HStr s
    | Bool b => HBool b
    | Bin o a b => HBin o a b (tm_ind' a) (tm_ind' b)
    | If c t e => HIf c t e (tm_ind' c) (tm_ind' t) (tm_ind' e)
    | Arr es => HArr es ((fix go (l : list tm) : Forall P l :=
                            match l with
                            | [] => Forall_nil _
                            | x :: l' => Forall_cons _ (tm_ind' x) (go l')
                            end) es)
    | At i a => HAt i a (tm_ind' i) (tm_ind' a)
    | Rec fs => HRec fs ((fix go (l : list (string * tm)) : Forall (fun p => P (snd p)) l :=
                            match l with
                            | [] => Forall_nil _
                            | x :: l' => Forall_cons _ (tm_ind' (snd x)) (go l')
                            end) fs)
    | Get e f => HGet e f (tm_ind' e)
    | Seq a b => HSeq a b (tm_ind' a) (tm_ind' b)
    | Fail => HFail
    | Import f => HImport f
    end.
End TmInd.

Section BindingInd.
  Variable P : binding -> Prop.
  Hypothesis HClos : forall e rho, Forall (fun p => P (snd p)) rho -> P (BClos e rho).
  Hypothesis HRecB : forall a defs rho x, Forall (fun p => P (snd p)) rho -> P (BRec a defs rho x).

  Fixpoint binding_ind' (b : binding) : P b :=
    let go := fix go (l : list (string * binding)) : Forall (fun p => P (snd p)) l :=
                match l with
                | [] => Forall_nil _
                | x :: l' => Forall_cons _ (binding_ind' (snd x)) (go l')
                end in
    match b with
    | BClos e rho => HClos e rho (go rho)
    | BRec a defs rho x => HRecB a defs rho x (go rho)
    end.
End BindingInd.

(* ------------------------------------------------------------------ outcomes *)

Definition is_oof {A} (o : outcome A) : Prop := o = OutOfFuel.

Lemma bind_not_oof : forall A B (o : outcome A) (k : A -> outcome B),
  bind o k <> OutOfFuel -> o <> OutOfFuel.
Proof. intros A B [a|e|] k H; cbn in *; congruence. Qed.

Lemma bind_ok_inv : forall A B (o : outcome A) (k : A -> outcome B) r,
  bind o k = r -> r <> OutOfFuel ->
  (exists a, o = Ok a /\ k a = r) \/ (exists e, o = Err e /\ r = Err e).
Proof.
  intros A B [a|e|] k r H Hr; cbn in H; subst.
  - left; eauto.
  - right; eauto.
  - congruence.
Qed.

(* relation on outcomes: same error class, or related results *)
Definition orel {A B} (R : A -> B -> Prop) (o1 : outcome A) (o2 : outcome B) : Prop :=
  match o1, o2 with
  | Ok a, Ok b => R a b
  | Err e1, Err e2 => e1 = e2
  | _, _ => False
  end.

(* [f ≲ g]: whenever [f] produces a result with some fuel, [g] produces a related result with
   some fuel.  Together with fuel monotonicity ([*_mono] below) "some fuel" is the same as
   "every sufficiently large fuel". *)
Definition oapprox {A B} (R : A -> B -> Prop) (f : nat -> outcome A) (g : nat -> outcome B) : Prop :=
  forall n, f n <> OutOfFuel -> exists m, orel R (f n) (g m).

Definition oequiv {A} (f g : nat -> outcome A) : Prop :=
  oapprox eq f g /\ oapprox eq g f.

Lemma orel_eq : forall A (o1 o2 : outcome A), orel eq o1 o2 -> o1 = o2.
Proof. intros A [a|e|] [b|e'|]; cbn; intros; subst; tauto. Qed.

Lemma orel_eq_refl : forall A (o : outcome A), o <> OutOfFuel -> orel eq o o.
Proof. intros A [a|e|]; cbn; congruence. Qed.

Lemma oequiv_refl : forall A (f : nat -> outcome A), oequiv f f.
Proof. intros; split; intros n H; exists n; now apply orel_eq_refl. Qed.

Lemma oequiv_sym : forall A (f g : nat -> outcome A), oequiv f g -> oequiv g f.
Proof. intros A f g [H1 H2]; split; auto. Qed.

Lemma oequiv_trans : forall A (f g h : nat -> outcome A), oequiv f g -> oequiv g h -> oequiv f h.
Proof.
  intros A f g h [H1 H2] [H3 H4]; split; intros n Hn.
  - destruct (H1 n Hn) as [m Hm]. apply orel_eq in Hm.
    assert (g m <> OutOfFuel) by congruence.
    destruct (H3 m H) as [k Hk]. exists k. congruence.
  - destruct (H4 n Hn) as [m Hm]. apply orel_eq in Hm.
    assert (g m <> OutOfFuel) by congruence.
    destruct (H2 m H) as [k Hk]. exists k. congruence.
Qed.

(* ------------------------------------------------------------------ fuel monotonicity *)

Section Mono.
Variable fl : files.

Definition mono_at (n : nat) : Prop :=
  forall rho t r, eval fl n rho t = r -> r <> OutOfFuel -> eval fl (S n) rho t = r.

Lemma force_with_mono_step : forall n b r,
  mono_at n ->
  force_with (eval fl n) b = r -> r <> OutOfFuel -> force_with (eval fl (S n)) b = r.
Proof.
  intros n b r IH H Hr. destruct b as [e rho|a defs rho x]; cbn [force_with] in *.
  - now apply IH.
  - destruct (lookup x defs); [now apply IH|assumption].
Qed.

(* destruct the first evaluation the hypothesis depends on, transport it with the IH *)
Ltac mono_step IH :=
  match goal with
  | H : bind (eval fl ?n ?rho ?t) ?k = ?r |- _ =>
      let E := fresh "E" in
      destruct (eval fl n rho t) eqn:E; cbn [bind] in H;
      [ apply IH in E; [ rewrite E; cbn [bind] | discriminate ]
      | apply IH in E; [ rewrite E; cbn [bind]; exact H | discriminate ]
      | congruence ]
  end.

Lemma eval_mono_S : forall n, mono_at n.
Proof.
  induction n as [|n IH]; intros rho t r H Hr.
  - cbn in H. congruence.
  - pose proof IH as IH'. unfold mono_at in IH.
    remember (S n) as k eqn:Hk in |- *.
    destruct t; cbn [eval] in H |- *; subst k.
    + (* Var *) destruct (lookup x rho); [|assumption].
      now apply force_with_mono_step.
    + assumption.
    + (* App *) mono_step IH.
      destruct a; try assumption. now apply IH.
    + now apply IH.
    + now apply IH.
    + assumption.
    + assumption.
    + assumption.
    + (* Bin *) mono_step IH. mono_step IH. assumption.
    + (* If *) mono_step IH. destruct a; try assumption. destruct b; now apply IH.
    + assumption.
    + (* At *) mono_step IH. mono_step IH.
      destruct (at_sem a a0); cbn [bind] in *; try assumption.
      now apply force_with_mono_step.
    + assumption.
    + (* Get *) mono_step IH. destruct a; try assumption.
      destruct (lookup f fs); [|assumption]. now apply force_with_mono_step.
    + (* Seq *) mono_step IH. now apply IH.
    + assumption.
    + destruct (lookup f fl); [now apply IH|assumption].
Qed.

Lemma eval_mono : forall n m rho t r,
  eval fl n rho t = r -> r <> OutOfFuel -> n <= m -> eval fl m rho t = r.
Proof.
  intros n m rho t r H Hr Hle. induction Hle; [assumption|].
  now apply eval_mono_S.
Qed.

Lemma force_mono : forall n m b r,
  force fl n b = r -> r <> OutOfFuel -> n <= m -> force fl m b = r.
Proof.
  unfold force. intros n m b r H Hr Hle.
  destruct b as [e rho|a defs rho x]; cbn [force_with] in *.
  - eapply eval_mono; eauto.
  - destruct (lookup x defs); [eapply eval_mono; eauto|assumption].
Qed.

Lemma seq_list_mono : forall A B (f g : A -> outcome B) l r,
  (forall a r, In a l -> f a = r -> r <> OutOfFuel -> g a = r) ->
  seq_list f l = r -> r <> OutOfFuel -> seq_list g l = r.
Proof.
  intros A B f g l. induction l as [|a l IH]; intros r Hfg H Hr; cbn [seq_list] in *.
  - assumption.
  - destruct (f a) eqn:E; cbn [bind] in H.
    + erewrite (Hfg a (Ok a0)); [|now left|exact E|discriminate]. cbn [bind].
      destruct (seq_list f l) eqn:E2; cbn [bind] in H.
      * erewrite IH; [|intros; eapply Hfg; [now right|eassumption|assumption]|reflexivity|discriminate].
        exact H.
      * erewrite IH; [|intros; eapply Hfg; [now right|eassumption|assumption]|reflexivity|discriminate].
        exact H.
      * congruence.
    + erewrite (Hfg a (Err e)); [|now left|exact E|discriminate]. exact H.
    + congruence.
Qed.

Lemma bind_seq_list_mono : forall A B C (f g : A -> outcome B) l (k : list B -> outcome C) r,
  (forall a r, In a l -> f a = r -> r <> OutOfFuel -> g a = r) ->
  bind (seq_list f l) k = r -> r <> OutOfFuel -> bind (seq_list g l) k = r.
Proof.
  intros A B C f g l k r Hfg H Hr.
  destruct (seq_list f l) eqn:E; cbn [bind] in H.
  - rewrite (seq_list_mono _ _ f g l _ Hfg E) by discriminate. exact H.
  - rewrite (seq_list_mono _ _ f g l _ Hfg E) by discriminate. exact H.
  - congruence.
Qed.

Lemma bind_mono : forall A B (o o' : outcome A) (k k' : A -> outcome B) r,
  (forall r, o = r -> r <> OutOfFuel -> o' = r) ->
  (forall a r, k a = r -> r <> OutOfFuel -> k' a = r) ->
  bind o k = r -> r <> OutOfFuel -> bind o' k' = r.
Proof.
  intros A B o o' k k' r Ho Hk H Hr.
  destruct o eqn:E; cbn [bind] in H.
  - rewrite (Ho _ eq_refl) by discriminate. cbn [bind]. now apply Hk.
  - rewrite (Ho _ eq_refl) by discriminate. exact H.
  - congruence.
Qed.

Lemma export_mono_S : forall n v r,
  export fl n v = r -> r <> OutOfFuel -> export fl (S n) v = r.
Proof.
  induction n as [|n IH]; intros v r H Hr.
  - cbn in H. congruence.
  - remember (S n) as k eqn:Hk in |- *.
    destruct v; cbn [export] in H |- *; subst k; try assumption.
    + (* VArr *)
      eapply bind_seq_list_mono; [|exact H|exact Hr].
      intros b r0 _ Hb Hr0. cbn beta in *.
      eapply bind_mono; [| |exact Hb|exact Hr0].
      * intros r1 F Hr1. eapply force_mono; eauto.
      * intros a r1. apply IH.
    + (* VRec *)
      eapply bind_seq_list_mono; [|exact H|exact Hr].
      intros p r0 _ Hb Hr0. cbn beta in *.
      eapply bind_mono; [| |exact Hb|exact Hr0].
      * intros r1 F Hr1. eapply bind_mono; [| |exact F|exact Hr1].
        -- intros r2 F2 Hr2. eapply force_mono; eauto.
        -- intros a r2. apply IH.
      * intros a r1 Ha _. exact Ha.
Qed.

Lemma export_mono : forall n m v r,
  export fl n v = r -> r <> OutOfFuel -> n <= m -> export fl m v = r.
Proof.
  intros n m v r H Hr Hle. induction Hle; [assumption|]. now apply export_mono_S.
Qed.

Lemma run_mono : forall n m rho t r,
  run fl n rho t = r -> r <> OutOfFuel -> n <= m -> run fl m rho t = r.
Proof.
  unfold run. intros n m rho t r H Hr Hle.
  destruct (eval fl n rho t) eqn:E; cbn [bind] in H.
  - erewrite eval_mono; [|exact E|discriminate|exact Hle]. cbn [bind].
    eapply export_mono; eauto.
  - erewrite eval_mono; [|exact E|discriminate|exact Hle]. exact H.
  - congruence.
Qed.

Lemma export_b_mono : forall n m b r,
  export_b fl n b = r -> r <> OutOfFuel -> n <= m -> export_b fl m b = r.
Proof.
  unfold export_b. intros n m b r H Hr Hle.
  destruct (force fl n b) eqn:E; cbn [bind] in H.
  - erewrite force_mono; [|exact E|discriminate|exact Hle]. cbn [bind].
    eapply export_mono; eauto.
  - erewrite force_mono; [|exact E|discriminate|exact Hle]. exact H.
  - congruence.
Qed.

End Mono.
