(* C09 — "demand" between closures of the call-by-name semantics: [Dem b b'] when every
   terminating evaluation of [b] contains a terminating evaluation of [b'] (with no more fuel).
   Used to show that a black hole reported by the call-by-need machine is a divergence of S. *)
From Coq Require Import List String ZArith Bool Lia Wf_nat.
From NV Require Import Lazy.Syntax Lazy.Spec Lazy.SpecFacts.
Import ListNotations.
Open Scope string_scope.
Open Scope list_scope.

Section Demand.
Variable fl : files.

Definition diverges (b : binding) : Prop := forall m, force fl m b = OutOfFuel.

Definition Dem (b b' : binding) : Prop :=
  forall m, force fl m b <> OutOfFuel -> exists m', m' <= m /\ force fl m' b' <> OutOfFuel.

Definition SDem (b b' : binding) : Prop :=
  forall m, force fl m b <> OutOfFuel -> exists m', m' < m /\ force fl m' b' <> OutOfFuel.

Lemma Dem_refl : forall b, Dem b b.
Proof. intros b m H. eauto. Qed.

Lemma Dem_trans : forall a b c, Dem a b -> Dem b c -> Dem a c.
Proof.
  intros a b c H1 H2 m H. destruct (H1 m H) as [m1 [L1 N1]]. destruct (H2 m1 N1) as [m2 [L2 N2]].
  exists m2. split; [lia|assumption].
Qed.

Lemma SDem_Dem : forall a b, SDem a b -> Dem a b.
Proof. intros a b H m Hm. destruct (H m Hm) as [m' [L N]]. exists m'. split; [lia|assumption]. Qed.

Lemma Dem_SDem : forall a b c, Dem a b -> SDem b c -> SDem a c.
Proof.
  intros a b c H1 H2 m H. destruct (H1 m H) as [m1 [L1 N1]]. destruct (H2 m1 N1) as [m2 [L2 N2]].
  exists m2. split; [lia|assumption].
Qed.

Lemma SDem_Dem_trans : forall a b c, SDem a b -> Dem b c -> SDem a c.
Proof.
  intros a b c H1 H2 m H. destruct (H1 m H) as [m1 [L1 N1]]. destruct (H2 m1 N1) as [m2 [L2 N2]].
  exists m2. split; [lia|assumption].
Qed.

Lemma Dem_diverges : forall b b', Dem b b' -> diverges b' -> diverges b.
Proof.
  intros b b' H Hd m. destruct (force fl m b) eqn:E; [| |reflexivity];
    (destruct (H m) as [m' [_ N]]; [congruence|]; exfalso; apply N; apply Hd).
Qed.

(* a closure whose evaluation needs itself has no terminating evaluation *)
Lemma SDem_self : forall b, SDem b b -> diverges b.
Proof.
  intros b H m. induction m as [m IH] using lt_wf_ind.
  destruct (force fl m b) eqn:E; [| |reflexivity];
    (destruct (H m) as [m' [L N]]; [congruence|]; exfalso; apply N; now apply IH).
Qed.

Lemma eval_agree : forall m1 m rho t v,
  eval fl m1 rho t = Ok v -> eval fl m rho t <> OutOfFuel -> eval fl m rho t = Ok v.
Proof.
  intros m1 m rho t v H1 H.
  assert (A : eval fl (Nat.max m1 m) rho t = Ok v) by (eapply eval_mono; eauto; [discriminate|lia]).
  assert (B : eval fl (Nat.max m1 m) rho t = eval fl m rho t) by (eapply eval_mono; eauto; lia).
  congruence.
Qed.

Lemma force_clos : forall m t rho, force fl m (BClos t rho) = eval fl m rho t.
Proof. reflexivity. Qed.

Ltac dem_start :=
  intros m Hm; rewrite force_clos in Hm; destruct m as [|k]; [cbn in Hm; congruence|];
  cbn [eval] in Hm.

Lemma D_var : forall rho x b, lookup x rho = Some b -> SDem (BClos (Var x) rho) b.
Proof. intros rho x b L. dem_start. rewrite L in Hm. exists k. split; [lia|exact Hm]. Qed.

Lemma D_import : forall rho f e, lookup f fl = Some e -> SDem (BClos (Import f) rho) (BClos e []).
Proof. intros rho f e L. dem_start. rewrite L in Hm. exists k. split; [lia|exact Hm]. Qed.

Lemma D_first : forall rho t t1,
  (forall k, eval fl (S k) rho t <> OutOfFuel -> eval fl k rho t1 <> OutOfFuel) ->
  Dem (BClos t rho) (BClos t1 rho).
Proof.
  intros rho t t1 H m Hm. rewrite force_clos in Hm. destruct m as [|k]; [cbn in Hm; congruence|].
  exists k. split; [lia|]. rewrite force_clos. now apply H.
Qed.

Lemma D_app1 : forall rho f a, Dem (BClos (App f a) rho) (BClos f rho).
Proof. intros. apply D_first. intros k H. cbn [eval] in H. now apply bind_not_oof in H. Qed.

Lemma D_app2 : forall rho f a m1 x b rho',
  eval fl m1 rho f = Ok (VClo x b rho') ->
  Dem (BClos (App f a) rho) (BClos b ((x, BClos a rho) :: rho')).
Proof.
  intros rho f a m1 x b rho' E. dem_start.
  rewrite (eval_agree m1 k _ _ _ E (bind_not_oof _ _ _ _ Hm)) in Hm. cbn [bind] in Hm.
  exists k. split; [lia|exact Hm].
Qed.

Lemma D_let : forall rho x e b, Dem (BClos (Let x e b) rho) (BClos b ((x, BClos e rho) :: rho)).
Proof. intros. dem_start. exists k. split; [lia|exact Hm]. Qed.

Lemma D_letrec : forall rho x e b,
  Dem (BClos (LetRec x e b) rho) (BClos b ((x, BRec true [(x, e)] rho x) :: rho)).
Proof. intros. dem_start. exists k. split; [lia|exact Hm]. Qed.

Lemma D_bin1 : forall rho o a b, Dem (BClos (Bin o a b) rho) (BClos a rho).
Proof. intros. apply D_first. intros k H. cbn [eval] in H. now apply bind_not_oof in H. Qed.

Lemma D_bin2 : forall rho o a b m1 va,
  eval fl m1 rho a = Ok va -> Dem (BClos (Bin o a b) rho) (BClos b rho).
Proof.
  intros rho o a b m1 va E. dem_start.
  rewrite (eval_agree m1 k _ _ _ E (bind_not_oof _ _ _ _ Hm)) in Hm. cbn [bind] in Hm.
  exists k. split; [lia|]. rewrite force_clos. now apply bind_not_oof in Hm.
Qed.

Lemma D_if1 : forall rho c t e, Dem (BClos (If c t e) rho) (BClos c rho).
Proof. intros. apply D_first. intros k H. cbn [eval] in H. now apply bind_not_oof in H. Qed.

Lemma D_if2 : forall rho c t e m1 (bb : bool),
  eval fl m1 rho c = Ok (VBool bb) ->
  Dem (BClos (If c t e) rho) (BClos (if bb then t else e) rho).
Proof.
  intros rho c t e m1 bb E. dem_start.
  rewrite (eval_agree m1 k _ _ _ E (bind_not_oof _ _ _ _ Hm)) in Hm. cbn [bind] in Hm.
  exists k. split; [lia|]. rewrite force_clos. destruct bb; exact Hm.
Qed.

Lemma D_at1 : forall rho i a, Dem (BClos (At i a) rho) (BClos i rho).
Proof. intros. apply D_first. intros k H. cbn [eval] in H. now apply bind_not_oof in H. Qed.

Lemma D_at2 : forall rho i a m1 vi,
  eval fl m1 rho i = Ok vi -> Dem (BClos (At i a) rho) (BClos a rho).
Proof.
  intros rho i a m1 vi E. dem_start.
  rewrite (eval_agree m1 k _ _ _ E (bind_not_oof _ _ _ _ Hm)) in Hm. cbn [bind] in Hm.
  exists k. split; [lia|]. rewrite force_clos. now apply bind_not_oof in Hm.
Qed.

Lemma D_at3 : forall rho i a m1 vi m2 va b,
  eval fl m1 rho i = Ok vi -> eval fl m2 rho a = Ok va -> at_sem vi va = Ok b ->
  SDem (BClos (At i a) rho) b.
Proof.
  intros rho i a m1 vi m2 va b E1 E2 Ea. dem_start.
  rewrite (eval_agree m1 k _ _ _ E1 (bind_not_oof _ _ _ _ Hm)) in Hm. cbn [bind] in Hm.
  rewrite (eval_agree m2 k _ _ _ E2 (bind_not_oof _ _ _ _ Hm)) in Hm. cbn [bind] in Hm.
  rewrite Ea in Hm. cbn [bind] in Hm. exists k. split; [lia|exact Hm].
Qed.

Lemma D_get1 : forall rho e f, Dem (BClos (Get e f) rho) (BClos e rho).
Proof. intros. apply D_first. intros k H. cbn [eval] in H. now apply bind_not_oof in H. Qed.

Lemma D_get2 : forall rho e f m1 bs b,
  eval fl m1 rho e = Ok (VRec bs) -> lookup f bs = Some b -> SDem (BClos (Get e f) rho) b.
Proof.
  intros rho e f m1 bs b E L. dem_start.
  rewrite (eval_agree m1 k _ _ _ E (bind_not_oof _ _ _ _ Hm)) in Hm. cbn [bind] in Hm.
  rewrite L in Hm. exists k. split; [lia|exact Hm].
Qed.

Lemma D_seq1 : forall rho a b, Dem (BClos (Seq a b) rho) (BClos a rho).
Proof. intros. apply D_first. intros k H. cbn [eval] in H. now apply bind_not_oof in H. Qed.

Lemma D_seq2 : forall rho a b m1 va,
  eval fl m1 rho a = Ok va -> Dem (BClos (Seq a b) rho) (BClos b rho).
Proof.
  intros rho a b m1 va E. dem_start.
  rewrite (eval_agree m1 k _ _ _ E (bind_not_oof _ _ _ _ Hm)) in Hm. cbn [bind] in Hm.
  exists k. split; [lia|exact Hm].
Qed.

End Demand.
