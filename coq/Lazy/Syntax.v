(* C09 — syntax of the untyped fragment, outcomes, environments, values, data trees.
   Definitions only (no proofs), so that extraction works even when a proof file is broken. *)
From Coq Require Import List String ZArith Bool.
Import ListNotations.
Open Scope string_scope.
Open Scope list_scope.

Inductive binop := Add | Sub | Mul | Lth | Cat.

Inductive tm :=
 | Var (x : string)
 | Lam (x : string) (b : tm)
 | App (f a : tm)
 | Let (x : string) (e b : tm)
 | LetRec (x : string) (e b : tm)
 | Num (n : Z)
 | Str (s : string)
 | Bool (b : bool)
 | Bin (o : binop) (a b : tm)
 | If (c t e : tm)
 | Arr (es : list tm)
 | At (i a : tm)                       (* std.array.at i a *)
 | Rec (fs : list (string * tm))       (* record literal; fields may refer to each other *)
 | Get (e : tm) (f : string)           (* e.f *)
 | Seq (a b : tm)                      (* std.seq a b *)
 | Fail                                (* std.fail_with "x" *)
 | Import (f : string).                (* import "f" *)

(* error classes (DESIGN §1.2, restricted to what this fragment can raise) *)
Inductive err :=
 | TypeErr | NotAFunc | FieldMissing | Blame | UnboundId | InfiniteRec
 | NotExportable | ImportErr | QueryNonRecord.

Inductive outcome (A : Type) := Ok (a : A) | Err (e : err) | OutOfFuel.
Arguments Ok {A} a.
Arguments Err {A} e.
Arguments OutOfFuel {A}.

Definition bind {A B} (o : outcome A) (k : A -> outcome B) : outcome B :=
  match o with Ok a => k a | Err e => Err e | OutOfFuel => OutOfFuel end.

(* call-by-name environments: a variable is bound to an unevaluated closure.
   [BRec a defs rho x] is the definition named [x] of a group of mutually recursive definitions:
   a [let rec] ([a = true]: every member sees the group), or the fields of a record literal
   ([a = false]: only the members that mention a sibling see the group). *)
Inductive binding :=
 | BClos (e : tm) (rho : list (string * binding))
 | BRec (always : bool) (defs : list (string * tm)) (rho : list (string * binding)) (x : string).
Definition env := list (string * binding).

Inductive val :=
 | VNum (n : Z) | VStr (s : string) | VBool (b : bool)
 | VClo (x : string) (b : tm) (rho : env)
 | VArr (es : list binding)
 | VRec (fs : list (string * binding)).

Inductive data :=
 | DNum (n : Z) | DStr (s : string) | DBool (b : bool)
 | DFun                                 (* a function: present in the evaluated tree, not serialisable *)
 | DArr (es : list data)
 | DRec (fs : list (string * data)).

Fixpoint lookup {A} (x : string) (l : list (string * A)) : option A :=
  match l with
  | [] => None
  | (y, a) :: l' => if String.eqb x y then Some a else lookup x l'
  end.

Definition mem (x : string) (l : list string) : bool := existsb (String.eqb x) l.

Definition names {A} (l : list (string * A)) : list string := map fst l.

(* free variables (with repetitions) *)
Fixpoint fv (t : tm) : list string :=
  match t with
  | Var x => [x]
  | Lam x b => filter (fun y => negb (String.eqb y x)) (fv b)
  | App f a => fv f ++ fv a
  | Let x e b => fv e ++ filter (fun y => negb (String.eqb y x)) (fv b)
  | LetRec x e b => filter (fun y => negb (String.eqb y x)) (fv e ++ fv b)
  | Num _ | Str _ | Bool _ | Fail | Import _ => []
  | Bin _ a b => fv a ++ fv b
  | If c t e => fv c ++ fv t ++ fv e
  | Arr es => flat_map fv es
  | At i a => fv i ++ fv a
  | Rec fs =>
      filter (fun y => negb (mem y (map fst fs))) (flat_map (fun p => fv (snd p)) fs)
  | Get e _ => fv e
  | Seq a b => fv a ++ fv b
  end.

(* does the field body [e] mention one of the sibling field names [ns]?  (closurize_rec_record:
   a field without such dependencies is allocated as a plain thunk in the outer environment) *)
Definition has_deps (ns : list string) (e : tm) : bool :=
  existsb (fun y => mem y ns) (fv e).

(* the acyclic fragment: no [let rec], no record field that mentions a sibling field *)
Fixpoint acyclic (t : tm) : bool :=
  match t with
  | Var _ | Num _ | Str _ | Bool _ | Fail | Import _ => true
  | Lam _ b => acyclic b
  | App f a => acyclic f && acyclic a
  | Let _ e b => acyclic e && acyclic b
  | LetRec _ _ _ => false
  | Bin _ a b => acyclic a && acyclic b
  | If c t e => acyclic c && acyclic t && acyclic e
  | Arr es => forallb acyclic es
  | At i a => acyclic i && acyclic a
  | Rec fs => forallb (fun p => acyclic (snd p) && negb (has_deps (map fst fs) (snd p))) fs
  | Get e _ => acyclic e
  | Seq a b => acyclic a && acyclic b
  end.

(* record literals with pairwise distinct field names, everywhere in the term (what the parser
   produces after merging duplicate definitions) *)
Fixpoint nodup_names (ns : list string) : bool :=
  match ns with
  | [] => true
  | x :: r => negb (mem x r) && nodup_names r
  end.

Fixpoint wft (t : tm) : bool :=
  match t with
  | Var _ | Num _ | Str _ | Bool _ | Fail | Import _ => true
  | Lam _ b => wft b
  | App f a => wft f && wft a
  | Let _ e b => wft e && wft b
  | LetRec _ e b => wft e && wft b
  | Bin _ a b => wft a && wft b
  | If c t e => wft c && wft t && wft e
  | Arr es => forallb wft es
  | At i a => wft i && wft a
  | Rec fs => nodup_names (map fst fs) && forallb (fun p => wft (snd p)) fs
  | Get e _ => wft e
  | Seq a b => wft a && wft b
  end.

(* substitution of [e] for the free occurrences of [x] (not capture-avoiding by itself: the
   theorems that use it carry the side condition [nocap]) *)
Fixpoint subst (x : string) (e : tm) (t : tm) : tm :=
  match t with
  | Var y => if String.eqb y x then e else t
  | Lam y b => if String.eqb y x then t else Lam y (subst x e b)
  | App f a => App (subst x e f) (subst x e a)
  | Let y e1 b => Let y (subst x e e1) (if String.eqb y x then b else subst x e b)
  | LetRec y e1 b => if String.eqb y x then t else LetRec y (subst x e e1) (subst x e b)
  | Num _ | Str _ | Bool _ | Fail | Import _ => t
  | Bin o a b => Bin o (subst x e a) (subst x e b)
  | If c t1 t2 => If (subst x e c) (subst x e t1) (subst x e t2)
  | Arr es => Arr (map (subst x e) es)
  | At i a => At (subst x e i) (subst x e a)
  | Rec fs => if mem x (map fst fs) then t
              else Rec (map (fun p => (fst p, subst x e (snd p))) fs)
  | Get t1 f => Get (subst x e t1) f
  | Seq a b => Seq (subst x e a) (subst x e b)
  end.

(* [nocap vs x t]: no binder of [t] whose scope contains a free occurrence of [x] binds a
   variable of [vs] (so that substituting a term with free variables [vs] for [x] captures nothing) *)
Fixpoint nocap (vs : list string) (x : string) (t : tm) : bool :=
  match t with
  | Var _ | Num _ | Str _ | Bool _ | Fail | Import _ => true
  | Lam y b => String.eqb y x || (negb (mem y vs) && nocap vs x b)
  | App f a => nocap vs x f && nocap vs x a
  | Let y e1 b => nocap vs x e1 && (String.eqb y x || (negb (mem y vs) && nocap vs x b))
  | LetRec y e1 b => String.eqb y x || (negb (mem y vs) && nocap vs x e1 && nocap vs x b)
  | Bin _ a b => nocap vs x a && nocap vs x b
  | If c t1 t2 => nocap vs x c && nocap vs x t1 && nocap vs x t2
  | Arr es => forallb (nocap vs x) es
  | At i a => nocap vs x i && nocap vs x a
  | Rec fs => mem x (map fst fs)
              || (forallb (fun y => negb (mem y vs)) (map fst fs)
                  && forallb (fun p => nocap vs x (snd p)) fs)
  | Get t1 _ => nocap vs x t1
  | Seq a b => nocap vs x a && nocap vs x b
  end.

(* nested field access e.f1.f2... *)
Fixpoint gets (t : tm) (path : list string) : tm :=
  match path with
  | [] => t
  | f :: p => gets (Get t f) p
  end.

Fixpoint lookup_path (path : list string) (d : data) : option data :=
  match path with
  | [] => Some d
  | f :: p => match d with
              | DRec fs => match lookup f fs with Some d' => lookup_path p d' | None => None end
              | _ => None
              end
  end.

(* a tree is serialisable when it contains no function *)
Fixpoint exportable (d : data) : bool :=
  match d with
  | DFun => false
  | DArr ds => forallb exportable ds
  | DRec fs => forallb (fun p => exportable (snd p)) fs
  | _ => true
  end.

Definition check_exportable (o : outcome data) : outcome data :=
  match o with
  | Ok d => if exportable d then Ok d else Err NotExportable
  | r => r
  end.
