(* C09 — I-level mechanism: call-by-NEED evaluation with a heap of thunks, mirroring
   eval/mod.rs (Var/App/Let/Fun arms, enter_cache_index, update_at_indices) and
   eval/cache/lazy.rs (ThunkState, get_update_index, should_update, mk_update_frame, update).
   Big-step with an explicit heap; fuel bounds the recursion depth.  Definitions only.

   A cell keeps the closure it was allocated with ([c_tm], [c_env]) next to the value written by
   the update ([c_val]); the machine reads the original closure only while the cell is not
   Evaluated (in Rust the update overwrites the closure; keeping it is ghost state used to state
   the invariant "every Evaluated cell holds what its original closure denotes"). *)
From Coq Require Import List String ZArith Bool Arith.
From NV Require Import Lazy.Syntax Lazy.Spec.
Import ListNotations.
Open Scope string_scope.
Open Scope list_scope.

Definition loc := nat.
Definition nenv := list (string * loc).

Inductive nval :=
 | NNum (n : Z) | NStr (s : string) | NBool (b : bool)
 | NClo (x : string) (b : tm) (rho : nenv)
 | NArr (es : list loc)
 | NRec (fs : list (string * loc)).

Inductive tstate := Suspended | Blackholed | Evaluated.

(* InnerThunkData: standard thunks, and the revertible thunks allocated for record fields that
   depend on sibling fields (only the distinction is modelled; reverting belongs to merging) *)
Inductive tkind := Standard | Revertible.

Record cell := mkcell { c_tm : tm; c_env : nenv; c_kind : tkind; c_state : tstate; c_val : option nval }.
Definition heap := list cell.

(* deliberately wrong variants, used to show that the refinement statement has teeth *)
Inductive mode :=
 | Good
 | WrongCell      (* the update frame writes the result into the previously allocated cell *)
 | CallerEnv.     (* a function body runs in the caller's environment instead of the closure's *)

Definition fresh (c : tm * nenv) : cell := mkcell (fst c) (snd c) Standard Suspended None.

Definition alloc (h : heap) (t : tm) (rho : nenv) : heap * loc :=
  (h ++ [mkcell t rho Standard Suspended None], List.length h).

Fixpoint set_nth {A} (l : list A) (i : nat) (a : A) : list A :=
  match l, i with
  | [], _ => []
  | _ :: l', O => a :: l'
  | x :: l', S i' => x :: set_nth l' i' a
  end.

Definition set_state (h : heap) (l : loc) (s : tstate) : heap :=
  match nth_error h l with
  | Some c => set_nth h l (mkcell (c_tm c) (c_env c) (c_kind c) s (c_val c))
  | None => h
  end.

Definition update (h : heap) (l : loc) (v : nval) : heap :=
  match nth_error h l with
  | Some c => set_nth h l (mkcell (c_tm c) (c_env c) (c_kind c) Evaluated (Some v))
  | None => h
  end.

(* Thunk::should_update = not already a weak head normal form.  Array and record literals are
   not WHNF terms (they still have to be closurized). *)
Definition is_whnf (t : tm) : bool :=
  match t with
  | Lam _ _ | Num _ | Str _ | Bool _ => true
  | _ => false
  end.

Definition upd_target (m : mode) (l : loc) : loc :=
  match m with WrongCell => pred l | _ => l end.

(* allocate one thunk per element, all in the same environment *)
Fixpoint alloc_list (h : heap) (rho : nenv) (es : list tm) : heap * list loc :=
  match es with
  | [] => (h, [])
  | e :: es' => let (h1, l) := alloc h e rho in
                let (h2, ls) := alloc_list h1 rho es' in (h2, l :: ls)
  end.

(* record literal: field number i lives at [base + i]; a field that mentions sibling fields gets
   the recursive environment, the others the outer one *)
Fixpoint field_locs (base : nat) (fs : list (string * tm)) : list (string * loc) :=
  match fs with
  | [] => []
  | (f, _) :: fs' => (f, base) :: field_locs (S base) fs'
  end.

Definition alloc_fields (h : heap) (rho : nenv) (fs : list (string * tm)) : heap * list (string * loc) :=
  let ls := field_locs (List.length h) fs in
  (h ++ map (fun p => if has_deps (map fst fs) (snd p)
                      then mkcell (snd p) (ls ++ rho) Revertible Suspended None
                      else mkcell (snd p) rho Standard Suspended None) fs,
   ls).

Fixpoint index_of (f : string) (fl : files) : option nat :=
  match fl with
  | [] => None
  | (g, _) :: fl' => if String.eqb f g then Some O
                     else match index_of f fl' with Some i => Some (S i) | None => None end
  end.

(* imports: one shared thunk per file, closurized in the empty environment (cache.rs: closurize) *)
Definition init_heap (fl : files) : heap :=
  map (fun p => mkcell (snd p) [] Standard Suspended None) fl.

Definition nbinop_sem (o : binop) (v1 v2 : nval) : outcome nval :=
  match o, v1, v2 with
  | Add, NNum a, NNum b => Ok (NNum (a + b))
  | Sub, NNum a, NNum b => Ok (NNum (a - b))
  | Mul, NNum a, NNum b => Ok (NNum (a * b))
  | Lth, NNum a, NNum b => Ok (NBool (Z.ltb a b))
  | Cat, NStr a, NStr b => Ok (NStr (String.append a b))
  | _, _, _ => Err TypeErr
  end.

Definition nat_sem (vi va : nval) : outcome loc :=
  match vi, va with
  | NNum i, NArr es =>
      if Z.ltb i 0 then Err Blame
      else match nth_error es (Z.to_nat i) with Some l => Ok l | None => Err Blame end
  | _, _ => Err Blame
  end.

(* thread the heap through a list of computations, left to right *)
Fixpoint seqN {A B} (f : heap -> A -> outcome B * heap) (h : heap) (l : list A) : outcome (list B) * heap :=
  match l with
  | [] => (Ok [], h)
  | a :: l' =>
      match f h a with
      | (Ok b, h1) =>
          match seqN f h1 l' with
          | (Ok bs, h2) => (Ok (b :: bs), h2)
          | (Err e, h2) => (Err e, h2)
          | (OutOfFuel, h2) => (OutOfFuel, h2)
          end
      | (Err e, h1) => (Err e, h1)
      | (OutOfFuel, h1) => (OutOfFuel, h1)
      end
  end.

Section WithFiles.
Variable fl : files.
Variable md : mode.

(* enter_cache_index + the update performed when the value comes back *)
Definition enter_with (ev : heap -> nenv -> tm -> outcome nval * heap) (h : heap) (l : loc)
  : outcome nval * heap :=
  match nth_error h l with
  | None => (Err UnboundId, h)
  | Some c =>
    match c_state c with
    | Evaluated => match c_val c with
                   | Some v => (Ok v, h)
                   | None => (Err InfiniteRec, h)
                   end
    | Blackholed => (Err InfiniteRec, h)
    | Suspended =>
        if is_whnf (c_tm c) then
          (* no update frame for values: the thunk is flagged Evaluated right away *)
          match ev h (c_env c) (c_tm c) with
          | (Ok v, h') => (Ok v, update h' l v)
          | r => r
          end
        else
          match ev (set_state h l Blackholed) (c_env c) (c_tm c) with
          | (Ok v, h') => (Ok v, update h' (upd_target md l) v)
          | r => r
          end
    end
  end.

Fixpoint evalN (n : nat) (h : heap) (rho : nenv) (t : tm) {struct n} : outcome nval * heap :=
  match n with
  | O => (OutOfFuel, h)
  | S n =>
    match t with
    | Var x => match lookup x rho with
               | Some l => enter_with (evalN n) h l
               | None => (Err UnboundId, h)
               end
    | Lam x b => (Ok (NClo x b rho), h)
    | App f a =>
        match evalN n h rho f with
        | (Ok (NClo x b rho'), h1) =>
            let (h2, l) := alloc h1 a rho in
            evalN n h2 ((x, l) :: match md with CallerEnv => rho | _ => rho' end) b
        | (Ok _, h1) => (Err NotAFunc, h1)
        | r => r
        end
    | Let x e b => let (h1, l) := alloc h e rho in evalN n h1 ((x, l) :: rho) b
    | LetRec x e b =>
        let l := List.length h in
        evalN n (h ++ [mkcell e ((x, l) :: rho) Standard Suspended None]) ((x, l) :: rho) b
    | Num z => (Ok (NNum z), h)
    | Str s => (Ok (NStr s), h)
    | Bool b => (Ok (NBool b), h)
    | Bin o a b =>
        match evalN n h rho a with
        | (Ok va, h1) =>
            match evalN n h1 rho b with
            | (Ok vb, h2) => (nbinop_sem o va vb, h2)
            | r => r
            end
        | r => r
        end
    | If c t1 t2 =>
        match evalN n h rho c with
        | (Ok (NBool true), h1) => evalN n h1 rho t1
        | (Ok (NBool false), h1) => evalN n h1 rho t2
        | (Ok _, h1) => (Err TypeErr, h1)
        | r => r
        end
    | Arr es => let (h1, ls) := alloc_list h rho es in (Ok (NArr ls), h1)
    | At i a =>
        match evalN n h rho i with
        | (Ok vi, h1) =>
            match evalN n h1 rho a with
            | (Ok va, h2) =>
                match nat_sem vi va with
                | Ok l => enter_with (evalN n) h2 l
                | Err e => (Err e, h2)
                | OutOfFuel => (OutOfFuel, h2)
                end
            | r => r
            end
        | r => r
        end
    | Rec fs => let (h1, ls) := alloc_fields h rho fs in (Ok (NRec ls), h1)
    | Get e f =>
        match evalN n h rho e with
        | (Ok (NRec ls), h1) =>
            match lookup f ls with
            | Some l => enter_with (evalN n) h1 l
            | None => (Err FieldMissing, h1)
            end
        | (Ok _, h1) => (Err TypeErr, h1)
        | r => r
        end
    | Seq a b =>
        match evalN n h rho a with
        | (Ok _, h1) => evalN n h1 rho b
        | r => r
        end
    | Fail => (Err Blame, h)
    | Import f =>
        match index_of f fl with
        | Some l => enter_with (evalN n) h l
        | None => (Err ImportErr, h)
        end
    end
  end.

Definition enter (n : nat) (h : heap) (l : loc) : outcome nval * heap := enter_with (evalN n) h l.

(* deep evaluation (%force% for export): enter every element, then recurse; elements are
   forced last to first *)
Fixpoint exportN (n : nat) (h : heap) (v : nval) {struct n} : outcome data * heap :=
  match n with
  | O => (OutOfFuel, h)
  | S n =>
    let elem := fun (h : heap) (l : loc) =>
      match enter n h l with
      | (Ok v, h1) => exportN n h1 v
      | (Err e, h1) => (Err e, h1)
      | (OutOfFuel, h1) => (OutOfFuel, h1)
      end in
    match v with
    | NNum z => (Ok (DNum z), h)
    | NStr s => (Ok (DStr s), h)
    | NBool b => (Ok (DBool b), h)
    | NClo _ _ _ => (Ok DFun, h)
    | NArr ls =>
        match seqN elem h (rev ls) with
        | (Ok ds, h') => (Ok (DArr (rev ds)), h')
        | (Err e, h') => (Err e, h')
        | (OutOfFuel, h') => (OutOfFuel, h')
        end
    | NRec fs =>
        match seqN (fun h p => match elem h (snd p) with
                               | (Ok d, h1) => (Ok (fst p, d), h1)
                               | (Err e, h1) => (Err e, h1)
                               | (OutOfFuel, h1) => (OutOfFuel, h1)
                               end) h (rev fs) with
        | (Ok ds, h') => (Ok (DRec (rev ds)), h')
        | (Err e, h') => (Err e, h')
        | (OutOfFuel, h') => (OutOfFuel, h')
        end
    end
  end.

(* whole program: evaluate in the empty environment over the heap of import thunks, then export *)
Definition runN (n : nat) (t : tm) : outcome data * heap :=
  match evalN n (init_heap fl) [] t with
  | (Ok v, h) => exportN n h v
  | (Err e, h) => (Err e, h)
  | (OutOfFuel, h) => (OutOfFuel, h)
  end.

(* field-path extraction on the machine *)
Fixpoint extractN_loc (n : nat) (h : heap) (l : loc) (path : list string) : outcome data * heap :=
  match path with
  | [] => match enter n h l with
          | (Ok v, h1) => exportN n h1 v
          | (Err e, h1) => (Err e, h1)
          | (OutOfFuel, h1) => (OutOfFuel, h1)
          end
  | f :: p =>
      match enter n h l with
      | (Ok (NRec ls), h1) =>
          match lookup f ls with
          | Some l' => extractN_loc n h1 l' p
          | None => (Err FieldMissing, h1)
          end
      | (Ok _, h1) => (Err QueryNonRecord, h1)
      | (Err e, h1) => (Err e, h1)
      | (OutOfFuel, h1) => (OutOfFuel, h1)
      end
  end.

Definition extractN (n : nat) (t : tm) (path : list string) : outcome data * heap :=
  let (h, l) := alloc (init_heap fl) t [] in extractN_loc n h l path.

End WithFiles.
