(* C09 — the refinement statement has teeth: two deliberately wrong machines are refuted, and
   the hypotheses of the theorems are satisfiable by non-trivial terms. *)
From Coq Require Import List String ZArith Bool Lia.
From NV Require Import Lazy.Syntax Lazy.Spec Lazy.SpecFacts Lazy.Need Lazy.Laws.
Import ListNotations.
Open Scope string_scope.
Open Scope list_scope.

(* what it means for a machine variant to refine the call-by-name semantics on a program *)
Definition refines_on (fl : files) (md : mode) (t : tm) : Prop :=
  forall n r h, runN fl md n t = (r, h) -> r <> OutOfFuel -> r <> Err InfiniteRec ->
    exists m, run fl m [] t = r.

Lemma run_differs : forall fl t k r0 r,
  run fl k [] t = r0 -> r0 <> OutOfFuel -> r <> OutOfFuel -> r0 <> r -> forall m, run fl m [] t <> r.
Proof.
  intros fl t k r0 r H0 Hn0 Hn Hd m Hm.
  assert (A : run fl (Nat.max k m) [] t = r0) by (eapply run_mono; eauto; lia).
  assert (B : run fl (Nat.max k m) [] t = r) by (eapply run_mono; eauto; lia).
  congruence.
Qed.

(* let a = 1 in let b = 1 + 1 in b + a *)
Definition wrongcell_witness : tm :=
  Let "a" (Num 1) (Let "b" (Bin Add (Num 1) (Num 1)) (Bin Add (Var "b") (Var "a"))).

(* the update frame writes into the wrong cell: [a] is overwritten with the value of [b] *)
Lemma need_wrongcell_refuted :
  exists t, wft t = true /\ acyclic t = true /\ ~ refines_on [] WrongCell t.
Proof.
  exists wrongcell_witness. split; [reflexivity|]. split; [reflexivity|]. intros H.
  destruct (H 20 (Ok (DNum 4)) (snd (runN [] WrongCell 20 wrongcell_witness)))
    as [m Hm]; [vm_compute; reflexivity|discriminate|discriminate|].
  revert m Hm. apply (run_differs [] wrongcell_witness 20 (Ok (DNum 3)));
    [vm_compute; reflexivity|discriminate|discriminate|discriminate].
Qed.

(* let x = 1 in let f = fun y => x in let x = 2 in f 0 *)
Definition callerenv_witness : tm :=
  Let "x" (Num 1) (Let "f" (Lam "y" (Var "x")) (Let "x" (Num 2) (App (Var "f") (Num 0)))).

(* the closure body runs in the caller's environment (dynamic scoping) *)
Lemma need_callerenv_refuted :
  exists t, wft t = true /\ acyclic t = true /\ ~ refines_on [] CallerEnv t.
Proof.
  exists callerenv_witness. split; [reflexivity|]. split; [reflexivity|]. intros H.
  destruct (H 20 (Ok (DNum 2)) (snd (runN [] CallerEnv 20 callerenv_witness)))
    as [m Hm]; [vm_compute; reflexivity|discriminate|discriminate|].
  revert m Hm. apply (run_differs [] callerenv_witness 20 (Ok (DNum 1)));
    [vm_compute; reflexivity|discriminate|discriminate|discriminate].
Qed.

(* the correct machine on the same programs *)
Example good_on_witnesses :
  fst (runN [] Good 20 wrongcell_witness) = Ok (DNum 3) /\
  fst (runN [] Good 20 callerenv_witness) = Ok (DNum 1).
Proof. vm_compute. auto. Qed.

(* ---- the hypotheses of the laws are satisfiable by non-trivial terms *)

(* let_abs / beta_abs: a body with a binder, a shadowing binder and a record around the holes *)
Example nocap_witness :
  let e := Bin Add (Var "k") (Num 1) in
  let b := Rec [("p", Lam "y" (Bin Add (Var "x") (Var "y"))); ("q", Let "x" (Num 0) (Var "x"));
                ("r", Arr [Var "x"; Var "x"])] in
  nocap (fv e) "x" b = true /\
  subst "x" e b = Rec [("p", Lam "y" (Bin Add e (Var "y"))); ("q", Let "x" (Num 0) (Var "x"));
                       ("r", Arr [e; e])].
Proof. vm_compute. auto. Qed.

(* a capture that the side condition rejects: (fun y => x) with e = y *)
Example nocap_rejects_capture : nocap (fv (Var "y")) "x" (Lam "y" (Var "x")) = false.
Proof. reflexivity. Qed.

(* seq_ok: the sequenced value may itself contain failing parts that are never demanded *)
Example seq_ok_witness :
  eval [] 5 [] (Arr [Fail; Num 1]) = Ok (VArr [BClos Fail []; BClos (Num 1) []]).
Proof. reflexivity. Qed.

(* import_abs: a file table with a closed, non-trivial file *)
Example import_witness :
  let fl := [("f", Let "a" (Num 2) (Bin Mul (Var "a") (Var "a")))] in
  lookup "f" fl = Some (Let "a" (Num 2) (Bin Mul (Var "a") (Var "a"))) /\
  fv (Let "a" (Num 2) (Bin Mul (Var "a") (Var "a"))) = [] /\
  run fl 10 [] (Bin Add (Import "f") (Import "f")) = Ok (DNum 8) /\
  fst (runN fl Good 10 (Bin Add (Import "f") (Import "f"))) = Ok (DNum 8).
Proof. vm_compute. auto. Qed.

(* need_refines_name: an acyclic program using sharing, a function called twice, containers *)
Example acyclic_witness :
  let t := Let "d" (Bin Add (Num 1) (Num 2))
             (Let "f" (Lam "u" (Bin Mul (Var "u") (Var "d")))
                (Rec [("a", App (Var "f") (Var "d")); ("b", Arr [App (Var "f") (Num 2); Var "d"])])) in
  wft t = true /\ acyclic t = true /\
  fst (runN [] Good 30 t) = Ok (DRec [("a", DNum 9); ("b", DArr [DNum 6; DNum 3])]) /\
  run [] 30 [] t = Ok (DRec [("a", DNum 9); ("b", DArr [DNum 6; DNum 3])]).
Proof. vm_compute. auto. Qed.

(* need_refines_name on the cyclic part: a recursive function and a recursive record *)
Example cyclic_witness :
  let t := LetRec "f" (Lam "n" (If (Bin Lth (Var "n") (Num 1)) (Num 0)
                                  (Bin Add (App (Var "f") (Bin Sub (Var "n") (Num 1))) (Var "n"))))
             (Rec [("a", App (Var "f") (Num 3)); ("b", Bin Mul (Var "a") (Var "a")); ("c", Num 1)]) in
  wft t = true /\ acyclic t = false /\
  fst (runN [] Good 40 t) = Ok (DRec [("a", DNum 6); ("b", DNum 36); ("c", DNum 1)]) /\
  run [] 40 [] t = Ok (DRec [("a", DNum 6); ("b", DNum 36); ("c", DNum 1)]).
Proof. vm_compute. auto. Qed.

(* black-holing: a cyclic definition is reported, not looped on (S diverges) *)
Example blackhole_witness :
  fst (runN [] Good 30 (LetRec "x" (Var "x") (Var "x"))) = Err InfiniteRec /\
  run [] 30 [] (LetRec "x" (Var "x") (Var "x")) = OutOfFuel.
Proof. vm_compute. auto. Qed.
