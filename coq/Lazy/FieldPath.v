(* C09 — field-path extraction (extract_field_impl + eval_full_for_export of the field) agrees
   with the path looked up in the full export, and is lazy: it only depends on the path. *)
From Coq Require Import List String ZArith Bool Lia.
From NV Require Import Lazy.Syntax Lazy.Spec Lazy.SpecFacts.
Import ListNotations.
Open Scope string_scope.
Open Scope list_scope.

Section FieldPath.
Variable fl : files.

Lemma extract_b_mono : forall p n m b o,
  extract_b fl n b p = o -> o <> OutOfFuel -> n <= m -> extract_b fl m b p = o.
Proof.
  induction p as [|f p IH]; intros n m b o H Ho Hle; cbn [extract_b] in *.
  - eapply export_b_mono; eauto.
  - destruct (force fl n b) as [v|e|] eqn:F; [| |congruence].
    + rewrite (force_mono fl n m b _ F) by (try discriminate; lia).
      destruct v; try assumption. destruct (lookup f fs); [|assumption]. eapply IH; eauto.
    + rewrite (force_mono fl n m b _ F) by (try discriminate; lia). assumption.
Qed.

(* what an exported record says about its fields *)
Lemma seq_list_fields : forall k (l : list (string * binding)) ds,
  seq_list (fun p => bind (bind (force fl k (snd p)) (export fl k)) (fun d => Ok (fst p, d))) l = Ok ds ->
  Forall2 (fun p q => fst p = fst q /\ export_b fl k (snd p) = Ok (snd q)) l ds.
Proof.
  induction l as [|[f b] l IH]; intros ds H; cbn [seq_list] in H.
  - injection H as <-. constructor.
  - cbn [fst snd] in H. fold (export_b fl k b) in H.
    destruct (export_b fl k b) as [d|e|] eqn:E; cbn [bind] in H; try discriminate.
    match type of H with bind ?x _ = _ => destruct x as [ds'|e|] eqn:E2 end; cbn [bind] in H; try discriminate.
    injection H as <-. constructor; [split; [reflexivity|exact E]|]. now apply IH.
Qed.

Lemma Forall2_rev' : forall A B (R : A -> B -> Prop) l1 l2,
  Forall2 R l1 l2 -> Forall2 R (rev l1) (rev l2).
Proof.
  induction 1; cbn; [constructor|]. apply Forall2_app; [assumption|]. constructor; [assumption|constructor].
Qed.

Lemma fields_lookup : forall k (l : list (string * binding)) (ds : list (string * data)) f d,
  Forall2 (fun p q => fst p = fst q /\ export_b fl k (snd p) = Ok (snd q)) l ds ->
  lookup f ds = Some d -> exists b, lookup f l = Some b /\ export_b fl k b = Ok d.
Proof.
  intros k l ds f d H. induction H as [|[g b] [g' d0] l ds [Hg Hb] Hl IH]; cbn [lookup]; [discriminate|].
  cbn [fst snd] in *. subst g'. destruct (String.eqb f g).
  - intros [= ->]. eauto.
  - assumption.
Qed.

Lemma export_rec_inv : forall n v fs,
  export fl n v = Ok (DRec fs) ->
  exists k bs, n = S k /\ v = VRec bs /\
    Forall2 (fun p q => fst p = fst q /\ export_b fl k (snd p) = Ok (snd q)) bs fs.
Proof.
  intros n v fs H. destruct n as [|k]; [discriminate|]. destruct v; cbn [export] in H; try discriminate.
  - match type of H with bind ?x _ = _ => destruct x eqn:E end; cbn [bind] in H; discriminate.
  - exists k, fs0. split; [reflexivity|]. split; [reflexivity|].
    match type of H with bind ?x _ = _ => destruct x as [ds|e|] eqn:E end; cbn [bind] in H; try discriminate.
    injection H as <-. apply seq_list_fields in E. apply Forall2_rev' in E.
    now rewrite rev_involutive in E.
Qed.

Lemma export_b_extract : forall p n b d d',
  export_b fl n b = Ok d -> lookup_path p d = Some d' -> exists m, extract_b fl m b p = Ok d'.
Proof.
  induction p as [|f p IH]; intros n b d d' He Hl; cbn [lookup_path] in Hl.
  - injection Hl as <-. exists n. exact He.
  - destruct d; try discriminate. destruct (lookup f fs) as [d1|] eqn:L; [|discriminate].
    unfold export_b in He. destruct (force fl n b) as [v|e|] eqn:F; cbn [bind] in He; try discriminate.
    destruct (export_rec_inv _ _ _ He) as [k [bs [-> [-> Hf]]]].
    destruct (fields_lookup _ _ _ _ _ Hf L) as [b' [Lb Eb]].
    destruct (IH _ _ _ _ Eb Hl) as [m Em].
    exists (Nat.max (S k) m). cbn [extract_b].
    rewrite (force_mono fl (S k) (Nat.max (S k) m) b _ F) by (try discriminate; lia).
    rewrite Lb. eapply extract_b_mono; eauto; [discriminate|lia].
Qed.

(* the value of a path in the full export is what field extraction gives *)
Theorem field_extraction : forall n rho e path d d',
  run fl n rho e = Ok d -> lookup_path path d = Some d' ->
  exists m, extract fl m rho e path = Ok d'.
Proof.
  intros n rho e path d d' H Hl. unfold extract. eapply export_b_extract; eauto.
Qed.

(* extraction depends on a binding only through what forcing it gives *)
Lemma extract_b_force_eq : forall p m b1 b2 d,
  (forall v, force fl m b1 = Ok v -> exists m', force fl m' b2 = Ok v) ->
  extract_b fl m b1 p = Ok d -> exists m', extract_b fl m' b2 p = Ok d.
Proof.
  intros p m b1 b2 d Hf H. destruct p as [|f p]; cbn [extract_b] in H.
  - unfold export_b in H. destruct (force fl m b1) as [v|e|] eqn:F; cbn [bind] in H; try discriminate.
    destruct (Hf v eq_refl) as [m' F'].
    exists (Nat.max m m'). cbn [extract_b]. unfold export_b.
    rewrite (force_mono fl m' (Nat.max m m') b2 _ F') by (try discriminate; lia). cbn [bind].
    eapply export_mono; eauto; [discriminate|lia].
  - destruct (force fl m b1) as [v|e|] eqn:F; try discriminate.
    destruct (Hf v eq_refl) as [m' F'].
    exists (Nat.max m m'). cbn [extract_b].
    rewrite (force_mono fl m' (Nat.max m m') b2 _ F') by (try discriminate; lia).
    destruct v; try discriminate. destruct (lookup f fs); [|discriminate].
    eapply extract_b_mono; eauto; [discriminate|lia].
Qed.

Lemma extract_b_ok_force : forall p m b d, extract_b fl m b p = Ok d -> exists v, force fl m b = Ok v.
Proof.
  intros [|f p] m b d H; cbn [extract_b] in H.
  - unfold export_b in H. destruct (force fl m b); cbn [bind] in H; try discriminate. eauto.
  - destruct (force fl m b); try discriminate. eauto.
Qed.

Lemma eval_get_inv : forall m rho e f v,
  eval fl m rho (Get e f) = Ok v ->
  exists k bs b, m = S k /\ eval fl k rho e = Ok (VRec bs) /\ lookup f bs = Some b /\
                 force fl k b = Ok v.
Proof.
  intros m rho e f v H. destruct m as [|k]; [discriminate|]. cbn [eval] in H.
  destruct (eval fl k rho e) as [ve|err|] eqn:E; cbn [bind] in H; try discriminate.
  destruct ve; try discriminate. destruct (lookup f fs) as [b|] eqn:L; [|discriminate].
  exists k, fs, b. auto.
Qed.

(* laziness: extraction succeeds exactly when the path's own value does — nothing else of the
   configuration is demanded *)
Theorem field_extraction_lazy : forall path n rho e d,
  run fl n rho (gets e path) = Ok d -> exists m, extract fl m rho e path = Ok d.
Proof.
  induction path as [|f p IH]; intros n rho e d H; cbn [gets] in H.
  - exists n. exact H.
  - destruct (IH _ _ _ _ H) as [m Em]. unfold extract in *.
    destruct (extract_b_ok_force _ _ _ _ Em) as [v0 F0].
    unfold force in F0. cbn [force_with] in F0.
    destruct (eval_get_inv _ _ _ _ _ F0) as [k [bs [b' [-> [Ee [Lb Fb]]]]]].
    destruct (extract_b_force_eq p (S k) (BClos (Get e f) rho) b' d) as [m' Em']; [|exact Em|].
    + intros v Fv. unfold force in Fv. cbn [force_with] in Fv.
      exists k. congruence.
    + exists (Nat.max k m'). cbn [extract_b]. unfold force at 1. cbn [force_with].
      rewrite (eval_mono fl k (Nat.max k m') rho e _ Ee) by (try discriminate; lia).
      rewrite Lb. eapply extract_b_mono; eauto; [discriminate|lia].
Qed.

Theorem field_extraction_lazy_conv : forall path m rho e d,
  extract fl m rho e path = Ok d -> exists n, run fl n rho (gets e path) = Ok d.
Proof.
  induction path as [|f p IH]; intros m rho e d H; cbn [gets].
  - exists m. exact H.
  - unfold extract in *. cbn [extract_b] in H. unfold force at 1 in H. cbn [force_with] in H.
    destruct (eval fl m rho e) as [v|err|] eqn:Ee; try discriminate.
    destruct v; try discriminate. destruct (lookup f fs) as [b'|] eqn:Lb; [|discriminate].
    destruct (extract_b_force_eq p m b' (BClos (Get e f) rho) d) as [m' Em']; [|exact H|].
    + intros v Fv. exists (S m). unfold force. cbn [force_with eval]. rewrite Ee. cbn [bind].
      rewrite Lb. exact Fv.
    + apply (IH m' rho (Get e f) d). exact Em'.
Qed.

(* export (e.path) is the path looked up in export e *)
Corollary field_extraction_gets : forall n rho e path d d',
  run fl n rho e = Ok d -> lookup_path path d = Some d' ->
  exists m, run fl m rho (gets e path) = Ok d'.
Proof.
  intros n rho e path d d' H Hl. destruct (field_extraction _ _ _ _ _ _ H Hl) as [m Em].
  eapply field_extraction_lazy_conv; eauto.
Qed.

Lemma lookup_exportable : forall f (fs : list (string * data)) d,
  forallb (fun p => exportable (snd p)) fs = true -> lookup f fs = Some d -> exportable d = true.
Proof.
  induction fs as [|[g d0] fs IH]; cbn; [discriminate|]. intros d H.
  apply andb_prop in H. destruct H as [H1 H2]. destruct (String.eqb f g).
  - now intros [= <-].
  - now apply IH.
Qed.

Lemma lookup_path_exportable : forall path d d',
  exportable d = true -> lookup_path path d = Some d' -> exportable d' = true.
Proof.
  induction path as [|f p IH]; intros d d' He Hl; cbn [lookup_path] in Hl.
  - now injection Hl as <-.
  - destruct d; try discriminate. destruct (lookup f fs) as [d0|] eqn:L; [|discriminate].
    apply (IH d0 d'); [|exact Hl]. cbn [exportable] in He. eapply lookup_exportable; eauto.
Qed.

End FieldPath.

(* a configuration whose full export fails, while the requested field is fine *)
Example lazy_witness :
  let e := Rec [("a", Rec [("b", Num 1); ("c", Bin Add (Num 1) (Str "x"))]); ("d", Fail)] in
  run [] 10 [] e = Err Blame /\
  run [] 10 [] (Get e "a") = Err TypeErr /\
  extract [] 10 [] e ["a"; "b"] = Ok (DNum 1).
Proof. vm_compute. auto. Qed.
