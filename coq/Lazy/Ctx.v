(* C09 — the local rewrites inside arbitrary program contexts.
   [prw t t']: [t'] is obtained from [t] by replacing, at any number of positions (under any
   binders), a sub-term {f = e}.f (f not free in e), std.array.at 0 [e], or import f (file
   content closed) by e. *)
From Coq Require Import List String ZArith Bool Lia.
From NV Require Import Lazy.Syntax Lazy.Spec Lazy.SpecFacts Lazy.Rel Lazy.RelFacts Lazy.Sim Lazy.Laws Lazy.Abs.
Import ListNotations.
Open Scope string_scope.
Open Scope list_scope.

Section Ctx.
Variable fl : files.

Inductive prw : tm -> tm -> Prop :=
| P_refl : forall t, prw t t
| P_fld : forall f e e', ~ In f (fv e) -> prw e e' -> prw (Get (Rec [(f, e)]) f) e'
| P_elm : forall e e', prw e e' -> prw (At (Num 0) (Arr [e])) e'
| P_imp : forall f e, lookup f fl = Some e -> fv e = [] -> prw (Import f) e
| P_lam : forall x b b', prw b b' -> prw (Lam x b) (Lam x b')
| P_app : forall f f' a a', prw f f' -> prw a a' -> prw (App f a) (App f' a')
| P_let : forall x e e' b b', prw e e' -> prw b b' -> prw (Let x e b) (Let x e' b')
| P_letrec : forall x e e' b b', prw e e' -> prw b b' -> prw (LetRec x e b) (LetRec x e' b')
| P_bin : forall o a a' b b', prw a a' -> prw b b' -> prw (Bin o a b) (Bin o a' b')
| P_if : forall c c' t t' e e', prw c c' -> prw t t' -> prw e e' -> prw (If c t e) (If c' t' e')
| P_arr : forall es es', prws es es' -> prw (Arr es) (Arr es')
| P_at : forall i i' a a', prw i i' -> prw a a' -> prw (At i a) (At i' a')
| P_rec : forall fs fs', prwf fs fs' -> prw (Rec fs) (Rec fs')
| P_get : forall e e' f, prw e e' -> prw (Get e f) (Get e' f)
| P_seq : forall a a' b b', prw a a' -> prw b b' -> prw (Seq a b) (Seq a' b')
with prws : list tm -> list tm -> Prop :=
| PS_nil : prws [] []
| PS_cons : forall e e' es es', prw e e' -> prws es es' -> prws (e :: es) (e' :: es')
with prwf : list (string * tm) -> list (string * tm) -> Prop :=
| PF_nil : prwf [] []
| PF_cons : forall f b b' fs fs', prw b b' -> prwf fs fs' -> prwf ((f, b) :: fs) ((f, b') :: fs').

Scheme prw_mind := Minimality for prw Sort Prop
  with prws_mind := Minimality for prws Sort Prop
  with prwf_mind := Minimality for prwf Sort Prop.
Combined Scheme prw_mutind from prw_mind, prws_mind, prwf_mind.

Lemma prwf_names : forall fs fs', prwf fs fs' -> map fst fs = map fst fs'.
Proof. induction 1; cbn; congruence. Qed.

Lemma prw_fv_mut :
  (forall t t', prw t t' -> forall z, In z (fv t) <-> In z (fv t')) /\
  (forall es es', prws es es' -> forall z, In z (flat_map fv es) <-> In z (flat_map fv es')) /\
  (forall fs fs', prwf fs fs' ->
     forall z, In z (flat_map (fun p => fv (snd p)) fs) <-> In z (flat_map (fun p => fv (snd p)) fs')).
Proof.
  apply prw_mutind.
  - tauto.
  - intros f e e' Hf _ IH z. rewrite <- IH. cbn [fv map fst flat_map snd]. rewrite app_nil_r.
    rewrite in_filter_notmem. cbn [In]. split; [tauto|]. intros Hz. split; [assumption|].
    intros [->|[]]. contradiction.
  - intros e e' _ IH z. rewrite <- IH. cbn [fv flat_map app]. rewrite app_nil_r. tauto.
  - intros f e _ He z. rewrite He. cbn. tauto.
  - intros x b b' _ IH z. cbn [fv]. rewrite !in_filter_ne. rewrite IH. tauto.
  - intros f f' a a' _ IH1 _ IH2 z. cbn [fv]. rewrite !in_app_iff. rewrite IH1, IH2. tauto.
  - intros x e e' b b' _ IH1 _ IH2 z. cbn [fv]. rewrite !in_app_iff, !in_filter_ne. rewrite IH1, IH2. tauto.
  - intros x e e' b b' _ IH1 _ IH2 z. cbn [fv]. rewrite !in_filter_ne, !in_app_iff. rewrite IH1, IH2. tauto.
  - intros o a a' b b' _ IH1 _ IH2 z. cbn [fv]. rewrite !in_app_iff. rewrite IH1, IH2. tauto.
  - intros c c' t t' e e' _ IH1 _ IH2 _ IH3 z. cbn [fv]. rewrite !in_app_iff. rewrite IH1, IH2, IH3. tauto.
  - intros es es' _ IH z. cbn [fv]. apply IH.
  - intros i i' a a' _ IH1 _ IH2 z. cbn [fv]. rewrite !in_app_iff. rewrite IH1, IH2. tauto.
  - intros fs fs' H IH z. cbn [fv]. rewrite !in_filter_notmem. rewrite IH.
    rewrite (prwf_names _ _ H). tauto.
  - intros e e' f _ IH z. cbn [fv]. apply IH.
  - intros a a' b b' _ IH1 _ IH2 z. cbn [fv]. rewrite !in_app_iff. rewrite IH1, IH2. tauto.
  - tauto.
  - intros e e' es es' _ IH1 _ IH2 z. cbn [flat_map]. rewrite !in_app_iff. rewrite IH1, IH2. tauto.
  - tauto.
  - intros f b b' fs fs' _ IH1 _ IH2 z. cbn [flat_map snd]. rewrite !in_app_iff. rewrite IH1, IH2. tauto.
Qed.

Lemma prw_crel_mut :
  (forall t t', prw t t' -> forall bs r, crel fl bs t r t' r) /\
  (forall es es', prws es es' -> forall bs r, crels fl bs es r es' r) /\
  (forall fs fs', prwf fs fs' -> forall ns bs r, crelf fl false ns bs fs r fs' r).
Proof.
  apply prw_mutind.
  - intros. apply crel_refl.
  - intros f e e' Hf _ IH bs r. apply C_fldL; auto.
  - intros e e' _ IH bs r. apply C_elmL; auto.
  - intros f e Hl He bs r. eapply C_impL; eauto.
    + rewrite He. intros z [].
    + now apply crel_closed.
  - intros; constructor; auto.
  - intros; constructor; auto.
  - intros; constructor; auto.
  - intros; constructor; auto.
  - intros; constructor; auto.
  - intros; constructor; auto.
  - intros; constructor; auto.
  - intros; constructor; auto.
  - intros; constructor; auto.
  - intros; constructor; auto.
  - intros; constructor; auto.
  - intros; constructor.
  - intros; constructor; auto.
  - intros; constructor.
  - intros f b b' fs fs' Hb IH1 _ IH2 ns bs r.
    assert (Hd : has_deps ns b = has_deps ns b').
    { apply has_deps_iff. intros z _. now apply (proj1 prw_fv_mut). }
    destruct (has_deps ns b) eqn:E.
    + apply CF_dep; auto.
    + apply CF_nodep; auto.
Qed.

(* the local rewrites preserve the result of the whole program, wherever they are applied *)
Theorem ctx_abs : forall t t' rho, prw t t' -> run_equiv fl rho t rho t'.
Proof.
  intros t t' rho H. apply crel_run_equiv. now apply (proj1 prw_crel_mut).
Qed.

(* the three base laws, as stated in the property *)
Corollary field_abs : forall rho f e, ~ In f (fv e) -> run_equiv fl rho (Get (Rec [(f, e)]) f) rho e.
Proof. intros. apply ctx_abs. apply P_fld; [assumption|apply P_refl]. Qed.

Corollary elem_abs : forall rho e, run_equiv fl rho (At (Num 0) (Arr [e])) rho e.
Proof. intros. apply ctx_abs. apply P_elm. apply P_refl. Qed.

Corollary import_abs : forall rho f e, lookup f fl = Some e -> fv e = [] -> run_equiv fl rho (Import f) rho e.
Proof. intros. apply ctx_abs. now apply P_imp. Qed.

End Ctx.
