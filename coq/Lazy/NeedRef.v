(* C09 — refinement: the call-by-need machine (Need.v, mode Good) computes what the
   call-by-name semantics (Spec.v) computes, for every program whose record literals have
   distinct field names — let rec and recursive records included.

   Invariant: every cell of the heap unfolds (through the closures the cells were allocated
   with) to a call-by-name binding, and every Evaluated cell holds a value that unfolds to what
   its original closure evaluates to in the call-by-name semantics.  A cell allocated for a
   plain binding refers to older cells only; the cells of a recursive group ([let rec], or the
   fields of a record literal) refer to each other and unfold to the members of a [BRec]. *)
From Coq Require Import List String ZArith Bool Lia Arith.
From NV Require Import Lazy.Syntax Lazy.Spec Lazy.SpecFacts Lazy.RelFacts Lazy.FieldPath Lazy.Demand Lazy.Need.
Import ListNotations.
Open Scope string_scope.
Open Scope list_scope.

(* ------------------------------------------------------------------ unfolding the heap *)

Definition older (l : loc) (nrho : nenv) : Prop := Forall (fun p => snd p < l) nrho.

(* the cells [base, base + |defs|) hold the members of a recursive group allocated in [nrho]:
   [a = true] for let rec (standard thunks, every member sees the group), [a = false] for a
   record literal (members that mention a sibling are revertible thunks that see the group, the
   others are standard thunks in the outer environment) *)
Definition sees (a : bool) (defs : list (string * tm)) (p : string * tm) : bool :=
  a || has_deps (map fst defs) (snd p).

Definition group (h : heap) (base : nat) (a : bool) (defs : list (string * tm)) (nrho : nenv) : Prop :=
  forall j p, nth_error defs j = Some p ->
    exists c, nth_error h (base + j) = Some c /\ c_tm c = snd p /\
      c_env c = (if sees a defs p then field_locs base defs ++ nrho else nrho) /\
      c_kind c = (if a then Standard else if sees a defs p then Revertible else Standard).

Inductive U (h : heap) : loc -> binding -> Prop :=
| U_cell : forall l c rho,
    nth_error h l = Some c -> c_kind c = Standard -> older l (c_env c) -> UE h (c_env c) rho ->
    U h l (BClos (c_tm c) rho)
| U_grp : forall base a defs nrho rho i p,
    older base nrho -> UE h nrho rho -> group h base a defs nrho ->
    nth_error defs i = Some p -> nodup_names (map fst defs) = true -> sees a defs p = true ->
    U h (base + i) (BRec a defs rho (fst p))
with UE (h : heap) : nenv -> env -> Prop :=
| UE_nil : UE h [] []
| UE_cons : forall x l b nrho rho, U h l b -> UE h nrho rho -> UE h ((x, l) :: nrho) ((x, b) :: rho).

Scheme U_mind := Minimality for U Sort Prop
  with UE_mind := Minimality for UE Sort Prop.
Combined Scheme U_mutind from U_mind, UE_mind.

Inductive VU (h : heap) : nval -> val -> Prop :=
| VU_num : forall z, VU h (NNum z) (VNum z)
| VU_str : forall s, VU h (NStr s) (VStr s)
| VU_bool : forall b, VU h (NBool b) (VBool b)
| VU_clo : forall x b nrho rho, wft b = true -> UE h nrho rho -> VU h (NClo x b nrho) (VClo x b rho)
| VU_arr : forall ls bs, Forall2 (U h) ls bs -> VU h (NArr ls) (VArr bs)
| VU_rec : forall fs bs,
    Forall2 (fun p q => fst p = fst q /\ U h (snd p) (snd q)) fs bs -> VU h (NRec fs) (VRec bs).

(* heap evolution: cells are only added, and a cell keeps the closure it was allocated with *)
Definition hext (h h' : heap) : Prop :=
  forall l c, nth_error h l = Some c ->
    exists c', nth_error h' l = Some c' /\ c_tm c' = c_tm c /\ c_env c' = c_env c /\ c_kind c' = c_kind c.

Lemma hext_refl : forall h, hext h h.
Proof. intros h l c H. eauto. Qed.

Lemma hext_trans : forall h1 h2 h3, hext h1 h2 -> hext h2 h3 -> hext h1 h3.
Proof.
  intros h1 h2 h3 H1 H2 l c Hc. destruct (H1 l c Hc) as [c' [Hc' [E1 [E2 E3]]]].
  destruct (H2 l c' Hc') as [c'' [Hc'' [E4 [E5 E6]]]]. exists c''. repeat split; congruence.
Qed.

Lemma group_mono : forall h h' base a defs nrho, hext h h' -> group h base a defs nrho -> group h' base a defs nrho.
Proof.
  intros h h' base a defs nrho Hx Hg j p Hp. destruct (Hg j p Hp) as [c [Hc [E1 [E2 E3]]]].
  destruct (Hx _ _ Hc) as [c' [Hc' [F1 [F2 F3]]]]. exists c'. repeat split; congruence.
Qed.

Lemma U_mono_mut : forall h h', hext h h' ->
  (forall l b, U h l b -> U h' l b) /\ (forall nrho rho, UE h nrho rho -> UE h' nrho rho).
Proof.
  intros h h' Hx. apply U_mutind.
  - intros l c rho Hc Hk Ho _ IH. destruct (Hx l c Hc) as [c' [Hc' [E1 [E2 E3]]]].
    rewrite <- E1. apply U_cell; congruence.
  - intros base a defs nrho rho i p Ho _ IH Hg Hp Hn Hs. eapply U_grp; eauto using group_mono.
  - constructor.
  - intros. constructor; auto.
Qed.

Lemma U_mono : forall h h' l b, hext h h' -> U h l b -> U h' l b.
Proof. intros h h' l b Hx. apply (proj1 (U_mono_mut h h' Hx)). Qed.
Lemma UE_mono : forall h h' nrho rho, hext h h' -> UE h nrho rho -> UE h' nrho rho.
Proof. intros h h' nrho rho Hx. apply (proj2 (U_mono_mut h h' Hx)). Qed.

Lemma VU_mono : forall h h' nv v, hext h h' -> VU h nv v -> VU h' nv v.
Proof.
  intros h h' nv v Hx H. destruct H; constructor; eauto using UE_mono.
  - induction H; constructor; eauto using U_mono.
  - induction H; constructor; auto. destruct H. split; eauto using U_mono.
Qed.

(* ---- the unfolding of a cell is unique *)

Lemma field_locs_In : forall defs base i (p : string * tm),
  nth_error defs i = Some p -> In (fst p, base + i) (field_locs base defs).
Proof.
  induction defs as [|[f e] defs IH]; intros base [|i] p H; cbn in H; try discriminate; cbn [field_locs].
  - injection H as <-. left. cbn [fst]. now rewrite Nat.add_0_r.
  - right. replace (base + S i) with (S base + i) by lia. now apply IH.
Qed.

Lemma field_locs_ge : forall defs base q, In q (field_locs base defs) -> base <= snd q.
Proof.
  induction defs as [|[f e] defs IH]; intros base q H; cbn [field_locs] in H; [contradiction|].
  destruct H as [<-|H]; [cbn; lia|]. apply IH in H. lia.
Qed.

Lemma split_by_age : forall base (l1 l2 r1 r2 : nenv),
  l1 ++ r1 = l2 ++ r2 ->
  (forall q, In q l1 -> base <= snd q) -> (forall q, In q l2 -> base <= snd q) ->
  older base r1 -> older base r2 -> l1 = l2 /\ r1 = r2.
Proof.
  induction l1 as [|a l1 IH]; intros [|b l2] r1 r2 E H1 H2 O1 O2; cbn in E.
  - auto.
  - subst r1. inversion O1 as [|? ? Hb _]; subst. specialize (H2 b (or_introl eq_refl)). cbn beta in *. exfalso. unfold loc in *. lia.
  - subst r2. inversion O2 as [|? ? Ha _]; subst. specialize (H1 a (or_introl eq_refl)). cbn beta in *. exfalso. unfold loc in *. lia.
  - injection E as -> E. destruct (IH l2 r1 r2 E) as [-> ->]; auto.
    + intros q Hq. apply H1. now right.
    + intros q Hq. apply H2. now right.
Qed.

Lemma field_locs_names : forall d1 d2 base, field_locs base d1 = field_locs base d2 -> map fst d1 = map fst d2.
Proof.
  induction d1 as [|[f e] d1 IH]; intros [|[g e'] d2] base H; cbn in *; try discriminate; auto.
  injection H as -> H. f_equal. eauto.
Qed.

Lemma nth_error_names : forall (d : list (string * tm)) j p, nth_error d j = Some p -> nth_error (map fst d) j = Some (fst p).
Proof. intros. now rewrite nth_error_map, H. Qed.

Lemma list_eq_nth : forall A (l1 l2 : list A),
  List.length l1 = List.length l2 ->
  (forall j a b, nth_error l1 j = Some a -> nth_error l2 j = Some b -> a = b) -> l1 = l2.
Proof.
  induction l1 as [|a l1 IH]; intros [|b l2] Hl H; cbn in Hl; try discriminate; auto.
  f_equal.
  - exact (H 0 a b eq_refl eq_refl).
  - apply IH; [lia|]. intros j x y Hx Hy. exact (H (S j) x y Hx Hy).
Qed.

Lemma U_det_mut : forall h,
  (forall l b, U h l b -> forall b', U h l b' -> b = b') /\
  (forall nrho rho, UE h nrho rho -> forall rho', UE h nrho rho' -> rho = rho').
Proof.
  intros h. apply U_mutind.
  - intros l c rho Hc Hk Ho _ IH b' Hb'.
    inversion Hb' as [l' c' rho' Hc' Hk' Ho' He'|base a defs nrho rho' i p Ho' He' Hg Hp Hn Hs]; subst.
    + assert (c' = c) by congruence. subst c'. f_equal. now apply IH.
    + exfalso. destruct (Hg i p Hp) as [c' [Hc' [E1 [E2 E3]]]].
      assert (c' = c) by congruence. subst c'. rewrite Hs in E2.
      pose proof (field_locs_In defs base i p Hp) as Hin.
      unfold older in Ho. rewrite Forall_forall in Ho.
      assert (Hx : In (fst p, base + i) (c_env c)) by (rewrite E2; apply in_app_iff; now left).
      specialize (Ho _ Hx). cbn in Ho. lia.
  - intros base a defs nrho rho i p Ho _ IH Hg Hp Hn Hs b' Hb'.
    inversion Hb' as [l' c' rho' Hc' Hk' Ho' He'|base' a' defs' nrho' rho' i' p' Ho' He' Hg' Hp' Hn' Hs' Heq]; subst.
    + exfalso. destruct (Hg i p Hp) as [c [Hc [E1 [E2 E3]]]].
      assert (c' = c) by congruence. subst c'. rewrite Hs in E2.
      pose proof (field_locs_In defs base i p Hp) as Hin.
      unfold older in Ho'. rewrite Forall_forall in Ho'.
      assert (Hx : In (fst p, base + i) (c_env c)) by (rewrite E2; apply in_app_iff; now left).
      specialize (Ho' _ Hx). cbn in Ho'. lia.
    + destruct (Hg i p Hp) as [c [Hc [E1 [E2 E3]]]].
      destruct (Hg' i' p' Hp') as [c' [Hc' [E1' [E2' E3']]]].
      rewrite Heq in Hc'. assert (c' = c) by congruence. subst c'.
      rewrite Hs in E2, E3. rewrite Hs' in E2', E3'.
      assert (Hne : defs <> [] /\ defs' <> []).
      { split; intros ->; [destruct i|destruct i']; discriminate. }
      destruct Hne as [Hne Hne'].
      assert (Hb : base' = base).
      { destruct defs as [|[f e] defs]; [congruence|]. destruct defs' as [|[f' e'] defs']; [congruence|].
        rewrite E2 in E2'. cbn [field_locs app] in E2'. injection E2' as _ Hb _. auto. }
      subst base'. assert (i' = i) by lia. subst i'.
      destruct (split_by_age base (field_locs base defs) (field_locs base defs') nrho nrho') as [Hfl Hnr];
        [congruence|apply field_locs_ge|apply field_locs_ge|assumption|assumption|].
      subst nrho'. pose proof (field_locs_names _ _ _ Hfl) as Hnames.
      assert (Hlen : List.length defs = List.length defs').
      { rewrite <- (map_length fst defs), <- (map_length fst defs'). congruence. }
      assert (defs' = defs).
      { symmetry. apply list_eq_nth; [assumption|]. intros j q q' Hq Hq'.
        destruct (Hg j q Hq) as [d [Hd [F1 _]]]. destruct (Hg' j q' Hq') as [d' [Hd' [F1' _]]].
        assert (d' = d) by congruence. subst d'.
        pose proof (nth_error_names _ _ _ Hq) as N1. pose proof (nth_error_names _ _ _ Hq') as N2.
        rewrite Hnames in N1. rewrite N1 in N2. injection N2 as N2.
        destruct q, q'. cbn in *. congruence. }
      subst defs'. assert (p' = p) by congruence. subst p'.
      assert (a' = a).
      { destruct a, a'; auto; cbn in E3, E3'; congruence. }
      subst a'. f_equal. now apply IH.
  - intros rho' H. now inversion H.
  - intros x l b nrho rho _ IH1 _ IH2 rho' H. inversion H; subst. f_equal; [f_equal|]; auto.
Qed.

Lemma U_det : forall h l b b', U h l b -> U h l b' -> b = b'.
Proof. intros h l b b' H. now apply (proj1 (U_det_mut h)). Qed.

Lemma UE_lookup : forall h nrho rho x l, UE h nrho rho -> lookup x nrho = Some l ->
  exists b, lookup x rho = Some b /\ U h l b.
Proof.
  intros h nrho rho x l H. induction H as [|y l' b nrho rho Hb Hr IH]; cbn [lookup]; [discriminate|].
  destruct (String.eqb x y).
  - intros [= ->]. eauto.
  - assumption.
Qed.

Lemma UE_lookup_none : forall h nrho rho x, UE h nrho rho -> lookup x nrho = None -> lookup x rho = None.
Proof.
  intros h nrho rho x H. induction H as [|y l' b nrho rho Hb Hr IH]; cbn [lookup]; [reflexivity|].
  destruct (String.eqb x y); [discriminate|assumption].
Qed.

Lemma U_bound : forall h l b, U h l b -> l < List.length h.
Proof.
  intros h l b H. destruct H as [l c rho Hc _ _ _|base a defs nrho rho i p _ _ Hg Hp _ _].
  - apply nth_error_Some. congruence.
  - destruct (Hg i p Hp) as [c [Hc _]]. apply nth_error_Some. congruence.
Qed.

Lemma UE_older : forall h nrho rho, UE h nrho rho -> older (List.length h) nrho.
Proof.
  intros h nrho rho H. induction H; constructor; auto. cbn. eapply U_bound; eauto.
Qed.

(* ------------------------------------------------------------------ invariants *)

Section Ref.
Variable fl : files.
Hypothesis fl_wf : forallb (fun p => wft (snd p)) fl = true.

Definition WF (h : heap) : Prop :=
  forall l c, nth_error h l = Some c -> wft (c_tm c) = true /\ exists b, U h l b.

Definition IV (h : heap) : Prop :=
  forall l c b, nth_error h l = Some c -> c_state c = Evaluated -> U h l b ->
    exists nv m v, c_val c = Some nv /\ force fl m b = Ok v /\ VU h nv v.

Definition Inv (h : heap) : Prop := WF h /\ IV h.

Lemma WF_U : forall h l c, WF h -> nth_error h l = Some c -> exists b, U h l b.
Proof. intros h l c Hw Hc. now destruct (Hw l c Hc). Qed.

(* ---- allocation *)

Lemma nth_error_app_new : forall A (l : list A) a, nth_error (l ++ [a]) (List.length l) = Some a.
Proof. intros. rewrite nth_error_app2 by lia. now rewrite Nat.sub_diag. Qed.

Lemma hext_app : forall h cs, hext h (h ++ cs).
Proof.
  intros h cs l c Hc. exists c. split; [|auto]. rewrite nth_error_app1; [assumption|].
  apply nth_error_Some. congruence.
Qed.

Lemma Inv_app : forall h cs,
  Inv h ->
  (forall j c, nth_error cs j = Some c -> c_state c = Suspended /\ wft (c_tm c) = true /\
                        exists b, U (h ++ cs) (List.length h + j) b) ->
  Inv (h ++ cs).
Proof.
  intros h cs [Hw Hi] Hcs. split.
  - intros l c Hc. destruct (lt_dec l (List.length h)) as [Hl|Hl].
    + rewrite nth_error_app1 in Hc by assumption. destruct (Hw l c Hc) as [Ha [b Hb]].
      split; [assumption|]. exists b. eapply U_mono; [apply hext_app|eassumption].
    + rewrite nth_error_app2 in Hc by lia.
      destruct (Hcs _ c Hc) as [_ [Ha Hr]]. split; [assumption|].
      replace (List.length h + (l - List.length h)) with l in Hr by lia. assumption.
  - intros l c b Hc Hs Hu. destruct (lt_dec l (List.length h)) as [Hl|Hl].
    + rewrite nth_error_app1 in Hc by assumption.
      destruct (WF_U h l c Hw Hc) as [b0 Hb0].
      assert (b = b0).
      { eapply U_det; [exact Hu|]. eapply U_mono; [apply hext_app|exact Hb0]. }
      subst b0. destruct (Hi l c b Hc Hs Hb0) as [nv [m [v [E1 [E2 E3]]]]].
      exists nv, m, v. repeat split; auto. eapply VU_mono; [apply hext_app|eassumption].
    + rewrite nth_error_app2 in Hc by lia.
      destruct (Hcs _ c Hc) as [Hsu _]. congruence.
Qed.

Lemma alloc_ref : forall h t nrho rho,
  Inv h -> wft t = true -> UE h nrho rho ->
  let h' := h ++ [mkcell t nrho Standard Suspended None] in
  hext h h' /\ Inv h' /\ U h' (List.length h) (BClos t rho).
Proof.
  intros h t nrho rho Hinv Ha Hr h'. subst h'.
  assert (Hu : U (h ++ [mkcell t nrho Standard Suspended None]) (List.length h) (BClos t rho)).
  { apply (U_cell _ _ (mkcell t nrho Standard Suspended None)); cbn; auto.
    - apply nth_error_app_new.
    - eapply UE_older; eauto.
    - eapply UE_mono; [apply hext_app|eassumption]. }
  split; [apply hext_app|]. split; [|assumption].
  apply Inv_app; [assumption|]. intros [|[|j]] c Hc; cbn in Hc; try discriminate.
  injection Hc as <-. cbn. repeat split; auto. rewrite Nat.add_0_r. eauto.
Qed.

(* ---- recursive groups *)

Lemma nodup_lookup : forall (defs : list (string * tm)) i p,
  nodup_names (map fst defs) = true -> nth_error defs i = Some p -> lookup (fst p) defs = Some (snd p).
Proof.
  induction defs as [|[f e] defs IH]; intros [|i] p Hn Hp; cbn in Hp; try discriminate.
  - injection Hp as <-. cbn. now rewrite String.eqb_refl.
  - cbn [map fst nodup_names] in Hn. apply andb_prop in Hn. destruct Hn as [Hn1 Hn2].
    cbn [lookup]. destruct (String.eqb (fst p) f) eqn:E.
    + apply String.eqb_eq in E. subst f. apply negb_true_iff in Hn1. apply mem_false_In in Hn1.
      exfalso. apply Hn1. apply in_map_iff. exists p. split; [reflexivity|]. eapply nth_error_In; eauto.
    + eauto.
Qed.

Lemma older_weaken : forall l l' nrho, older l nrho -> l <= l' -> older l' nrho.
Proof.
  intros l l' nrho H Hle. unfold older in *. rewrite Forall_forall in *. intros p Hp.
  specialize (H p Hp). unfold loc in *. lia.
Qed.

Lemma group_member_U : forall h base a defs nrho rho j p,
  older base nrho -> UE h nrho rho -> group h base a defs nrho ->
  nodup_names (map fst defs) = true -> nth_error defs j = Some p ->
  U h (base + j) (snd (member_binding a defs rho p)).
Proof.
  intros h base a defs nrho rho j p Ho Hr Hg Hn Hp. unfold member_binding. cbn [snd].
  fold (sees a defs p). destruct (sees a defs p) eqn:Hs.
  - eapply U_grp; eauto.
  - destruct (Hg j p Hp) as [c [Hc [E1 [E2 E3]]]]. rewrite Hs in E2, E3.
    assert (a = false) by (unfold sees in Hs; destruct a; [discriminate|reflexivity]). subst a.
    rewrite <- E1. apply U_cell; [assumption|assumption| |congruence].
    rewrite E2. eapply older_weaken; eauto. lia.
Qed.

Lemma group_members : forall h base a defs nrho rho,
  older base nrho -> UE h nrho rho -> group h base a defs nrho ->
  nodup_names (map fst defs) = true ->
  Forall2 (fun p q => fst p = fst q /\ U h (snd p) (snd q))
    (field_locs base defs) (map (member_binding a defs rho) defs).
Proof.
  intros h base a defs nrho rho Ho Hr Hg Hn.
  assert (G : forall l k, (forall j p, nth_error l j = Some p -> nth_error defs (k + j) = Some p) ->
            Forall2 (fun p q => fst p = fst q /\ U h (snd p) (snd q))
              (field_locs (base + k) l) (map (member_binding a defs rho) l)).
  { induction l as [|[f e] l IH]; intros k Hl; cbn [field_locs map]; constructor.
    - cbn [fst snd]. split; [reflexivity|].
      apply (group_member_U h base a defs nrho rho k (f, e)); auto.
      specialize (Hl 0 (f, e) eq_refl). now rewrite Nat.add_0_r in Hl.
    - replace (S (base + k)) with (base + S k) by lia. apply IH. intros j p Hp.
      replace (S k + j) with (k + S j) by lia. now apply Hl. }
  specialize (G defs 0). rewrite Nat.add_0_r in G. apply G. intros j p Hp. exact Hp.
Qed.

Lemma UE_app : forall h l1 m1 n r,
  Forall2 (fun p q => fst p = fst q /\ U h (snd p) (snd q)) l1 m1 -> UE h n r -> UE h (l1 ++ n) (m1 ++ r).
Proof.
  intros h l1 m1 n r H Hr. induction H as [|[x l] [y b] l1 m1 [E Hu] Hl IH]; cbn [app]; [assumption|].
  cbn [fst snd] in *. subst y. constructor; assumption.
Qed.

Lemma group_UE : forall h base a defs nrho rho,
  older base nrho -> UE h nrho rho -> group h base a defs nrho ->
  nodup_names (map fst defs) = true ->
  UE h (field_locs base defs ++ nrho) (recenv a defs rho).
Proof.
  intros. unfold recenv. apply UE_app; [eapply group_members; eauto|assumption].
Qed.

(* what forcing the binding of a cell means in terms of the closure stored in the cell *)
Lemma cell_open : forall h l b c,
  U h l b -> nth_error h l = Some c ->
  exists rho', UE h (c_env c) rho' /\ (forall m, force fl m b = eval fl m rho' (c_tm c)).
Proof.
  intros h l b c Hu Hc.
  destruct Hu as [l c' rho Hc' Hk Ho Hr|base a defs nrho rho i p Ho Hr Hg Hp Hn Hs].
  - assert (c' = c) by congruence. subst c'. exists rho. split; [assumption|reflexivity].
  - destruct (Hg i p Hp) as [c' [Hc' [E1 [E2 E3]]]]. assert (c' = c) by congruence. subst c'.
    rewrite Hs in E2. exists (recenv a defs rho). split.
    + rewrite E2. now apply group_UE.
    + intros m. unfold force. cbn [force_with]. rewrite (nodup_lookup _ _ _ Hn Hp). now rewrite E1.
Qed.

(* ---- state changes and updates do not change the unfolding *)

Lemma nth_error_set_nth_eq : forall A (l : list A) i a, i < List.length l ->
  nth_error (set_nth l i a) i = Some a.
Proof.
  induction l as [|x l IH]; intros [|i] a Hi; cbn in *; try lia; auto. apply IH. lia.
Qed.

Lemma nth_error_set_nth_ne : forall A (l : list A) i j a, i <> j ->
  nth_error (set_nth l i a) j = nth_error l j.
Proof.
  induction l as [|x l IH]; intros [|i] [|j] a Hne; cbn in *; try congruence; auto.
Qed.

Definition same_orig (h h' : heap) : Prop := hext h h' /\ hext h' h.

Lemma set_cell_same : forall h l c c',
  nth_error h l = Some c -> c_tm c' = c_tm c -> c_env c' = c_env c -> c_kind c' = c_kind c ->
  same_orig h (set_nth h l c').
Proof.
  intros h l c c' Hc E1 E2 E3.
  assert (Hl : l < List.length h) by (apply nth_error_Some; congruence).
  split; intros j d Hd; destruct (Nat.eq_dec l j) as [->|Hne].
  - rewrite nth_error_set_nth_eq by assumption. exists c'. assert (d = c) by congruence. subst d. auto.
  - rewrite nth_error_set_nth_ne by assumption. eauto.
  - rewrite nth_error_set_nth_eq in Hd by assumption. injection Hd as <-. exists c. auto.
  - rewrite nth_error_set_nth_ne in Hd by assumption. eauto.
Qed.

Lemma U_same : forall h h' l b, same_orig h h' -> (U h l b <-> U h' l b).
Proof. intros h h' l b [H1 H2]. split; apply U_mono; assumption. Qed.

Lemma VU_same : forall h h' nv v, same_orig h h' -> (VU h nv v <-> VU h' nv v).
Proof. intros h h' nv v [H1 H2]. split; apply VU_mono; assumption. Qed.

Lemma WF_same : forall h h', same_orig h h' -> WF h -> WF h'.
Proof.
  intros h h' Hso Hw l c' Hc'. destruct Hso as [H1 H2]. destruct (H2 l c' Hc') as [c [Hc [E1 [E2 E3]]]].
  destruct (Hw l c Hc) as [Ha [b Hb]]. split; [congruence|]. exists b. eapply U_mono; eauto.
Qed.

Lemma Inv_blackhole : forall h l c,
  Inv h -> nth_error h l = Some c -> c_state c = Suspended ->
  Inv (set_state h l Blackholed) /\ same_orig h (set_state h l Blackholed).
Proof.
  intros h l c [Hw Hi] Hc Hs. unfold set_state. rewrite Hc.
  pose proof (set_cell_same h l c (mkcell (c_tm c) (c_env c) (c_kind c) Blackholed (c_val c)) Hc
                eq_refl eq_refl eq_refl) as Hso.
  split; [|assumption]. split; [eapply WF_same; eauto|].
  assert (Hl : l < List.length h) by (apply nth_error_Some; congruence).
  intros j d b Hd Hsd Hu. destruct (Nat.eq_dec l j) as [->|Hne].
  - rewrite nth_error_set_nth_eq in Hd by assumption. injection Hd as <-. discriminate.
  - rewrite nth_error_set_nth_ne in Hd by assumption.
    apply (U_same _ _ _ _ Hso) in Hu. destruct (Hi j d b Hd Hsd Hu) as [nv [m [v [E1 [E2 E3]]]]].
    exists nv, m, v. repeat split; auto. now apply (VU_same _ _ _ _ Hso).
Qed.

Lemma Inv_update : forall h l c b nv m v,
  Inv h -> nth_error h l = Some c -> U h l b -> force fl m b = Ok v -> VU h nv v ->
  Inv (update h l nv) /\ same_orig h (update h l nv).
Proof.
  intros h l c b nv m v [Hw Hi] Hc Hu Hf Hv. unfold update. rewrite Hc.
  pose proof (set_cell_same h l c (mkcell (c_tm c) (c_env c) (c_kind c) Evaluated (Some nv)) Hc
                eq_refl eq_refl eq_refl) as Hso.
  split; [|assumption]. split; [eapply WF_same; eauto|].
  assert (Hl : l < List.length h) by (apply nth_error_Some; congruence).
  intros j d b' Hd Hsd Hu'. apply (U_same _ _ _ _ Hso) in Hu'. destruct (Nat.eq_dec l j) as [->|Hne].
  - rewrite nth_error_set_nth_eq in Hd by assumption. injection Hd as <-.
    assert (b' = b) by (eapply U_det; eauto). subst b'.
    exists nv, m, v. repeat split; auto. now apply (VU_same _ _ _ _ Hso).
  - rewrite nth_error_set_nth_ne in Hd by assumption.
    destruct (Hi j d b' Hd Hsd Hu') as [nv' [m' [v' [E1 [E2 E3]]]]].
    exists nv', m', v'. repeat split; auto. now apply (VU_same _ _ _ _ Hso).
Qed.

Lemma Forall2_rev' : forall A B (R : A -> B -> Prop) l1 l2,
  Forall2 R l1 l2 -> Forall2 R (rev l1) (rev l2).
Proof.
  induction 1; cbn; [constructor|]. apply Forall2_app; [assumption|]. constructor; [assumption|constructor].
Qed.

(* ------------------------------------------------------------------ the refinement *)

Notation diverges := (diverges fl).
Notation Dem := (Dem fl).
Notation SDem := (SDem fl).

(* cells that are black-holed in [h'] were already black-holed in [h] *)
Definition bh_sub (h h' : heap) : Prop :=
  forall l c', nth_error h' l = Some c' -> c_state c' = Blackholed ->
    exists c, nth_error h l = Some c /\ c_state c = Blackholed.

(* every black-holed cell is one of the pending evaluations [P] *)
Definition BH (h : heap) (P : list binding) : Prop :=
  forall l c, nth_error h l = Some c -> c_state c = Blackholed -> exists b, U h l b /\ In b P.

Definition err_ok (b : binding) (e : err) : Prop :=
  (e = InfiniteRec /\ diverges b) \/ (e <> InfiniteRec /\ exists m, force fl m b = Err e).

Definition res_ok (h h' : heap) (b : binding) (r : outcome nval) : Prop :=
  hext h h' /\
  match r with
  | Ok nv => Inv h' /\ bh_sub h h' /\ exists m v, force fl m b = Ok v /\ VU h' nv v
  | Err e => err_ok b e
  | OutOfFuel => False
  end.

Lemma bh_sub_refl : forall h, bh_sub h h.
Proof. intros h l c Hc Hs. eauto. Qed.

Lemma bh_sub_trans : forall h1 h2 h3, bh_sub h1 h2 -> bh_sub h2 h3 -> bh_sub h1 h3.
Proof.
  intros h1 h2 h3 H1 H2 l c Hc Hs. destruct (H2 l c Hc Hs) as [c2 [Hc2 Hs2]]. eauto.
Qed.

Lemma bh_sub_app : forall h cs, (forall c, In c cs -> c_state c = Suspended) -> bh_sub h (h ++ cs).
Proof.
  intros h cs Hcs l c Hc Hs. destruct (lt_dec l (List.length h)) as [Hl|Hl].
  - rewrite nth_error_app1 in Hc by assumption. eauto.
  - rewrite nth_error_app2 in Hc by lia. apply nth_error_In in Hc. rewrite (Hcs c Hc) in Hs. discriminate.
Qed.

Lemma BH_sub : forall h h' P, BH h P -> hext h h' -> bh_sub h h' -> BH h' P.
Proof.
  intros h h' P Hb Hx Hs l c' Hc' Hst. destruct (Hs l c' Hc' Hst) as [c [Hc Hsc]].
  destruct (Hb l c Hc Hsc) as [b [Hu Hin]]. exists b. split; [eapply U_mono; eauto|assumption].
Qed.

Lemma err_ok_shift : forall b b' e,
  Dem b' b -> (forall m, force fl m b = Err e -> exists m', force fl m' b' = Err e) ->
  err_ok b e -> err_ok b' e.
Proof.
  intros b b' e Hd Hs [[-> Hdiv]|[Hne [m Hm]]].
  - left. split; [reflexivity|]. eapply Dem_diverges; eauto.
  - right. split; [assumption|]. destruct (Hs m Hm) as [m' Hm']. eauto.
Qed.

Lemma res_ok_shift : forall h h' b b' r,
  (forall m o, force fl m b = o -> o <> OutOfFuel -> exists m', force fl m' b' = o) ->
  Dem b' b -> res_ok h h' b r -> res_ok h h' b' r.
Proof.
  intros h h' b b' r Hs Hd [Hx Hr]. split; [assumption|]. destruct r as [nv|c|]; [| |assumption].
  - destruct Hr as [Hi [Hb [m [v [E V]]]]]. split; [assumption|]. split; [assumption|].
    destruct (Hs m _ E ltac:(discriminate)) as [m' E']. eauto.
  - eapply err_ok_shift; eauto. intros m Hm. exact (Hs m _ Hm ltac:(discriminate)).
Qed.

Lemma res_err_shift : forall h h' b b' e,
  Dem b' b -> (forall m, force fl m b = Err e -> exists m', force fl m' b' = Err e) ->
  res_ok h h' b (Err e) -> res_ok h h' b' (Err e).
Proof. intros h h' b b' e Hd Hs [Hx Hr]. split; [assumption|]. eapply err_ok_shift; eauto. Qed.

Lemma res_ok_hext : forall h0 h h' b r,
  hext h0 h -> bh_sub h0 h -> res_ok h h' b r -> res_ok h0 h' b r.
Proof.
  intros h0 h h' b r Hx Hb [Hx' Hr]. split; [eapply hext_trans; eauto|].
  destruct r as [nv|c|]; auto. destruct Hr as [Hi [Hb' R]]. split; [assumption|].
  split; [eapply bh_sub_trans; eauto|assumption].
Qed.

Definition refines_at (n : nat) : Prop :=
  forall h nrho t r h' rho P,
    evalN fl Good n h nrho t = (r, h') -> r <> OutOfFuel ->
    wft t = true -> Inv h -> UE h nrho rho -> hext (init_heap fl) h ->
    BH h P -> (forall p, In p P -> Dem p (BClos t rho)) ->
    res_ok h h' (BClos t rho) r.

Lemma enter_ref : forall n, refines_at n ->
  forall h l r h' b P,
    enter_with Good (evalN fl Good n) h l = (r, h') -> r <> OutOfFuel ->
    Inv h -> U h l b -> hext (init_heap fl) h ->
    BH h P -> (forall p, In p P -> SDem p b) ->
    res_ok h h' b r.
Proof.
  intros n IH h l r h' b P He Ho Hinv Hu Hf Hbh Hdem. unfold enter_with in He.
  pose proof (U_bound _ _ _ Hu) as Hl.
  destruct (nth_error h l) as [c|] eqn:Hc; [|apply nth_error_None in Hc; lia].
  destruct (cell_open h l b c Hu Hc) as [rhoc [Hr Hforce]].
  destruct (proj1 Hinv l c Hc) as [Ha _].
  assert (D1 : Dem b (BClos (c_tm c) rhoc)).
  { intros m Hm. exists m. split; [lia|]. rewrite force_clos, <- Hforce. exact Hm. }
  assert (D2 : Dem (BClos (c_tm c) rhoc) b).
  { intros m Hm. exists m. split; [lia|]. rewrite Hforce. exact Hm. }
  assert (SH : forall h0 h1 r0, res_ok h0 h1 (BClos (c_tm c) rhoc) r0 -> res_ok h0 h1 b r0).
  { intros h0 h1 r0. apply res_ok_shift; [|exact D1]. intros m o Hm _. exists m. rewrite Hforce. exact Hm. }
  assert (Hdem' : forall p, In p P -> Dem p (BClos (c_tm c) rhoc)).
  { intros p Hp. eapply Dem_trans; [apply SDem_Dem; now apply Hdem|exact D1]. }
  assert (Hll : l < List.length h) by exact Hl.
  destruct (c_state c) eqn:Hs.
  - (* Suspended *)
    destruct (is_whnf (c_tm c)).
    + destruct (evalN fl Good n h (c_env c) (c_tm c)) as [[nv|e|] h1] eqn:E.
      * injection He as <- <-.
        destruct (SH _ _ _ (IH _ _ _ _ _ _ P E ltac:(discriminate) Ha Hinv Hr Hf Hbh Hdem'))
          as [Hx [Hinv1 [Hb1 [m [v [Ev Vv]]]]]].
        destruct (Hx l c Hc) as [c1 [Hc1 _]].
        destruct (Inv_update h1 l c1 _ nv m v Hinv1 Hc1 (U_mono _ _ _ _ Hx Hu) Ev Vv) as [Hinv2 Hso].
        split; [eapply hext_trans; [exact Hx|apply Hso]|]. split; [assumption|]. split.
        -- intros j d Hd Hsd. unfold update in Hd. rewrite Hc1 in Hd.
           assert (Hl1 : l < List.length h1) by (apply nth_error_Some; congruence).
           destruct (Nat.eq_dec l j) as [->|Hne].
           ++ rewrite nth_error_set_nth_eq in Hd by assumption. injection Hd as <-. discriminate.
           ++ rewrite nth_error_set_nth_ne in Hd by assumption. exact (Hb1 j d Hd Hsd).
        -- exists m, v. split; [assumption|]. now apply (VU_same _ _ _ _ Hso).
      * injection He as <- <-.
        exact (SH _ _ _ (IH _ _ _ _ _ _ P E ltac:(discriminate) Ha Hinv Hr Hf Hbh Hdem')).
      * injection He as <- <-. congruence.
    + destruct (Inv_blackhole h l c Hinv Hc Hs) as [Hinv0 Hso0].
      assert (Hbh0 : BH (set_state h l Blackholed) (b :: P)).
      { intros j d Hd Hsd. unfold set_state in Hd. rewrite Hc in Hd.
        destruct (Nat.eq_dec l j) as [->|Hne].
        - exists b. split; [now apply (U_same _ _ _ _ Hso0)|now left].
        - rewrite nth_error_set_nth_ne in Hd by assumption.
          destruct (Hbh j d Hd Hsd) as [b' [Hu' Hin']]. exists b'.
          split; [now apply (U_same _ _ _ _ Hso0)|now right]. }
      assert (Hdem0 : forall p, In p (b :: P) -> Dem p (BClos (c_tm c) rhoc)).
      { intros p [<-|Hp]; [exact D1|now apply Hdem']. }
      destruct (evalN fl Good n (set_state h l Blackholed) (c_env c) (c_tm c)) as [[nv|e|] h1] eqn:E.
      * injection He as <- <-. cbn [upd_target].
        destruct (SH _ _ _ (IH _ _ _ _ _ _ (b :: P) E ltac:(discriminate) Ha Hinv0
                    (UE_mono _ _ _ _ (proj1 Hso0) Hr) (hext_trans _ _ _ Hf (proj1 Hso0)) Hbh0 Hdem0))
          as [Hx [Hinv1 [Hb1 [m [v [Ev Vv]]]]]].
        pose proof (hext_trans _ _ _ (proj1 Hso0) Hx) as Hx'.
        destruct (Hx' l c Hc) as [c1 [Hc1 _]].
        destruct (Inv_update h1 l c1 _ nv m v Hinv1 Hc1 (U_mono _ _ _ _ Hx' Hu) Ev Vv) as [Hinv2 Hso].
        split; [eapply hext_trans; [exact Hx'|apply Hso]|]. split; [assumption|]. split.
        -- intros j d Hd Hsd. unfold update in Hd. rewrite Hc1 in Hd.
           assert (Hl1 : l < List.length h1) by (apply nth_error_Some; congruence).
           destruct (Nat.eq_dec l j) as [->|Hne].
           ++ rewrite nth_error_set_nth_eq in Hd by assumption. injection Hd as <-. discriminate.
           ++ rewrite nth_error_set_nth_ne in Hd by assumption.
              destruct (Hb1 j d Hd Hsd) as [d0 [Hd0 Hs0]]. unfold set_state in Hd0. rewrite Hc in Hd0.
              rewrite nth_error_set_nth_ne in Hd0 by assumption. eauto.
        -- exists m, v. split; [assumption|]. now apply (VU_same _ _ _ _ Hso).
      * injection He as <- <-.
        destruct (SH _ _ _ (IH _ _ _ _ _ _ (b :: P) E ltac:(discriminate) Ha Hinv0
                 (UE_mono _ _ _ _ (proj1 Hso0) Hr) (hext_trans _ _ _ Hf (proj1 Hso0)) Hbh0 Hdem0)) as [Hx R].
        split; [eapply hext_trans; [apply Hso0|exact Hx]|exact R].
      * injection He as <- <-. congruence.
  - (* Blackholed: the evaluation of [b] needs [b] *)
    injection He as <- <-. split; [apply hext_refl|]. left. split; [reflexivity|].
    destruct (Hbh l c Hc Hs) as [b' [Hu' Hin']]. assert (b' = b) by (eapply U_det; eauto). subst b'.
    apply SDem_self. now apply Hdem.
  - (* Evaluated *)
    destruct Hinv as [Hw Hiv].
    destruct (Hiv l c _ Hc Hs Hu) as [nv [m [v [E1 [E2 E3]]]]]. rewrite E1 in He.
    injection He as <- <-. split; [apply hext_refl|]. split; [split; assumption|].
    split; [apply bh_sub_refl|]. eauto.
Qed.

(* ---- spec-side bookkeeping *)

Ltac spec_step M :=
  repeat match goal with
  | H : eval fl ?m ?r ?t = ?o |- context [eval fl M ?r ?t] =>
      rewrite (eval_mono fl m M r t o H) by (try discriminate; lia); cbn [bind]
  end.

Lemma VU_binop : forall h o na nb va vb,
  VU h na va -> VU h nb vb ->
  match nbinop_sem o na nb with
  | Ok nv => exists v, binop_sem o va vb = Ok v /\ VU h nv v
  | Err c => binop_sem o va vb = Err c
  | OutOfFuel => False
  end.
Proof.
  intros h o na nb va vb Ha Hb.
  destruct Ha, Hb, o; cbn; try reflexivity; eexists; split; try reflexivity; constructor.
Qed.

Lemma VU_at : forall h ni na vi va,
  VU h ni vi -> VU h na va ->
  match nat_sem ni na with
  | Ok l => exists b, at_sem vi va = Ok b /\ U h l b
  | Err c => at_sem vi va = Err c
  | OutOfFuel => False
  end.
Proof.
  intros h ni na vi va Hi Ha. destruct Hi, Ha; cbn; try reflexivity.
  destruct (Z.ltb z 0); [reflexivity|].
  revert H. generalize (Z.to_nat z). intros k H. revert k.
  induction H; intros [|k]; cbn; eauto. apply IHForall2.
Qed.

Lemma VU_rec_lookup : forall h (fs : list (string * loc)) (bs : list (string * binding)) f,
  Forall2 (fun p q => fst p = fst q /\ U h (snd p) (snd q)) fs bs ->
  match lookup f fs with
  | Some l => exists b, lookup f bs = Some b /\ U h l b
  | None => lookup f bs = None
  end.
Proof.
  intros h fs bs f H. induction H as [|[g l] [g' b] fs bs [Hg Hu] Hl IH]; cbn [lookup]; [reflexivity|].
  cbn [fst snd] in *. subst g'. destruct (String.eqb f g); [eauto|assumption].
Qed.

Lemma alloc_list_ref : forall es h nrho rho h1 ls,
  alloc_list h nrho es = (h1, ls) -> Inv h -> forallb wft es = true -> UE h nrho rho ->
  hext h h1 /\ Inv h1 /\ bh_sub h h1 /\ Forall2 (U h1) ls (map (fun e => BClos e rho) es).
Proof.
  induction es as [|e es IH]; intros h nrho rho h1 ls Hal Hinv Hac Hr; cbn [alloc_list] in Hal.
  - injection Hal as <- <-. split; [apply hext_refl|]. split; [assumption|]. split; [apply bh_sub_refl|constructor].
  - cbn [forallb] in Hac. apply andb_prop in Hac. destruct Hac as [Ha1 Ha2].
    unfold alloc in Hal.
    destruct (alloc_ref h e nrho rho Hinv Ha1 Hr) as [Hx0 [Hinv0 Hu0]].
    destruct (alloc_list (h ++ [mkcell e nrho Standard Suspended None]) nrho es) as [h2 ls2] eqn:E.
    injection Hal as <- <-.
    destruct (IH _ _ rho _ _ E Hinv0 Ha2 (UE_mono _ _ _ _ Hx0 Hr)) as [Hx1 [Hinv1 [Hb1 Hf]]].
    split; [eapply hext_trans; eauto|]. split; [assumption|]. split.
    { eapply bh_sub_trans; [|exact Hb1]. apply bh_sub_app. intros c [<-|[]]. reflexivity. }
    cbn [map]. constructor; [eapply U_mono; eauto|assumption].
Qed.

Lemma alloc_rec_ref : forall h x e nrho rho,
  Inv h -> wft e = true -> UE h nrho rho ->
  let l := List.length h in
  let h' := h ++ [mkcell e ((x, l) :: nrho) Standard Suspended None] in
  hext h h' /\ Inv h' /\ UE h' ((x, l) :: nrho) ((x, BRec true [(x, e)] rho x) :: rho).
Proof.
  intros h x e nrho rho Hinv Ha Hr l h'. subst l h'.
  set (h' := h ++ [mkcell e ((x, List.length h) :: nrho) Standard Suspended None]).
  assert (Hx : hext h h') by apply hext_app.
  assert (Hg : group h' (List.length h) true [(x, e)] nrho).
  { intros [|[|j]] p Hp; cbn in Hp; try discriminate. injection Hp as <-.
    exists (mkcell e ((x, List.length h) :: nrho) Standard Suspended None). cbn.
    rewrite Nat.add_0_r. split; [apply nth_error_app_new|auto]. }
  assert (Hu : U h' (List.length h) (BRec true [(x, e)] rho x)).
  { replace (List.length h) with (List.length h + 0) at 1 by lia.
    apply (U_grp h' (List.length h) true [(x, e)] nrho rho 0 (x, e)); auto.
    - eapply UE_older; eauto.
    - eapply UE_mono; eauto. }
  split; [assumption|]. split.
  - apply Inv_app; [assumption|]. intros [|[|j]] c Hc; cbn in Hc; try discriminate.
    injection Hc as <-. cbn. repeat split; auto. rewrite Nat.add_0_r. eauto.
  - constructor; [assumption|]. eapply UE_mono; eauto.
Qed.

Lemma alloc_fields_ref : forall fs h nrho rho h1 ls,
  alloc_fields h nrho fs = (h1, ls) -> Inv h ->
  nodup_names (map fst fs) = true -> forallb (fun p => wft (snd p)) fs = true ->
  UE h nrho rho ->
  hext h h1 /\ Inv h1 /\ bh_sub h h1 /\
  Forall2 (fun p q => fst p = fst q /\ U h1 (snd p) (snd q)) ls (map (field_binding fs rho) fs).
Proof.
  intros fs h nrho rho h1 ls Hal Hinv Hn Hw Hr. unfold alloc_fields in Hal. injection Hal as <- <-.
  set (base := List.length h).
  set (mk := fun p : string * tm =>
               if has_deps (map fst fs) (snd p)
               then mkcell (snd p) (field_locs base fs ++ nrho) Revertible Suspended None
               else mkcell (snd p) nrho Standard Suspended None).
  set (h1 := h ++ map mk fs).
  assert (Hx : hext h h1) by apply hext_app.
  assert (Hg : group h1 base false fs nrho).
  { intros j p Hp. exists (mk p). unfold h1, base. rewrite nth_error_app2 by lia.
    replace (List.length h + j - List.length h) with j by lia.
    rewrite nth_error_map, Hp. split; [reflexivity|]. unfold mk, sees. cbn [orb].
    destruct (has_deps (map fst fs) (snd p)); cbn; auto. }
  assert (Ho : older base nrho) by (eapply UE_older; eauto).
  assert (Hr1 : UE h1 nrho rho) by (eapply UE_mono; eauto).
  split; [assumption|]. split.
  - apply Inv_app; [assumption|]. intros j c Hc. rewrite nth_error_map in Hc.
    destruct (nth_error fs j) as [p|] eqn:Hp; [|discriminate]. injection Hc as <-.
    rewrite forallb_forall in Hw. pose proof (Hw p (nth_error_In _ _ Hp)) as Hwp.
    split; [unfold mk; destruct (has_deps (map fst fs) (snd p)); reflexivity|].
    split; [unfold mk; destruct (has_deps (map fst fs) (snd p)); exact Hwp|].
    eexists. apply (group_member_U h1 base false fs nrho rho j p); eauto.
  - split.
    + apply bh_sub_app. intros c Hc. apply in_map_iff in Hc. destruct Hc as [p [<- _]].
      unfold mk. destruct (has_deps (map fst fs) (snd p)); reflexivity.
    + unfold field_binding. apply (group_members h1 base false fs nrho rho); auto.
Qed.

Lemma index_of_spec : forall f (l : files) i,
  index_of f l = Some i ->
  exists e, lookup f l = Some e /\ nth_error (init_heap l) i = Some (mkcell e [] Standard Suspended None).
Proof.
  induction l as [|[g e] l IH]; intros i H; cbn [index_of] in H; [discriminate|].
  cbn [lookup init_heap map]. destruct (String.eqb f g).
  - injection H as <-. exists e. auto.
  - destruct (index_of f l) as [j|] eqn:E; [|discriminate]. injection H as <-.
    destruct (IH j eq_refl) as [e' [L N]]. exists e'. auto.
Qed.

Lemma index_of_none : forall f (l : files), index_of f l = None -> lookup f l = None.
Proof.
  induction l as [|[g e] l IH]; intros H; cbn [index_of] in H; [reflexivity|].
  cbn [lookup]. destruct (String.eqb f g); [discriminate|].
  destruct (index_of f l); [discriminate|]. auto.
Qed.

Lemma lookup_wft : forall f e, lookup f fl = Some e -> wft e = true.
Proof.
  intros f e H. apply lookup_In in H. rewrite forallb_forall in fl_wf.
  exact (fl_wf (f, e) H).
Qed.

Lemma nbinop_err : forall o a b c, nbinop_sem o a b = Err c -> c = TypeErr.
Proof. intros o a b c H. destruct o, a, b; cbn in H; congruence. Qed.

Lemma nat_sem_err : forall vi va c, nat_sem vi va = Err c -> c = Blame.
Proof.
  intros vi va c H. destruct vi, va; cbn in H; try congruence.
  destruct (Z.ltb n 0); [congruence|]. destruct (nth_error es (Z.to_nat n)); congruence.
Qed.

(* spec steps used when an error of a sub-evaluation is propagated *)
Ltac err_step m1 Ev1 := exists (S m1); rewrite force_clos in *; cbn [eval]; rewrite Ev1; reflexivity.

Theorem evalN_refines : forall n, refines_at n.
Proof.
  induction n as [|k IH]; intros h nrho t r h' rho P He Ho Hac Hinv Hr Hf Hbh Hdem.
  - cbn in He. injection He as <- <-. congruence.
  - pose proof (enter_ref k IH) as ENT.
    destruct t; cbn [evalN wft] in He, Hac;
      repeat match goal with
      | H : _ && _ = true |- _ => apply andb_prop in H; destruct H
      end.
    + (* Var *)
      destruct (lookup x nrho) as [l|] eqn:L.
      * destruct (UE_lookup _ _ _ _ _ Hr L) as [b [Lb Ub]].
        pose proof (D_var fl rho x b Lb) as DV.
        eapply res_ok_shift; [| |exact (ENT _ _ _ _ _ P He Ho Hinv Ub Hf Hbh
                                          (fun p Hp => Dem_SDem fl _ _ _ (Hdem p Hp) DV))].
        -- intros m o Hm _. exists (S m). rewrite force_clos. cbn [eval]. rewrite Lb. exact Hm.
        -- now apply SDem_Dem.
      * injection He as <- <-. split; [apply hext_refl|]. right. split; [discriminate|].
        exists 1. rewrite force_clos. cbn. now rewrite (UE_lookup_none _ _ _ _ Hr L).
    + (* Lam *)
      injection He as <- <-. split; [apply hext_refl|]. split; [assumption|]. split; [apply bh_sub_refl|].
      exists 1, (VClo x t rho). split; [reflexivity|]. now constructor.
    + (* App *)
      destruct (evalN fl Good k h nrho t1) as [[vf|e|] h1] eqn:E1.
      * destruct (IH _ _ _ _ _ _ P E1 ltac:(discriminate) H Hinv Hr Hf Hbh
                    (fun p Hp => Dem_trans fl _ _ _ (Hdem p Hp) (D_app1 fl rho t1 t2)))
          as [Hx1 [Hinv1 [Hb1 [m1 [v1 [Ev1 Vv1]]]]]]. rewrite force_clos in Ev1.
        destruct Vv1 as [z|s|b0|x b0 nrho' rho' Hab Hr'|ls bs Hl|fs bs Hl];
          try (injection He as <- <-; split; [assumption|]; right; split; [discriminate|];
               exists (S m1); rewrite force_clos; cbn [eval]; rewrite Ev1; reflexivity).
        unfold alloc in He.
        destruct (alloc_ref h1 t2 nrho rho Hinv1 H0 (UE_mono _ _ _ _ Hx1 Hr)) as [Hx2 [Hinv2 Hu2]].
        set (h2 := h1 ++ [mkcell t2 nrho Standard Suspended None]) in *.
        assert (Hb2 : bh_sub h1 h2) by (apply bh_sub_app; intros c [<-|[]]; reflexivity).
        assert (Hr2 : UE h2 ((x, List.length h1) :: nrho') ((x, BClos t2 rho) :: rho')).
        { constructor; [assumption|]. eapply UE_mono; eauto. }
        pose proof (D_app2 fl rho t1 t2 m1 x b0 rho' Ev1) as DA.
        pose proof (IH _ _ _ _ _ _ P He Ho Hab Hinv2 Hr2
                      (hext_trans _ _ _ Hf (hext_trans _ _ _ Hx1 Hx2))
                      (BH_sub _ _ _ (BH_sub _ _ _ Hbh Hx1 Hb1) Hx2 Hb2)
                      (fun p Hp => Dem_trans fl _ _ _ (Hdem p Hp) DA)) as R.
        eapply res_ok_hext; [eapply hext_trans; [exact Hx1|exact Hx2]|eapply bh_sub_trans; eauto|].
        eapply res_ok_shift; [|exact DA|exact R].
        intros m o Hm Hne. rewrite force_clos in Hm. exists (S (Nat.max m1 m)). rewrite force_clos.
        cbn [eval]. spec_step (Nat.max m1 m). eapply eval_mono; eauto. lia.
      * injection He as <- <-.
        eapply res_err_shift; [apply D_app1| |exact (IH _ _ _ _ _ _ P E1 ltac:(discriminate) H Hinv Hr Hf Hbh
                    (fun p Hp => Dem_trans fl _ _ _ (Hdem p Hp) (D_app1 fl rho t1 t2)))].
        intros m1 Ev1. err_step m1 Ev1.
      * injection He as <- <-. congruence.
    + (* Let *)
      unfold alloc in He.
      destruct (alloc_ref h t1 nrho rho Hinv H Hr) as [Hx2 [Hinv2 Hu2]].
      set (h2 := h ++ [mkcell t1 nrho Standard Suspended None]) in *.
      assert (Hb2 : bh_sub h h2) by (apply bh_sub_app; intros c [<-|[]]; reflexivity).
      assert (Hr2 : UE h2 ((x, List.length h) :: nrho) ((x, BClos t1 rho) :: rho)).
      { constructor; [assumption|]. eapply UE_mono; eauto. }
      pose proof (IH _ _ _ _ _ _ P He Ho H0 Hinv2 Hr2 (hext_trans _ _ _ Hf Hx2) (BH_sub _ _ _ Hbh Hx2 Hb2)
                    (fun p Hp => Dem_trans fl _ _ _ (Hdem p Hp) (D_let fl rho x t1 t2))) as R.
      eapply res_ok_hext; [exact Hx2|exact Hb2|]. eapply res_ok_shift; [|apply D_let|exact R].
      intros m o Hm Hne. exists (S m). exact Hm.
    + (* LetRec *)
      destruct (alloc_rec_ref h x t1 nrho rho Hinv H Hr) as [Hx2 [Hinv2 Hr2]].
      set (h2 := h ++ [mkcell t1 ((x, List.length h) :: nrho) Standard Suspended None]) in *.
      assert (Hb2 : bh_sub h h2) by (apply bh_sub_app; intros c [<-|[]]; reflexivity).
      pose proof (IH _ _ _ _ _ _ P He Ho H0 Hinv2 Hr2 (hext_trans _ _ _ Hf Hx2) (BH_sub _ _ _ Hbh Hx2 Hb2)
                    (fun p Hp => Dem_trans fl _ _ _ (Hdem p Hp) (D_letrec fl rho x t1 t2))) as R.
      eapply res_ok_hext; [exact Hx2|exact Hb2|]. eapply res_ok_shift; [|apply D_letrec|exact R].
      intros m o Hm Hne. exists (S m). exact Hm.
    + (* Num *) injection He as <- <-. split; [apply hext_refl|]. split; [assumption|]. split; [apply bh_sub_refl|].
      exists 1, (VNum n). split; [reflexivity|constructor].
    + (* Str *) injection He as <- <-. split; [apply hext_refl|]. split; [assumption|]. split; [apply bh_sub_refl|].
      exists 1, (VStr s). split; [reflexivity|constructor].
    + (* Bool *) injection He as <- <-. split; [apply hext_refl|]. split; [assumption|]. split; [apply bh_sub_refl|].
      exists 1, (VBool b). split; [reflexivity|constructor].
    + (* Bin *)
      destruct (evalN fl Good k h nrho t1) as [[va|e|] h1] eqn:E1.
      * destruct (IH _ _ _ _ _ _ P E1 ltac:(discriminate) H Hinv Hr Hf Hbh
                    (fun p Hp => Dem_trans fl _ _ _ (Hdem p Hp) (D_bin1 fl rho o t1 t2)))
          as [Hx1 [Hinv1 [Hb1 [m1 [v1 [Ev1 Vv1]]]]]]. rewrite force_clos in Ev1.
        pose proof (D_bin2 fl rho o t1 t2 m1 v1 Ev1) as DB.
        destruct (evalN fl Good k h1 nrho t2) as [[vb|e|] h2] eqn:E2.
        -- destruct (IH _ _ _ _ _ _ P E2 ltac:(discriminate) H0 Hinv1
                       (UE_mono _ _ _ _ Hx1 Hr) (hext_trans _ _ _ Hf Hx1) (BH_sub _ _ _ Hbh Hx1 Hb1)
                       (fun p Hp => Dem_trans fl _ _ _ (Hdem p Hp) DB))
             as [Hx2 [Hinv2 [Hb2 [m2 [v2 [Ev2 Vv2]]]]]]. rewrite force_clos in Ev2.
           injection He as <- <-. split; [eapply hext_trans; eauto|].
           pose proof (VU_binop h2 o va vb v1 v2 (VU_mono _ _ _ _ Hx2 Vv1) Vv2) as Hb.
           destruct (nbinop_sem o va vb) as [nv|c|] eqn:Enb; [| |contradiction].
           ++ destruct Hb as [v [Eb Vb]]. split; [assumption|]. split; [eapply bh_sub_trans; eauto|].
              exists (S (Nat.max m1 m2)), v.
              split; [|assumption]. rewrite force_clos. cbn [eval]. spec_step (Nat.max m1 m2). exact Eb.
           ++ right. split; [rewrite (nbinop_err _ _ _ _ Enb); discriminate|].
              exists (S (Nat.max m1 m2)). rewrite force_clos. cbn [eval]. spec_step (Nat.max m1 m2). exact Hb.
        -- injection He as <- <-.
           eapply res_ok_hext; [exact Hx1|exact Hb1|].
           eapply res_err_shift; [exact DB| |exact (IH _ _ _ _ _ _ P E2 ltac:(discriminate) H0 Hinv1
                       (UE_mono _ _ _ _ Hx1 Hr) (hext_trans _ _ _ Hf Hx1) (BH_sub _ _ _ Hbh Hx1 Hb1)
                       (fun p Hp => Dem_trans fl _ _ _ (Hdem p Hp) DB))].
           intros m2 Ev2. rewrite force_clos in Ev2.
           exists (S (Nat.max m1 m2)). rewrite force_clos. cbn [eval]. spec_step (Nat.max m1 m2). reflexivity.
        -- injection He as <- <-. congruence.
      * injection He as <- <-.
        eapply res_err_shift; [apply D_bin1| |exact (IH _ _ _ _ _ _ P E1 ltac:(discriminate) H Hinv Hr Hf Hbh
                    (fun p Hp => Dem_trans fl _ _ _ (Hdem p Hp) (D_bin1 fl rho o t1 t2)))].
        intros m1 Ev1. err_step m1 Ev1.
      * injection He as <- <-. congruence.
    + (* If *)
      destruct (evalN fl Good k h nrho t1) as [[vc|e|] h1] eqn:E1.
      * destruct (IH _ _ _ _ _ _ P E1 ltac:(discriminate) H Hinv Hr Hf Hbh
                    (fun p Hp => Dem_trans fl _ _ _ (Hdem p Hp) (D_if1 fl rho t1 t2 t3)))
          as [Hx1 [Hinv1 [Hb1 [m1 [v1 [Ev1 Vv1]]]]]]. rewrite force_clos in Ev1.
        destruct Vv1 as [z|s|b0|x b0 nrho' rho' Hab Hr'|ls bs Hl|fs bs Hl];
          try (injection He as <- <-; split; [assumption|]; right; split; [discriminate|];
               exists (S m1); rewrite force_clos; cbn [eval]; rewrite Ev1; reflexivity).
        pose proof (D_if2 fl rho t1 t2 t3 m1 b0 Ev1) as DI.
        destruct b0.
        -- pose proof (IH _ _ _ _ _ _ P He Ho H1 Hinv1 (UE_mono _ _ _ _ Hx1 Hr) (hext_trans _ _ _ Hf Hx1)
                         (BH_sub _ _ _ Hbh Hx1 Hb1) (fun p Hp => Dem_trans fl _ _ _ (Hdem p Hp) DI)) as R.
           eapply res_ok_hext; [exact Hx1|exact Hb1|]. eapply res_ok_shift; [|exact DI|exact R].
           intros m o Hm Hne. rewrite force_clos in Hm. exists (S (Nat.max m1 m)). rewrite force_clos.
           cbn [eval]. spec_step (Nat.max m1 m). eapply eval_mono; eauto. lia.
        -- pose proof (IH _ _ _ _ _ _ P He Ho H0 Hinv1 (UE_mono _ _ _ _ Hx1 Hr) (hext_trans _ _ _ Hf Hx1)
                         (BH_sub _ _ _ Hbh Hx1 Hb1) (fun p Hp => Dem_trans fl _ _ _ (Hdem p Hp) DI)) as R.
           eapply res_ok_hext; [exact Hx1|exact Hb1|]. eapply res_ok_shift; [|exact DI|exact R].
           intros m o Hm Hne. rewrite force_clos in Hm. exists (S (Nat.max m1 m)). rewrite force_clos.
           cbn [eval]. spec_step (Nat.max m1 m). eapply eval_mono; eauto. lia.
      * injection He as <- <-.
        eapply res_err_shift; [apply D_if1| |exact (IH _ _ _ _ _ _ P E1 ltac:(discriminate) H Hinv Hr Hf Hbh
                    (fun p Hp => Dem_trans fl _ _ _ (Hdem p Hp) (D_if1 fl rho t1 t2 t3)))].
        intros m1 Ev1. err_step m1 Ev1.
      * injection He as <- <-. congruence.
    + (* Arr *)
      destruct (alloc_list h nrho es) as [h1 ls] eqn:E. injection He as <- <-.
      destruct (alloc_list_ref _ _ _ rho _ _ E Hinv Hac Hr) as [Hx1 [Hinv1 [Hb1 Hl]]].
      split; [assumption|]. split; [assumption|]. split; [assumption|].
      exists 1, (VArr (map (fun e => BClos e rho) es)). split; [reflexivity|]. now constructor.
    + (* At *)
      destruct (evalN fl Good k h nrho t1) as [[vi|e|] h1] eqn:E1.
      * destruct (IH _ _ _ _ _ _ P E1 ltac:(discriminate) H Hinv Hr Hf Hbh
                    (fun p Hp => Dem_trans fl _ _ _ (Hdem p Hp) (D_at1 fl rho t1 t2)))
          as [Hx1 [Hinv1 [Hb1 [m1 [v1 [Ev1 Vv1]]]]]]. rewrite force_clos in Ev1.
        pose proof (D_at2 fl rho t1 t2 m1 v1 Ev1) as DA2.
        destruct (evalN fl Good k h1 nrho t2) as [[va|e|] h2] eqn:E2.
        -- destruct (IH _ _ _ _ _ _ P E2 ltac:(discriminate) H0 Hinv1
                       (UE_mono _ _ _ _ Hx1 Hr) (hext_trans _ _ _ Hf Hx1) (BH_sub _ _ _ Hbh Hx1 Hb1)
                       (fun p Hp => Dem_trans fl _ _ _ (Hdem p Hp) DA2))
             as [Hx2 [Hinv2 [Hb2 [m2 [v2 [Ev2 Vv2]]]]]]. rewrite force_clos in Ev2.
           pose proof (VU_at h2 vi va v1 v2 (VU_mono _ _ _ _ Hx2 Vv1) Vv2) as Hb.
           destruct (nat_sem vi va) as [l|c|] eqn:Ens; [| |contradiction].
           ++ destruct Hb as [b [Eb Ub]].
              pose proof (D_at3 fl rho t1 t2 m1 v1 m2 v2 b Ev1 Ev2 Eb) as DA3.
              pose proof (ENT _ _ _ _ _ P He Ho Hinv2 Ub
                            (hext_trans _ _ _ Hf (hext_trans _ _ _ Hx1 Hx2))
                            (BH_sub _ _ _ (BH_sub _ _ _ Hbh Hx1 Hb1) Hx2 Hb2)
                            (fun p Hp => Dem_SDem fl _ _ _ (Hdem p Hp) DA3)) as R.
              eapply res_ok_hext; [eapply hext_trans; [exact Hx1|exact Hx2]|eapply bh_sub_trans; eauto|].
              eapply res_ok_shift; [|apply SDem_Dem; exact DA3|exact R].
              intros m o Hm Hne. exists (S (Nat.max (Nat.max m1 m2) m)). rewrite force_clos.
              cbn [eval]. spec_step (Nat.max (Nat.max m1 m2) m). rewrite Eb. cbn [bind].
              change (force fl (Nat.max (Nat.max m1 m2) m) b = o). eapply force_mono; eauto. lia.
           ++ injection He as <- <-. split; [eapply hext_trans; eauto|].
              right. split; [rewrite (nat_sem_err _ _ _ Ens); discriminate|].
              exists (S (Nat.max m1 m2)). rewrite force_clos. cbn [eval]. spec_step (Nat.max m1 m2).
              rewrite Hb. reflexivity.
        -- injection He as <- <-.
           eapply res_ok_hext; [exact Hx1|exact Hb1|].
           eapply res_err_shift; [exact DA2| |exact (IH _ _ _ _ _ _ P E2 ltac:(discriminate) H0 Hinv1
                       (UE_mono _ _ _ _ Hx1 Hr) (hext_trans _ _ _ Hf Hx1) (BH_sub _ _ _ Hbh Hx1 Hb1)
                       (fun p Hp => Dem_trans fl _ _ _ (Hdem p Hp) DA2))].
           intros m2 Ev2. rewrite force_clos in Ev2.
           exists (S (Nat.max m1 m2)). rewrite force_clos. cbn [eval]. spec_step (Nat.max m1 m2). reflexivity.
        -- injection He as <- <-. congruence.
      * injection He as <- <-.
        eapply res_err_shift; [apply D_at1| |exact (IH _ _ _ _ _ _ P E1 ltac:(discriminate) H Hinv Hr Hf Hbh
                    (fun p Hp => Dem_trans fl _ _ _ (Hdem p Hp) (D_at1 fl rho t1 t2)))].
        intros m1 Ev1. err_step m1 Ev1.
      * injection He as <- <-. congruence.
    + (* Rec *)
      destruct (alloc_fields h nrho fs) as [h1 ls] eqn:E. injection He as <- <-.
      destruct (alloc_fields_ref _ _ _ rho _ _ E Hinv H H0 Hr) as [Hx1 [Hinv1 [Hb1 Hl]]].
      split; [assumption|]. split; [assumption|]. split; [assumption|].
      exists 1, (VRec (map (field_binding fs rho) fs)). split; [reflexivity|]. now constructor.
    + (* Get *)
      destruct (evalN fl Good k h nrho t) as [[ve|e|] h1] eqn:E1.
      * destruct (IH _ _ _ _ _ _ P E1 ltac:(discriminate) Hac Hinv Hr Hf Hbh
                    (fun p Hp => Dem_trans fl _ _ _ (Hdem p Hp) (D_get1 fl rho t f)))
          as [Hx1 [Hinv1 [Hb1 [m1 [v1 [Ev1 Vv1]]]]]]. rewrite force_clos in Ev1.
        destruct Vv1 as [z|s|b0|x b0 nrho' rho' Hab Hr'|ls bs Hl|fs bs Hl];
          try (injection He as <- <-; split; [assumption|]; right; split; [discriminate|];
               exists (S m1); rewrite force_clos; cbn [eval]; rewrite Ev1; reflexivity).
        pose proof (VU_rec_lookup h1 fs bs f Hl) as Hlk.
        destruct (lookup f fs) as [l|] eqn:L.
        -- destruct Hlk as [b [Lb Ub]].
           pose proof (D_get2 fl rho t f m1 bs b Ev1 Lb) as DG.
           pose proof (ENT _ _ _ _ _ P He Ho Hinv1 Ub (hext_trans _ _ _ Hf Hx1) (BH_sub _ _ _ Hbh Hx1 Hb1)
                         (fun p Hp => Dem_SDem fl _ _ _ (Hdem p Hp) DG)) as R.
           eapply res_ok_hext; [exact Hx1|exact Hb1|]. eapply res_ok_shift; [|apply SDem_Dem; exact DG|exact R].
           intros m o Hm Hne. exists (S (Nat.max m1 m)). rewrite force_clos.
           cbn [eval]. spec_step (Nat.max m1 m). rewrite Lb.
           change (force fl (Nat.max m1 m) b = o). eapply force_mono; eauto. lia.
        -- injection He as <- <-. split; [assumption|]. right. split; [discriminate|].
           exists (S m1). rewrite force_clos.
           cbn [eval]. rewrite Ev1. cbn [bind]. now rewrite Hlk.
      * injection He as <- <-.
        eapply res_err_shift; [apply D_get1| |exact (IH _ _ _ _ _ _ P E1 ltac:(discriminate) Hac Hinv Hr Hf Hbh
                    (fun p Hp => Dem_trans fl _ _ _ (Hdem p Hp) (D_get1 fl rho t f)))].
        intros m1 Ev1. err_step m1 Ev1.
      * injection He as <- <-. congruence.
    + (* Seq *)
      destruct (evalN fl Good k h nrho t1) as [[va|e|] h1] eqn:E1.
      * destruct (IH _ _ _ _ _ _ P E1 ltac:(discriminate) H Hinv Hr Hf Hbh
                    (fun p Hp => Dem_trans fl _ _ _ (Hdem p Hp) (D_seq1 fl rho t1 t2)))
          as [Hx1 [Hinv1 [Hb1 [m1 [v1 [Ev1 Vv1]]]]]]. rewrite force_clos in Ev1.
        pose proof (D_seq2 fl rho t1 t2 m1 v1 Ev1) as DS.
        pose proof (IH _ _ _ _ _ _ P He Ho H0 Hinv1 (UE_mono _ _ _ _ Hx1 Hr) (hext_trans _ _ _ Hf Hx1)
                      (BH_sub _ _ _ Hbh Hx1 Hb1) (fun p Hp => Dem_trans fl _ _ _ (Hdem p Hp) DS)) as R.
        eapply res_ok_hext; [exact Hx1|exact Hb1|]. eapply res_ok_shift; [|exact DS|exact R].
        intros m o Hm Hne. rewrite force_clos in Hm. exists (S (Nat.max m1 m)). rewrite force_clos.
        cbn [eval]. spec_step (Nat.max m1 m). eapply eval_mono; eauto. lia.
      * injection He as <- <-.
        eapply res_err_shift; [apply D_seq1| |exact (IH _ _ _ _ _ _ P E1 ltac:(discriminate) H Hinv Hr Hf Hbh
                    (fun p Hp => Dem_trans fl _ _ _ (Hdem p Hp) (D_seq1 fl rho t1 t2)))].
        intros m1 Ev1. err_step m1 Ev1.
      * injection He as <- <-. congruence.
    + (* Fail *) injection He as <- <-. split; [apply hext_refl|]. right. split; [discriminate|]. exists 1. reflexivity.
    + (* Import *)
      destruct (index_of f fl) as [i|] eqn:E.
      * destruct (index_of_spec _ _ _ E) as [e [L N]].
        destruct (Hf _ _ N) as [c [Hc [E1 E2]]]. cbn in E1, E2.
        assert (Ub : U h i (BClos e [])).
        { destruct E2 as [E2 E3]. rewrite <- E1. apply U_cell; [assumption|exact E3|rewrite E2; constructor|rewrite E2; constructor]. }
        pose proof (D_import fl rho f e L) as DI.
        eapply res_ok_shift; [|apply SDem_Dem; exact DI|exact (ENT _ _ _ _ _ P He Ho Hinv Ub Hf Hbh
                                          (fun p Hp => Dem_SDem fl _ _ _ (Hdem p Hp) DI))].
        intros m o Hm _. exists (S m). rewrite force_clos. cbn [eval]. rewrite L. exact Hm.
      * injection He as <- <-. split; [apply hext_refl|]. right. split; [discriminate|].
        exists 1. rewrite force_clos. cbn.
        now rewrite (index_of_none _ _ E).
Qed.

(* ------------------------------------------------------------------ export on the machine *)

Lemma err_ne_cast : forall A B (e c : err), @Err A e <> Err c -> @Err B e <> Err c.
Proof. intros A B e c H X. apply H. injection X as ->. reflexivity. Qed.

Definition dres_ok {C} (h h' : heap) (g : nat -> outcome C) (r : outcome C) : Prop :=
  hext h h' /\
  match r with
  | Ok c => Inv h' /\ bh_sub h h' /\ exists m, g m = Ok c
  | Err e => (e = InfiniteRec /\ forall m, g m = OutOfFuel) \/ (e <> InfiniteRec /\ exists m, g m = Err e)
  | OutOfFuel => False
  end.

Lemma agree_of_mono : forall C (g : nat -> outcome C),
  (forall m m' o, g m = o -> o <> OutOfFuel -> m <= m' -> g m' = o) ->
  forall m1 m c, g m1 = Ok c -> g m <> OutOfFuel -> g m = Ok c.
Proof.
  intros C g Hg m1 m c H1 H.
  assert (A : g (Nat.max m1 m) = Ok c) by (eapply Hg; eauto; [discriminate|lia]).
  assert (B : g (Nat.max m1 m) = g m) by (eapply Hg; eauto; lia).
  congruence.
Qed.

Lemma seqN_ref : forall A B C (R : heap -> A -> B -> Prop)
    (f : heap -> A -> outcome C * heap) (g : nat -> B -> outcome C),
  (forall h h' a b, hext h h' -> R h a b -> R h' a b) ->
  (forall b m m' o, g m b = o -> o <> OutOfFuel -> m <= m' -> g m' b = o) ->
  (forall a b h r h', f h a = (r, h') -> r <> OutOfFuel ->
      Inv h -> R h a b -> hext (init_heap fl) h -> BH h [] -> dres_ok h h' (fun m => g m b) r) ->
  forall l bs h r h',
    Forall2 (R h) l bs ->
    seqN f h l = (r, h') -> r <> OutOfFuel -> Inv h ->
    hext (init_heap fl) h -> BH h [] ->
    dres_ok h h' (fun m => seq_list (g m) bs) r.
Proof.
  intros A B C R f g HR Hg Hf l. induction l as [|a l IH]; intros bs h r h' Hl Hs Ho Hinv Hfl Hbh.
  - inversion Hl; subst. cbn in Hs. injection Hs as <- <-. split; [apply hext_refl|].
    split; [assumption|]. split; [apply bh_sub_refl|]. exists 0. reflexivity.
  - inversion Hl as [|a0 b l0 bs' Hab Hl']; subst. cbn [seqN] in Hs.
    destruct (f h a) as [[c|e|] h1] eqn:E1.
    + destruct (Hf _ _ _ _ _ E1 ltac:(discriminate) Hinv Hab Hfl Hbh)
        as [Hx1 [Hinv1 [Hb1 [m1 G1]]]].
      assert (Hl1 : Forall2 (R h1) l bs').
      { clear - Hl' HR Hx1. induction Hl'; constructor; eauto. }
      pose proof (BH_sub _ _ _ Hbh Hx1 Hb1) as Hbh1.
      destruct (seqN f h1 l) as [[cs|e|] h2] eqn:E2.
      * destruct (IH _ _ _ _ Hl1 E2 ltac:(discriminate) Hinv1 (hext_trans _ _ _ Hfl Hx1) Hbh1)
          as [Hx2 [Hinv2 [Hb2 [m2 G2]]]].
        injection Hs as <- <-. split; [eapply hext_trans; eauto|]. split; [assumption|].
        split; [eapply bh_sub_trans; eauto|].
        exists (Nat.max m1 m2). cbn [seq_list].
        rewrite (Hg b m1 (Nat.max m1 m2) _ G1) by (try discriminate; lia). cbn [bind].
        rewrite (seq_list_mono _ _ (g m2) (g (Nat.max m1 m2)) bs' (Ok cs)); [reflexivity| |exact G2|discriminate].
        intros b0 r0 _ Hb Hr0. eapply Hg; eauto. lia.
      * injection Hs as <- <-.
        destruct (IH _ _ _ _ Hl1 E2 ltac:(discriminate) Hinv1 (hext_trans _ _ _ Hfl Hx1) Hbh1)
          as [Hx2 R2].
        split; [eapply hext_trans; eauto|].
        destruct R2 as [[-> Hdiv]|[Hne [m2 G2]]].
        -- left. split; [reflexivity|]. intros m. cbn [seq_list].
           destruct (g m b) as [c'|e'|] eqn:Gm; [| |reflexivity].
           ++ cbn [bind]. rewrite Hdiv. reflexivity.
           ++ exfalso. pose proof (agree_of_mono _ (fun m => g m b) (Hg b) m1 m c G1) as X.
              cbn beta in X. rewrite Gm in X. specialize (X ltac:(discriminate)). discriminate.
        -- right. split; [assumption|].
           exists (Nat.max m1 m2). cbn [seq_list].
           rewrite (Hg b m1 (Nat.max m1 m2) _ G1) by (try discriminate; lia). cbn [bind].
           rewrite (seq_list_mono _ _ (g m2) (g (Nat.max m1 m2)) bs' (Err e)); [reflexivity| |exact G2|discriminate].
           intros b0 r0 _ Hb Hr0. eapply Hg; eauto. lia.
      * injection Hs as <- <-. congruence.
    + injection Hs as <- <-.
      destruct (Hf _ _ _ _ _ E1 ltac:(discriminate) Hinv Hab Hfl Hbh) as [Hx1 R1].
      split; [assumption|]. destruct R1 as [[-> Hdiv]|[Hne [m1 G1]]].
      * left. split; [reflexivity|]. intros m. cbn [seq_list]. now rewrite Hdiv.
      * right. split; [assumption|]. exists m1. cbn [seq_list]. now rewrite G1.
    + injection Hs as <- <-. congruence.
Qed.

Definition exports_at (n : nat) : Prop :=
  forall h nv v r h',
    exportN fl Good n h nv = (r, h') -> r <> OutOfFuel ->
    Inv h -> VU h nv v -> hext (init_heap fl) h -> BH h [] ->
    dres_ok h h' (fun m => export fl m v) r.

Lemma force_agree : forall m1 m b v,
  force fl m1 b = Ok v -> force fl m b <> OutOfFuel -> force fl m b = Ok v.
Proof.
  intros m1 m b v H1 H.
  assert (A : force fl (Nat.max m1 m) b = Ok v) by (eapply force_mono; eauto; [discriminate|lia]).
  assert (B : force fl (Nat.max m1 m) b = force fl m b) by (eapply force_mono; eauto; lia).
  congruence.
Qed.

Lemma elem_ref : forall k, exports_at k ->
  forall l b h r h',
    match enter fl Good k h l with
    | (Ok v, h1) => exportN fl Good k h1 v
    | (Err e, h1) => (Err e, h1)
    | (OutOfFuel, h1) => (OutOfFuel, h1)
    end = (r, h') ->
    r <> OutOfFuel -> Inv h -> U h l b -> hext (init_heap fl) h -> BH h [] ->
    dres_ok h h' (fun m => export_b fl m b) r.
Proof.
  intros k IH l b h r h' He Ho Hinv Hu Hfl Hbh. unfold enter in He.
  destruct (enter_with Good (evalN fl Good k) h l) as [[nv|e|] h1] eqn:E1.
  - destruct (enter_ref k (evalN_refines k) _ _ _ _ _ [] E1 ltac:(discriminate) Hinv Hu Hfl Hbh
                (fun p (Hp : In p []) => match Hp with end))
      as [Hx1 [Hinv1 [Hb1 [m1 [v [F1 V1]]]]]].
    destruct (IH _ _ _ _ _ He Ho Hinv1 V1 (hext_trans _ _ _ Hfl Hx1) (BH_sub _ _ _ Hbh Hx1 Hb1)) as [Hx2 R2].
    split; [eapply hext_trans; eauto|]. destruct r as [d|e|]; [| |assumption].
    + destruct R2 as [Hinv2 [Hb2 [m2 X2]]]. split; [assumption|]. split; [eapply bh_sub_trans; eauto|].
      exists (Nat.max m1 m2). unfold export_b.
      rewrite (force_mono fl m1 (Nat.max m1 m2) b _ F1) by (try discriminate; lia). cbn [bind].
      apply (export_mono fl m2 (Nat.max m1 m2) v _ X2); [discriminate|lia].
    + destruct R2 as [[-> Hdiv]|[Hne [m2 X2]]].
      * left. split; [reflexivity|]. intros m. unfold export_b.
        destruct (force fl m b) as [v'|e'|] eqn:Fm; [| |reflexivity].
        -- rewrite (force_agree m1 m b v F1) in Fm by congruence. injection Fm as <-. cbn [bind]. apply Hdiv.
        -- rewrite (force_agree m1 m b v F1) in Fm by congruence. discriminate.
      * right. split; [assumption|]. exists (Nat.max m1 m2). unfold export_b.
        rewrite (force_mono fl m1 (Nat.max m1 m2) b _ F1) by (try discriminate; lia). cbn [bind].
        apply (export_mono fl m2 (Nat.max m1 m2) v _ X2); [discriminate|lia].
  - injection He as <- <-.
    destruct (enter_ref k (evalN_refines k) _ _ _ _ _ [] E1 ltac:(discriminate) Hinv Hu Hfl Hbh
                (fun p (Hp : In p []) => match Hp with end)) as [Hx1 R1].
    split; [assumption|]. destruct R1 as [[-> Hdiv]|[Hne [m1 F1]]].
    + left. split; [reflexivity|]. intros m. unfold export_b. now rewrite Hdiv.
    + right. split; [assumption|]. exists m1. unfold export_b. now rewrite F1.
  - injection He as <- <-. congruence.
Qed.

Lemma export_div_S : forall v (K : val -> nat -> outcome data),
  (forall m, K v m = OutOfFuel) -> forall m, match m with O => OutOfFuel | S k => K v k end = @OutOfFuel data.
Proof. intros v K H [|k]; auto. Qed.

Theorem exportN_refines : forall n, exports_at n.
Proof.
  induction n as [|k IH]; intros h nv v r h' He Ho Hinv Hv Hfl Hbh.
  - cbn in He. injection He as <- <-. congruence.
  - destruct Hv as [z|s|b0|x b0 nrho rho Hab Hr|ls bs Hl|fs bs Hl]; cbn [exportN] in He.
    + injection He as <- <-. split; [apply hext_refl|]. split; [assumption|]. split; [apply bh_sub_refl|]. exists 1. reflexivity.
    + injection He as <- <-. split; [apply hext_refl|]. split; [assumption|]. split; [apply bh_sub_refl|]. exists 1. reflexivity.
    + injection He as <- <-. split; [apply hext_refl|]. split; [assumption|]. split; [apply bh_sub_refl|]. exists 1. reflexivity.
    + injection He as <- <-. split; [apply hext_refl|]. split; [assumption|]. split; [apply bh_sub_refl|]. exists 1. reflexivity.
    + (* arrays *)
      match type of He with match seqN ?f _ _ with _ => _ end = _ => set (F := f) in * end.
      assert (X : forall r0 h0, seqN F h (rev ls) = (r0, h0) -> r0 <> OutOfFuel ->
                    dres_ok h h0 (fun m => seq_list (fun b => export_b fl m b) (rev bs)) r0).
      { intros r0 h0 E Hne.
        exact (seqN_ref _ _ _ U F (fun m b => export_b fl m b) (fun h h' a b Hx => U_mono h h' a b Hx)
                 (fun b m m' o => export_b_mono fl m m' b o)
                 (fun a b h r h' => elem_ref k IH a b h r h')
                 _ _ _ _ _ (Forall2_rev' _ _ _ _ _ Hl) E Hne Hinv Hfl Hbh). }
      destruct (seqN F h (rev ls)) as [[ds|e|] h1] eqn:E.
      * injection He as <- <-. destruct (X _ _ eq_refl ltac:(discriminate)) as [Hx1 [Hinv1 [Hb1 [m G]]]].
        split; [assumption|]. split; [assumption|]. split; [assumption|]. exists (S m). cbn [export].
        unfold export_b in G. rewrite G. reflexivity.
      * injection He as <- <-. destruct (X _ _ eq_refl ltac:(discriminate)) as [Hx1 R1].
        split; [assumption|]. destruct R1 as [[-> Hdiv]|[Hne [m G]]].
        -- left. split; [reflexivity|]. intros [|m]; [reflexivity|]. cbn [export].
           unfold export_b in Hdiv. now rewrite Hdiv.
        -- right. split; [assumption|]. exists (S m). cbn [export]. unfold export_b in G. rewrite G. reflexivity.
      * injection He as <- <-. congruence.
    + (* records *)
      match type of He with match seqN ?f _ _ with _ => _ end = _ => set (F := f) in * end.
      set (R := fun (h : heap) (p : string * loc) (q : string * binding) => fst p = fst q /\ U h (snd p) (snd q)).
      set (G := fun m (q : string * binding) =>
                  bind (bind (force fl m (snd q)) (export fl m)) (fun d => Ok (fst q, d))).
      assert (HR : forall h h' a b, hext h h' -> R h a b -> R h' a b).
      { intros h0 h0' a b Hx [H1 H2]. split; [assumption|]. eapply U_mono; eauto. }
      assert (HG : forall b m m' o, G m b = o -> o <> OutOfFuel -> m <= m' -> G m' b = o).
      { intros b m m' o Hg Hne Hle. unfold G in *. fold (export_b fl m (snd b)) in Hg.
        fold (export_b fl m' (snd b)).
        destruct (export_b fl m (snd b)) as [d|e|] eqn:X; cbn [bind] in Hg; [| |congruence].
        - rewrite (export_b_mono fl m m' _ _ X) by (try discriminate; lia). exact Hg.
        - rewrite (export_b_mono fl m m' _ _ X) by (try discriminate; lia). exact Hg. }
      assert (HF : forall a b h r h', F h a = (r, h') -> r <> OutOfFuel ->
                     Inv h -> R h a b -> hext (init_heap fl) h -> BH h [] -> dres_ok h h' (fun m => G m b) r).
      { intros [f l] [f' b] h0 r0 h0' HFa Hne Hinv0 [Hn Hu] Hfl0 Hbh0. cbn [fst snd] in *. subst f'.
        unfold F in HFa. cbn [fst snd] in HFa.
        match type of HFa with match ?x with _ => _ end = _ => destruct x as [[d|e|] h1] eqn:E1 end.
        - injection HFa as <- <-.
          destruct (elem_ref k IH l b h0 _ _ E1 ltac:(discriminate) Hinv0 Hu Hfl0 Hbh0)
            as [Hx1 [Hinv1 [Hb1 [m X]]]].
          split; [assumption|]. split; [assumption|]. split; [assumption|]. exists m. unfold G. cbn [fst snd].
          fold (export_b fl m b). now rewrite X.
        - injection HFa as <- <-.
          destruct (elem_ref k IH l b h0 _ _ E1 ltac:(discriminate) Hinv0 Hu Hfl0 Hbh0) as [Hx1 R1].
          split; [assumption|]. destruct R1 as [[-> Hdiv]|[Hne' [m X]]].
          + left. split; [reflexivity|]. intros m. unfold G. cbn [fst snd]. fold (export_b fl m b). now rewrite Hdiv.
          + right. split; [assumption|]. exists m. unfold G. cbn [fst snd]. fold (export_b fl m b). now rewrite X.
        - injection HFa as <- <-. congruence. }
      assert (X : forall r0 h0, seqN F h (rev fs) = (r0, h0) -> r0 <> OutOfFuel ->
                    dres_ok h h0 (fun m => seq_list (G m) (rev bs)) r0).
      { intros r0 h0 E Hne.
        exact (seqN_ref _ _ _ R F G HR HG HF _ _ _ _ _ (Forall2_rev' _ _ _ _ _ Hl) E Hne Hinv Hfl Hbh). }
      destruct (seqN F h (rev fs)) as [[ds|e|] h1] eqn:E.
      * injection He as <- <-. destruct (X _ _ eq_refl ltac:(discriminate)) as [Hx1 [Hinv1 [Hb1 [m Gm]]]].
        split; [assumption|]. split; [assumption|]. split; [assumption|]. exists (S m). cbn [export]. fold (G m).
        rewrite Gm. reflexivity.
      * injection He as <- <-. destruct (X _ _ eq_refl ltac:(discriminate)) as [Hx1 R1].
        split; [assumption|]. destruct R1 as [[-> Hdiv]|[Hne [m Gm]]].
        -- left. split; [reflexivity|]. intros [|m]; [reflexivity|]. cbn [export]. fold (G m). now rewrite Hdiv.
        -- right. split; [assumption|]. exists (S m). cbn [export]. fold (G m). rewrite Gm. reflexivity.
      * injection He as <- <-. congruence.
Qed.

Lemma Inv_init : Inv (init_heap fl).
Proof.
  split.
  - intros l c Hc. pose proof Hc as Hc'. unfold init_heap in Hc. apply nth_error_In in Hc. apply in_map_iff in Hc.
    destruct Hc as [p [<- Hp]]. cbn. rewrite forallb_forall in fl_wf. split; [now apply fl_wf|].
    exists (BClos (snd p) []).
    apply (U_cell _ _ (mkcell (snd p) [] Standard Suspended None)); cbn; auto; constructor.
  - intros l c b Hc Hs. unfold init_heap in Hc. apply nth_error_In in Hc. apply in_map_iff in Hc.
    destruct Hc as [p [<- Hp]]. discriminate.
Qed.

Lemma BH_init : BH (init_heap fl) [].
Proof.
  intros l c Hc Hs. unfold init_heap in Hc. apply nth_error_In in Hc. apply in_map_iff in Hc.
  destruct Hc as [p [<- Hp]]. discriminate.
Qed.

(* whenever the call-by-need run of a program returns a result, the call-by-name semantics
   returns the same result for some fuel -- and when the run reports a black hole
   (InfiniteRec), the call-by-name semantics diverges *)
Theorem need_refines_name_full : forall n t r h,
  wft t = true ->
  runN fl Good n t = (r, h) -> r <> OutOfFuel ->
  (r <> Err InfiniteRec -> exists m, run fl m [] t = r) /\
  (r = Err InfiniteRec -> forall m, run fl m [] t = OutOfFuel).
Proof.
  intros n t r h Hac Hr Ho. unfold runN in Hr.
  destruct (evalN fl Good n (init_heap fl) [] t) as [[nv|e|] h1] eqn:E1.
  - destruct (evalN_refines n _ _ _ _ _ [] [] E1 ltac:(discriminate) Hac Inv_init
                (UE_nil _) (hext_refl _) BH_init (fun p (Hp : In p []) => match Hp with end))
      as [Hx1 [Hinv1 [Hb1 [m1 [v [Ev Vv]]]]]].
    rewrite force_clos in Ev.
    destruct (exportN_refines n _ _ _ _ _ Hr Ho Hinv1 Vv Hx1 (BH_sub _ _ _ BH_init Hx1 Hb1)) as [Hx2 R2].
    destruct r as [d|e|]; [| |contradiction].
    + split; [|discriminate]. intros _. destruct R2 as [_ [_ [m2 X]]]. exists (Nat.max m1 m2). unfold run.
      rewrite (eval_mono fl m1 (Nat.max m1 m2) _ _ _ Ev) by (try discriminate; lia). cbn [bind].
      apply (export_mono fl m2 (Nat.max m1 m2) v _ X); [discriminate|lia].
    + destruct R2 as [[-> Hdiv]|[Hne [m2 X]]].
      * split; [congruence|]. intros _ m. unfold run.
        destruct (eval fl m [] t) as [v'|e'|] eqn:Em; [| |reflexivity].
        -- rewrite (eval_agree fl m1 m _ _ _ Ev) in Em by congruence. injection Em as <-. cbn [bind]. apply Hdiv.
        -- rewrite (eval_agree fl m1 m _ _ _ Ev) in Em by congruence. discriminate.
      * split; [|intros [= ->]; congruence]. intros _. exists (Nat.max m1 m2). unfold run.
        rewrite (eval_mono fl m1 (Nat.max m1 m2) _ _ _ Ev) by (try discriminate; lia). cbn [bind].
        apply (export_mono fl m2 (Nat.max m1 m2) v _ X); [discriminate|lia].
  - injection Hr as <- <-.
    destruct (evalN_refines n _ _ _ _ _ [] [] E1 ltac:(discriminate) Hac Inv_init
                (UE_nil _) (hext_refl _) BH_init (fun p (Hp : In p []) => match Hp with end)) as [Hx1 R1].
    destruct R1 as [[-> Hdiv]|[Hne [m1 Ev]]].
    + split; [congruence|]. intros _ m. unfold run. specialize (Hdiv m). rewrite force_clos in Hdiv.
      now rewrite Hdiv.
    + split; [|intros [= ->]; congruence]. intros _. rewrite force_clos in Ev. exists m1. unfold run. now rewrite Ev.
  - injection Hr as <- <-. congruence.
Qed.

Theorem need_refines_name : forall n t r h,
  wft t = true ->
  runN fl Good n t = (r, h) -> r <> OutOfFuel -> r <> Err InfiniteRec ->
  exists m, run fl m [] t = r.
Proof.
  intros n t r h Hw Hr Ho Hi. now apply (proj1 (need_refines_name_full n t r h Hw Hr Ho)).
Qed.

(* ------------------------------------------------------------------ field extraction on the machine *)

Lemma extractN_loc_refines : forall n path h l b r h',
  extractN_loc fl Good n h l path = (r, h') -> r <> OutOfFuel ->
  Inv h -> U h l b -> hext (init_heap fl) h -> BH h [] ->
  dres_ok h h' (fun m => extract_b fl m b path) r.
Proof.
  intros n path. induction path as [|f p IH]; intros h l b r h' He Ho Hinv Hu Hfl Hbh;
    cbn [extractN_loc] in He.
  - cbn [extract_b]. eapply (elem_ref n (exportN_refines n)); eauto.
  - unfold enter in He.
    destruct (enter_with Good (evalN fl Good n) h l) as [[nv|e|] h1] eqn:E1.
    + destruct (enter_ref n (evalN_refines n) _ _ _ _ _ [] E1 ltac:(discriminate) Hinv Hu Hfl Hbh
                  (fun p (Hp : In p []) => match Hp with end))
        as [Hx1 [Hinv1 [Hb1 [m1 [v [F1 V1]]]]]].
      destruct V1 as [z|s|b0|x b0 nrho rho Hab Hr|ls bs Hl|fs bs Hl];
        try (injection He as <- <-; split; [assumption|]; right; split; [discriminate|];
             exists m1; cbn [extract_b]; rewrite F1; reflexivity).
      pose proof (VU_rec_lookup h1 fs bs f Hl) as Hlk.
      destruct (lookup f fs) as [l'|] eqn:L.
      * destruct Hlk as [b' [Lb Ub]].
        destruct (IH _ _ _ _ _ He Ho Hinv1 Ub (hext_trans _ _ _ Hfl Hx1) (BH_sub _ _ _ Hbh Hx1 Hb1)) as [Hx2 R2].
        split; [eapply hext_trans; eauto|]. destruct r as [d|e|]; [| |contradiction].
        -- destruct R2 as [Hinv2 [Hb2 [m2 X]]]. split; [assumption|]. split; [eapply bh_sub_trans; eauto|].
           exists (Nat.max m1 m2). cbn [extract_b].
           rewrite (force_mono fl m1 (Nat.max m1 m2) b _ F1) by (try discriminate; lia). rewrite Lb.
           apply (extract_b_mono fl p m2 (Nat.max m1 m2) b' _ X); [discriminate|lia].
        -- destruct R2 as [[-> Hdiv]|[Hne [m2 X]]].
           ++ left. split; [reflexivity|]. intros m. cbn [extract_b].
              destruct (force fl m b) as [v'|e'|] eqn:Fm; [| |reflexivity].
              ** rewrite (force_agree m1 m b _ F1) in Fm by congruence. injection Fm as <-. rewrite Lb. apply Hdiv.
              ** rewrite (force_agree m1 m b _ F1) in Fm by congruence. discriminate.
           ++ right. split; [assumption|]. exists (Nat.max m1 m2). cbn [extract_b].
              rewrite (force_mono fl m1 (Nat.max m1 m2) b _ F1) by (try discriminate; lia). rewrite Lb.
              apply (extract_b_mono fl p m2 (Nat.max m1 m2) b' _ X); [discriminate|lia].
      * injection He as <- <-. split; [assumption|]. right. split; [discriminate|].
        exists m1. cbn [extract_b]. rewrite F1. now rewrite Hlk.
    + injection He as <- <-.
      destruct (enter_ref n (evalN_refines n) _ _ _ _ _ [] E1 ltac:(discriminate) Hinv Hu Hfl Hbh
                  (fun p (Hp : In p []) => match Hp with end)) as [Hx1 R1].
      split; [assumption|]. destruct R1 as [[-> Hdiv]|[Hne [m1 F1]]].
      * left. split; [reflexivity|]. intros m. cbn [extract_b]. now rewrite Hdiv.
      * right. split; [assumption|]. exists m1. cbn [extract_b]. now rewrite F1.
    + injection He as <- <-. congruence.
Qed.

Theorem need_extract_refines_name_full : forall n t path r h,
  wft t = true ->
  extractN fl Good n t path = (r, h) -> r <> OutOfFuel ->
  (r <> Err InfiniteRec -> exists m, extract fl m [] t path = r) /\
  (r = Err InfiniteRec -> forall m, extract fl m [] t path = OutOfFuel).
Proof.
  intros n t path r h Hac He Ho. unfold extractN, alloc in He.
  destruct (alloc_ref (init_heap fl) t [] [] Inv_init Hac (UE_nil _)) as [Hx [Hinv Hu]].
  assert (Hbh : BH (init_heap fl ++ [mkcell t [] Standard Suspended None]) []).
  { eapply BH_sub; [apply BH_init|exact Hx|]. apply bh_sub_app. intros c [<-|[]]. reflexivity. }
  destruct (extractN_loc_refines _ _ _ _ _ _ _ He Ho Hinv Hu Hx Hbh) as [_ R].
  unfold extract. destruct r as [d|e|]; [| |contradiction].
  - split; [|discriminate]. intros _. destruct R as [_ [_ [m X]]]. eauto.
  - destruct R as [[-> Hdiv]|[Hne [m X]]].
    + split; [congruence|]. intros _. exact Hdiv.
    + split; [|intros [= ->]; congruence]. intros _. eauto.
Qed.

Theorem need_extract_refines_name : forall n t path r h,
  wft t = true ->
  extractN fl Good n t path = (r, h) -> r <> OutOfFuel -> r <> Err InfiniteRec ->
  exists m, extract fl m [] t path = r.
Proof.
  intros n t path r h Hw He Ho Hi. now apply (proj1 (need_extract_refines_name_full n t path r h Hw He Ho)).
Qed.

End Ref.
