(* C09 — structural lemmas about the simulation relation: symmetry, weakening, instantiating a
   binder by related closures, reflexivity. *)
From Coq Require Import List String ZArith Bool Lia.
From NV Require Import Lazy.Syntax Lazy.Spec Lazy.SpecFacts Lazy.Rel.
Import ListNotations.
Open Scope string_scope.
Open Scope list_scope.

(* ------------------------------------------------------------------ lists, names, fv *)

Lemma mem_In : forall x l, mem x l = true <-> In x l.
Proof.
  unfold mem. intros x l. rewrite existsb_exists. split.
  - intros [y [Hy E]]. apply String.eqb_eq in E. now subst.
  - intros H. exists x. split; [assumption|apply String.eqb_refl].
Qed.

Lemma mem_false_In : forall x l, mem x l = false <-> ~ In x l.
Proof.
  intros x l. rewrite <- mem_In. destruct (mem x l); split; congruence.
Qed.

Lemma lookup_cons_ne : forall A x y (a : A) l, x <> y -> lookup x ((y, a) :: l) = lookup x l.
Proof. intros. cbn. apply String.eqb_neq in H. now rewrite H. Qed.

Lemma lookup_cons_eq : forall A x (a : A) l, lookup x ((x, a) :: l) = Some a.
Proof. intros. cbn. now rewrite String.eqb_refl. Qed.

Lemma in_filter_ne : forall y x l,
  In y (filter (fun z => negb (String.eqb z x)) l) <-> In y l /\ y <> x.
Proof.
  intros. rewrite filter_In. rewrite negb_true_iff. rewrite String.eqb_neq. tauto.
Qed.

Lemma in_filter_notmem : forall y ns l,
  In y (filter (fun z => negb (mem z ns)) l) <-> In y l /\ ~ In y ns.
Proof.
  intros. rewrite filter_In. rewrite negb_true_iff. rewrite mem_false_In. tauto.
Qed.

Lemma has_deps_false : forall ns b y, has_deps ns b = false -> In y ns -> ~ In y (fv b).
Proof.
  unfold has_deps. intros ns b y H Hy Hin.
  assert (existsb (fun z => mem z ns) (fv b) = true).
  { apply existsb_exists. exists y. split; [assumption|now apply mem_In]. }
  congruence.
Qed.

Lemma has_deps_true : forall ns b, has_deps ns b = true -> exists y, In y ns /\ In y (fv b).
Proof.
  unfold has_deps. intros ns b H. apply existsb_exists in H. destruct H as [y [H1 H2]].
  exists y. split; [now apply mem_In|assumption].
Qed.

Section Facts.
Variable fl : files.
Notation crel := (crel fl).
Notation crels := (crels fl).
Notation crelf := (crelf fl).
Notation brel := (brel fl).
Notation orelb := (orelb fl).
Notation vrel := (vrel fl).

Lemma crelf_names : forall a ns bs fs1 r1 fs2 r2,
  crelf a ns bs fs1 r1 fs2 r2 -> map fst fs1 = map fst fs2.
Proof. induction 1; cbn; congruence. Qed.

(* ------------------------------------------------------------------ symmetry *)

Lemma crel_sym_mut :
  (forall bs t1 r1 t2 r2, crel bs t1 r1 t2 r2 -> crel bs t2 r2 t1 r1) /\
  (forall bs es1 r1 es2 r2, crels bs es1 r1 es2 r2 -> crels bs es2 r2 es1 r1) /\
  (forall a ns bs fs1 r1 fs2 r2, crelf a ns bs fs1 r1 fs2 r2 -> crelf a ns bs fs2 r2 fs1 r1) /\
  (forall b1 b2, brel b1 b2 -> brel b2 b1) /\
  (forall o1 o2, orelb o1 o2 -> orelb o2 o1).
Proof.
  apply crel_mutind; intros; try (econstructor; eauto; fail).
  - (* C_rec *)
    constructor. rewrite <- (crelf_names _ _ _ _ _ _ _ H). assumption.
  - (* CF_dep *)
    apply CF_dep; auto. tauto.
  - (* B_rec *)
    apply B_rec. rewrite <- (crelf_names _ _ _ _ _ _ _ H). assumption.
Qed.

Lemma crel_sym : forall bs t1 r1 t2 r2, crel bs t1 r1 t2 r2 -> crel bs t2 r2 t1 r1.
Proof. apply crel_sym_mut. Qed.
Lemma brel_sym : forall b1 b2, brel b1 b2 -> brel b2 b1.
Proof. apply crel_sym_mut. Qed.

Lemma vrel_sym : forall v1 v2, vrel v1 v2 -> vrel v2 v1.
Proof.
  intros v1 v2 H. destruct H; constructor.
  - now apply crel_sym.
  - induction H; constructor; auto using brel_sym.
  - induction H; constructor; auto. destruct H. split; auto using brel_sym.
Qed.

(* ------------------------------------------------------------------ weakening an environment *)

Lemma weakenR_mut :
  (forall bs t1 r1 t2 r2, crel bs t1 r1 t2 r2 ->
     forall y b, (~ In y (fv t2) \/ In y bs) -> crel bs t1 r1 t2 ((y, b) :: r2)) /\
  (forall bs es1 r1 es2 r2, crels bs es1 r1 es2 r2 ->
     forall y b, (~ In y (flat_map fv es2) \/ In y bs) -> crels bs es1 r1 es2 ((y, b) :: r2)) /\
  (forall a ns bs fs1 r1 fs2 r2, crelf a ns bs fs1 r1 fs2 r2 ->
     forall y b, (~ In y (flat_map (fun p => fv (snd p)) fs2) \/ In y ns \/ In y bs) ->
     crelf a ns bs fs1 r1 fs2 ((y, b) :: r2)) /\
  (forall b1 b2, brel b1 b2 -> True) /\
  (forall o1 o2, orelb o1 o2 -> True).
Proof.
  apply crel_mutind; auto.
  - (* bvar *) intros bs x r1 r2 Hin y b Hy. now constructor.
  - (* fvar *) intros bs x r1 r2 Hn Ho _ y b Hy. apply C_fvar; [assumption|].
    rewrite lookup_cons_ne; [assumption|].
    intros ->. destruct Hy as [Hy|Hy]; [apply Hy; now left|contradiction].
  - (* unfL *) intros bs x r1 e re t2 r2 Hn Hl Hfv Hc IH y b Hy.
    eapply C_unfL; eauto. apply IH.
    destruct Hy as [Hy|Hy]; [now left|]. left. intros Hin. exact (Hfv _ Hin Hy).
  - (* unfR *) intros bs x r2 e re t1 r1 Hn Hl Hfv Hc IH y b Hy.
    eapply C_unfR; eauto. rewrite lookup_cons_ne; [eassumption|].
    intros ->. destruct Hy as [Hy|Hy]; [apply Hy; now left|contradiction].
  - (* impL *) intros bs f e r1 t2 r2 Hl Hfv Hc IH y b Hy.
    eapply C_impL; eauto. apply IH.
    destruct Hy as [Hy|Hy]; [now left|]. left. intros Hin. exact (Hfv _ Hin Hy).
  - (* impR *) intros bs f e r2 t1 r1 Hl Hfv Hc IH y b Hy. eapply C_impR; eauto.
  - (* fldL *) intros bs f e1 r1 t2 r2 Hf Hc IH y b Hy. apply C_fldL; auto.
  - (* fldR *) intros bs f e2 r2 t1 r1 Hf Hc IH y b Hy. apply C_fldR; auto. apply IH.
    destruct Hy as [Hy|Hy]; [|now right]. left. intros Hin. apply Hy.
    cbn [fv flat_map snd map fst]. rewrite app_nil_r. apply in_filter_notmem.
    split; [assumption|]. cbn. intros [->|[]]. contradiction.
  - (* elmL *) intros bs e1 r1 t2 r2 Hc IH y b Hy. apply C_elmL; auto.
  - (* elmR *) intros bs e2 r2 t1 r1 Hc IH y b Hy. apply C_elmR; auto. apply IH.
    destruct Hy as [Hy|Hy]; [|now right]. left. intros Hin. apply Hy.
    cbn [fv flat_map app]. rewrite app_nil_r. assumption.
  - (* lam *) intros bs x b1 r1 b2 r2 Hc IH y b Hy. constructor. apply IH.
    destruct Hy as [Hy|Hy]; [|right; now right].
    destruct (string_dec y x) as [->|Hne]; [right; now left|].
    left. intros Hin. apply Hy. cbn [fv]. now apply in_filter_ne.
  - (* app *) intros bs f1 a1 r1 f2 a2 r2 H1 IH1 H2 IH2 y b Hy. cbn [fv] in Hy.
    rewrite in_app_iff in Hy. constructor; [apply IH1|apply IH2]; tauto.
  - (* let *) intros bs x e1 b1 r1 e2 b2 r2 H1 IH1 H2 IH2 y b Hy. cbn [fv] in Hy.
    rewrite in_app_iff in Hy. constructor; [apply IH1; tauto|]. apply IH2.
    destruct Hy as [Hy|Hy]; [|right; now right].
    destruct (string_dec y x) as [->|Hne]; [right; now left|].
    left. intros Hin. apply Hy. right. now apply in_filter_ne.
  - (* letrec *) intros bs x e1 b1 r1 e2 b2 r2 H1 IH1 H2 IH2 y b Hy. cbn [fv] in Hy.
    assert (A : forall t, (In y (fv t) -> In y (fv e2) \/ In y (fv b2)) ->
                ~ In y (fv t) \/ In y (x :: bs)).
    { intros t Ht. destruct Hy as [Hy|Hy]; [|right; now right].
      destruct (string_dec y x) as [->|Hne]; [right; now left|].
      left. intros Hin. apply Hy. apply in_filter_ne. split; [|assumption].
      apply in_app_iff. auto. }
    constructor; [apply IH1|apply IH2]; apply A; tauto.
  - (* consts *) intros; constructor.
  - intros; constructor.
  - intros; constructor.
  - intros; constructor.
  - intros; apply C_import.
  - (* bin *) intros bs o a1 b1 r1 a2 b2 r2 H1 IH1 H2 IH2 y b Hy. cbn [fv] in Hy.
    rewrite in_app_iff in Hy. constructor; [apply IH1|apply IH2]; tauto.
  - (* if *) intros bs c1 t1 e1 r1 c2 t2 e2 r2 H1 IH1 H2 IH2 H3 IH3 y b Hy. cbn [fv] in Hy.
    rewrite !in_app_iff in Hy. constructor; [apply IH1|apply IH2|apply IH3]; tauto.
  - (* arr *) intros bs es1 r1 es2 r2 H1 IH1 y b Hy. constructor. now apply IH1.
  - (* at *) intros bs i1 a1 r1 i2 a2 r2 H1 IH1 H2 IH2 y b Hy. cbn [fv] in Hy.
    rewrite in_app_iff in Hy. constructor; [apply IH1|apply IH2]; tauto.
  - (* rec *) intros bs fs1 r1 fs2 r2 H1 IH1 y b Hy. constructor. apply IH1.
    pose proof (crelf_names _ _ _ _ _ _ _ H1) as Hn.
    destruct Hy as [Hy|Hy]; [|right; now right].
    destruct (in_dec string_dec y (map fst fs1)) as [Hi|Hi]; [right; now left|].
    left. intros Hin. apply Hy. cbn [fv]. apply in_filter_notmem.
    split; [assumption|]. now rewrite <- Hn.
  - (* get *) intros bs e1 r1 e2 r2 f H1 IH1 y b Hy. constructor. now apply IH1.
  - (* seq *) intros bs a1 b1 r1 a2 b2 r2 H1 IH1 H2 IH2 y b Hy. cbn [fv] in Hy.
    rewrite in_app_iff in Hy. constructor; [apply IH1|apply IH2]; tauto.
  - (* CS_nil *) intros; constructor.
  - (* CS_cons *) intros bs e1 es1 r1 e2 es2 r2 H1 IH1 H2 IH2 y b Hy. cbn [flat_map] in Hy.
    rewrite in_app_iff in Hy. constructor; [apply IH1|apply IH2]; tauto.
  - (* CF_nil *) intros; constructor.
  - (* CF_dep *) intros a ns bs f b1 fs1 r1 b2 fs2 r2 Hd H1 IH1 H2 IH2 y b Hy.
    cbn [flat_map snd] in Hy. rewrite in_app_iff in Hy. apply CF_dep; auto.
    + apply IH1. rewrite in_app_iff. tauto.
    + apply IH2. tauto.
  - (* CF_nodep *) intros a ns bs f b1 fs1 r1 b2 fs2 r2 Ha Hd1 Hd2 H1 IH1 H2 IH2 y b Hy.
    cbn [flat_map snd] in Hy. rewrite in_app_iff in Hy. apply CF_nodep; auto.
    + apply IH1. destruct Hy as [Hy|[Hy|Hy]]; [left; tauto| |now right].
      left. eapply has_deps_false; eauto.
    + apply IH2. tauto.
Qed.

Lemma weakenR : forall bs t1 r1 t2 r2 y b,
  crel bs t1 r1 t2 r2 -> (~ In y (fv t2) \/ In y bs) -> crel bs t1 r1 t2 ((y, b) :: r2).
Proof. intros. eapply (proj1 weakenR_mut); eauto. Qed.

Lemma weakenL : forall bs t1 r1 t2 r2 y b,
  crel bs t1 r1 t2 r2 -> (~ In y (fv t1) \/ In y bs) -> crel bs t1 ((y, b) :: r1) t2 r2.
Proof. intros. apply crel_sym. apply weakenR; [now apply crel_sym|assumption]. Qed.

(* ------------------------------------------------------------------ the set of binders matters, not the list *)

Lemma bs_iff_mut :
  (forall bs' t1 r1 t2 r2, crel bs' t1 r1 t2 r2 ->
     forall bs, (forall z, In z bs' <-> In z bs) -> crel bs t1 r1 t2 r2) /\
  (forall bs' es1 r1 es2 r2, crels bs' es1 r1 es2 r2 ->
     forall bs, (forall z, In z bs' <-> In z bs) -> crels bs es1 r1 es2 r2) /\
  (forall a ns bs' fs1 r1 fs2 r2, crelf a ns bs' fs1 r1 fs2 r2 ->
     forall bs, (forall z, In z bs' <-> In z bs) -> crelf a ns bs fs1 r1 fs2 r2) /\
  (forall b1 b2, brel b1 b2 -> True) /\
  (forall o1 o2, orelb o1 o2 -> True).
Proof.
  assert (X : forall (x : string) bs' bs, (forall z, In z bs' <-> In z bs) ->
                forall z, In z (x :: bs') <-> In z (x :: bs)).
  { intros x bs' bs H z. cbn. rewrite H. tauto. }
  assert (Y : forall (ns : list string) bs' bs, (forall z, In z bs' <-> In z bs) ->
                forall z, In z (ns ++ bs') <-> In z (ns ++ bs)).
  { intros ns bs' bs H z. rewrite !in_app_iff. rewrite H. tauto. }
  apply crel_mutind; auto.
  - intros bs' x r1 r2 Hin bs Hb. apply C_bvar. now apply Hb.
  - intros bs' x r1 r2 Hn Ho _ bs Hb. apply C_fvar; [now rewrite <- Hb|assumption].
  - intros bs' x r1 e re t2 r2 Hn Hl Hfv Hc IH bs Hb.
    eapply C_unfL; eauto; [now rewrite <- Hb|]. intros z Hz. rewrite <- Hb. now apply Hfv.
  - intros bs' x r2 e re t1 r1 Hn Hl Hfv Hc IH bs Hb.
    eapply C_unfR; eauto; [now rewrite <- Hb|]. intros z Hz. rewrite <- Hb. now apply Hfv.
  - intros bs' f e r1 t2 r2 Hl Hfv Hc IH bs Hb.
    eapply C_impL; eauto. intros z Hz. rewrite <- Hb. now apply Hfv.
  - intros bs' f e r2 t1 r1 Hl Hfv Hc IH bs Hb.
    eapply C_impR; eauto. intros z Hz. rewrite <- Hb. now apply Hfv.
  - intros bs' f e1 r1 t2 r2 Hf Hc IH bs Hb. apply C_fldL; auto.
  - intros bs' f e2 r2 t1 r1 Hf Hc IH bs Hb. apply C_fldR; auto.
  - intros bs' e1 r1 t2 r2 Hc IH bs Hb. apply C_elmL; auto.
  - intros bs' e2 r2 t1 r1 Hc IH bs Hb. apply C_elmR; auto.
  - intros bs' x b1 r1 b2 r2 Hc IH bs Hb. constructor. apply IH. now apply X.
  - intros bs' f1 a1 r1 f2 a2 r2 H1 IH1 H2 IH2 bs Hb. constructor; auto.
  - intros bs' x e1 b1 r1 e2 b2 r2 H1 IH1 H2 IH2 bs Hb. constructor; [auto|apply IH2; now apply X].
  - intros bs' x e1 b1 r1 e2 b2 r2 H1 IH1 H2 IH2 bs Hb.
    constructor; [apply IH1|apply IH2]; now apply X.
  - intros; constructor.
  - intros; constructor.
  - intros; constructor.
  - intros; constructor.
  - intros; apply C_import.
  - intros bs' o a1 b1 r1 a2 b2 r2 H1 IH1 H2 IH2 bs Hb. constructor; auto.
  - intros bs' c1 t1 e1 r1 c2 t2 e2 r2 H1 IH1 H2 IH2 H3 IH3 bs Hb. constructor; auto.
  - intros bs' es1 r1 es2 r2 H1 IH1 bs Hb. constructor; auto.
  - intros bs' i1 a1 r1 i2 a2 r2 H1 IH1 H2 IH2 bs Hb. constructor; auto.
  - intros bs' fs1 r1 fs2 r2 H1 IH1 bs Hb. constructor; auto.
  - intros bs' e1 r1 e2 r2 f H1 IH1 bs Hb. constructor; auto.
  - intros bs' a1 b1 r1 a2 b2 r2 H1 IH1 H2 IH2 bs Hb. constructor; auto.
  - intros; constructor.
  - intros bs' e1 es1 r1 e2 es2 r2 H1 IH1 H2 IH2 bs Hb. constructor; auto.
  - intros; constructor.
  - intros a ns bs' f b1 fs1 r1 b2 fs2 r2 Hd H1 IH1 H2 IH2 bs Hb.
    apply CF_dep; auto.
  - intros a ns bs' f b1 fs1 r1 b2 fs2 r2 Ha Hd1 Hd2 H1 IH1 H2 IH2 bs Hb.
    apply CF_nodep; auto.
Qed.

Lemma crel_bs_iff : forall bs' bs t1 r1 t2 r2,
  crel bs' t1 r1 t2 r2 -> (forall z, In z bs' <-> In z bs) -> crel bs t1 r1 t2 r2.
Proof. intros. eapply (proj1 bs_iff_mut); eauto. Qed.

(* ------------------------------------------------------------------ instantiating a binder *)

Lemma ext1_mut :
  (forall bs' t1 r1 t2 r2, crel bs' t1 r1 t2 r2 ->
     forall bs y c1 c2, (forall z, In z bs' <-> z = y \/ In z bs) -> brel c1 c2 ->
     crel bs t1 ((y, c1) :: r1) t2 ((y, c2) :: r2)) /\
  (forall bs' es1 r1 es2 r2, crels bs' es1 r1 es2 r2 ->
     forall bs y c1 c2, (forall z, In z bs' <-> z = y \/ In z bs) -> brel c1 c2 ->
     crels bs es1 ((y, c1) :: r1) es2 ((y, c2) :: r2)) /\
  (forall a ns bs' fs1 r1 fs2 r2, crelf a ns bs' fs1 r1 fs2 r2 ->
     forall bs y c1 c2, (forall z, In z bs' <-> z = y \/ In z bs) -> brel c1 c2 ->
     crelf a ns bs fs1 ((y, c1) :: r1) fs2 ((y, c2) :: r2)) /\
  (forall b1 b2, brel b1 b2 -> True) /\
  (forall o1 o2, orelb o1 o2 -> True).
Proof.
  assert (X : forall (x y : string) bs' bs, (forall z, In z bs' <-> z = y \/ In z bs) ->
                forall z, In z (x :: bs') <-> z = y \/ In z (x :: bs)).
  { intros x y bs' bs H z. cbn. rewrite H. tauto. }
  assert (Y : forall (ns : list string) (y : string) bs' bs, (forall z, In z bs' <-> z = y \/ In z bs) ->
                forall z, In z (ns ++ bs') <-> z = y \/ In z (ns ++ bs)).
  { intros ns y bs' bs H z. rewrite !in_app_iff. rewrite H. tauto. }
  apply crel_mutind; auto.
  - (* bvar *) intros bs' x r1 r2 Hin bs y c1 c2 Hb Hc.
    destruct (in_dec string_dec x bs) as [Hi|Hi]; [now apply C_bvar|].
    apply Hb in Hin. destruct Hin as [->|Hin]; [|contradiction].
    apply C_fvar; [assumption|]. rewrite !lookup_cons_eq. now constructor.
  - (* fvar *) intros bs' x r1 r2 Hn Ho _ bs y c1 c2 Hb Hc.
    assert (x <> y /\ ~ In x bs) as [Hne Hnb].
    { split; intros Hx; apply Hn; apply Hb; auto. }
    apply C_fvar; [assumption|]. now rewrite !lookup_cons_ne.
  - (* unfL *) intros bs' x r1 e re t2 r2 Hn Hl Hfv Hc IH bs y c1 c2 Hb Hbr.
    assert (x <> y /\ ~ In x bs) as [Hne Hnb].
    { split; intros Hx; apply Hn; apply Hb; auto. }
    eapply C_unfL; [assumption|rewrite lookup_cons_ne; eassumption| |].
    + intros z Hz Hzb. apply (Hfv z Hz). apply Hb. now right.
    + apply weakenR; [assumption|]. left. intros Hy. apply (Hfv y Hy). apply Hb. now left.
  - (* unfR *) intros bs' x r2 e re t1 r1 Hn Hl Hfv Hc IH bs y c1 c2 Hb Hbr.
    assert (x <> y /\ ~ In x bs) as [Hne Hnb].
    { split; intros Hx; apply Hn; apply Hb; auto. }
    eapply C_unfR; [assumption|rewrite lookup_cons_ne; eassumption| |].
    + intros z Hz Hzb. apply (Hfv z Hz). apply Hb. now right.
    + apply weakenL; [assumption|]. left. intros Hy. apply (Hfv y Hy). apply Hb. now left.
  - (* impL *) intros bs' f e r1 t2 r2 Hl Hfv Hc IH bs y c1 c2 Hb Hbr.
    eapply C_impL; [eassumption| |].
    + intros z Hz Hzb. apply (Hfv z Hz). apply Hb. now right.
    + apply weakenR; [assumption|]. left. intros Hy. apply (Hfv y Hy). apply Hb. now left.
  - (* impR *) intros bs' f e r2 t1 r1 Hl Hfv Hc IH bs y c1 c2 Hb Hbr.
    eapply C_impR; [eassumption| |].
    + intros z Hz Hzb. apply (Hfv z Hz). apply Hb. now right.
    + apply weakenL; [assumption|]. left. intros Hy. apply (Hfv y Hy). apply Hb. now left.
  - intros bs' f e1 r1 t2 r2 Hf Hc IH bs y c1 c2 Hb Hbr. apply C_fldL; auto.
  - intros bs' f e2 r2 t1 r1 Hf Hc IH bs y c1 c2 Hb Hbr. apply C_fldR; auto.
  - intros bs' e1 r1 t2 r2 Hc IH bs y c1 c2 Hb Hbr. apply C_elmL; auto.
  - intros bs' e2 r2 t1 r1 Hc IH bs y c1 c2 Hb Hbr. apply C_elmR; auto.
  - intros bs' x b1 r1 b2 r2 Hc IH bs y c1 c2 Hb Hbr. constructor. apply IH; [now apply X|assumption].
  - intros bs' f1 a1 r1 f2 a2 r2 H1 IH1 H2 IH2 bs y c1 c2 Hb Hbr. constructor; auto.
  - intros bs' x e1 b1 r1 e2 b2 r2 H1 IH1 H2 IH2 bs y c1 c2 Hb Hbr.
    constructor; [auto|apply IH2; [now apply X|assumption]].
  - intros bs' x e1 b1 r1 e2 b2 r2 H1 IH1 H2 IH2 bs y c1 c2 Hb Hbr.
    constructor; [apply IH1|apply IH2]; auto.
  - intros; constructor.
  - intros; constructor.
  - intros; constructor.
  - intros; constructor.
  - intros; apply C_import.
  - intros bs' o a1 b1 r1 a2 b2 r2 H1 IH1 H2 IH2 bs y c1 c2 Hb Hbr. constructor; auto.
  - intros bs' c1' t1 e1 r1 c2' t2 e2 r2 H1 IH1 H2 IH2 H3 IH3 bs y c1 c2 Hb Hbr. constructor; auto.
  - intros bs' es1 r1 es2 r2 H1 IH1 bs y c1 c2 Hb Hbr. constructor; auto.
  - intros bs' i1 a1 r1 i2 a2 r2 H1 IH1 H2 IH2 bs y c1 c2 Hb Hbr. constructor; auto.
  - intros bs' fs1 r1 fs2 r2 H1 IH1 bs y c1 c2 Hb Hbr. constructor; auto.
  - intros bs' e1 r1 e2 r2 f H1 IH1 bs y c1 c2 Hb Hbr. constructor; auto.
  - intros bs' a1 b1 r1 a2 b2 r2 H1 IH1 H2 IH2 bs y c1 c2 Hb Hbr. constructor; auto.
  - intros; constructor.
  - intros bs' e1 es1 r1 e2 es2 r2 H1 IH1 H2 IH2 bs y c1 c2 Hb Hbr. constructor; auto.
  - intros; constructor.
  - intros a ns bs' f b1 fs1 r1 b2 fs2 r2 Hd H1 IH1 H2 IH2 bs y c1 c2 Hb Hbr.
    apply CF_dep; auto.
  - intros a ns bs' f b1 fs1 r1 b2 fs2 r2 Ha Hd1 Hd2 H1 IH1 H2 IH2 bs y c1 c2 Hb Hbr.
    apply CF_nodep; auto.
Qed.

Lemma crel_ext1 : forall y bs t1 r1 t2 r2 c1 c2,
  crel (y :: bs) t1 r1 t2 r2 -> brel c1 c2 -> crel bs t1 ((y, c1) :: r1) t2 ((y, c2) :: r2).
Proof.
  intros. eapply (proj1 ext1_mut); eauto. intros z. cbn. split; intros [->|?]; auto.
Qed.

Definition erel (l1 l2 : env) : Prop :=
  Forall2 (fun p1 p2 => fst p1 = fst p2 /\ brel (snd p1) (snd p2)) l1 l2.

Lemma crel_ext_list : forall l1 l2, erel l1 l2 ->
  forall bs' bs t1 r1 t2 r2,
  crel bs' t1 r1 t2 r2 -> (forall z, In z bs' <-> In z (map fst l1) \/ In z bs) ->
  crel bs t1 (l1 ++ r1) t2 (l2 ++ r2).
Proof.
  induction 1 as [|[g c1] [g' c2] l1 l2 [Hg Hc] Hl IH]; intros bs' bs t1 r1 t2 r2 Hcr Hb.
  - cbn. eapply crel_bs_iff; eauto. intros z. rewrite Hb. cbn. tauto.
  - cbn in Hg. subst g'. cbn [app]. apply crel_ext1; [|assumption].
    eapply IH; eauto. intros z. rewrite Hb. cbn. tauto.
Qed.

(* ------------------------------------------------------------------ reflexivity *)

Lemma crel_same : forall t bs r1 r2,
  (forall x, In x (fv t) -> In x bs \/ orelb (lookup x r1) (lookup x r2)) ->
  crel bs t r1 t r2.
Proof.
  induction t using tm_ind'; intros bs r1 r2 Hfv; cbn [fv] in Hfv;
    try (constructor; fail).
  - (* Var *) destruct (in_dec string_dec x bs) as [Hi|Hi]; [now apply C_bvar|].
    apply C_fvar; [assumption|]. destruct (Hfv x (or_introl eq_refl)); [contradiction|assumption].
  - (* Lam *) constructor. apply IHt. intros z Hz.
    destruct (string_dec z x) as [->|Hne]; [left; now left|].
    destruct (Hfv z) as [H|H]; [now apply in_filter_ne|left; now right|now right].
  - constructor; [apply IHt1|apply IHt2]; intros z Hz; apply Hfv; apply in_app_iff; auto.
  - (* Let *) constructor.
    + apply IHt1. intros z Hz. apply Hfv. apply in_app_iff. auto.
    + apply IHt2. intros z Hz.
      destruct (string_dec z x) as [->|Hne]; [left; now left|].
      destruct (Hfv z) as [H|H]; [apply in_app_iff; right; now apply in_filter_ne|left; now right|now right].
  - (* LetRec *)
    assert (A : forall t, (forall z, In z (fv t) -> In z (fv t1 ++ fv t2)) ->
                forall z, In z (fv t) -> In z (x :: bs) \/ orelb (lookup z r1) (lookup z r2)).
    { intros t Ht z Hz. destruct (string_dec z x) as [->|Hne]; [left; now left|].
      destruct (Hfv z) as [H|H]; [apply in_filter_ne; split; auto|left; now right|now right]. }
    constructor; [apply IHt1|apply IHt2]; apply A; intros z Hz; apply in_app_iff; auto.
  - constructor; [apply IHt1|apply IHt2]; intros z Hz; apply Hfv; apply in_app_iff; auto.
  - constructor; [apply IHt1|apply IHt2|apply IHt3]; intros z Hz; apply Hfv;
      rewrite !in_app_iff; auto.
  - (* Arr *) constructor. induction H as [|e es He Hes IH]; constructor.
    + apply He. intros z Hz. apply Hfv. cbn. apply in_app_iff. auto.
    + apply IH. intros z Hz. apply Hfv. cbn. apply in_app_iff. auto.
  - constructor; [apply IHt1|apply IHt2]; intros z Hz; apply Hfv; apply in_app_iff; auto.
  - (* Rec *) constructor.
    assert (G : forall z, In z (flat_map (fun p => fv (snd p)) fs) ->
                  In z (map fst fs) \/ In z bs \/ orelb (lookup z r1) (lookup z r2)).
    { intros z Hz. destruct (in_dec string_dec z (map fst fs)) as [Hi|Hi]; [now left|].
      right. apply Hfv. now apply in_filter_notmem. }
    clear Hfv. revert G. generalize (map fst fs) as ns. intros ns G.
    induction H as [|[f b] fs' Hb Hfs IH]; [constructor|].
    cbn [snd] in Hb.
    assert (G' : forall z, In z (flat_map (fun p => fv (snd p)) fs') ->
                   In z ns \/ In z bs \/ orelb (lookup z r1) (lookup z r2)).
    { intros z Hz. apply G. cbn. apply in_app_iff. auto. }
    destruct (has_deps ns b) eqn:Hd.
    + apply CF_dep; auto. apply Hb. intros z Hz.
      destruct (G z) as [Hg|[Hg|Hg]]; [cbn; apply in_app_iff; auto| | |];
        rewrite ?in_app_iff; auto.
    + apply CF_nodep; auto. apply Hb. intros z Hz.
      destruct (G z) as [Hg|[Hg|Hg]]; [cbn; apply in_app_iff; auto| | |]; auto.
      exfalso. eapply has_deps_false; eauto.
  - constructor. apply IHt. assumption.
  - constructor; [apply IHt1|apply IHt2]; intros z Hz; apply Hfv; apply in_app_iff; auto.
Qed.

Lemma lookup_In : forall A x (a : A) l, lookup x l = Some a -> In (x, a) l.
Proof.
  induction l as [|[y b] l IH]; cbn; [discriminate|].
  destruct (String.eqb x y) eqn:E.
  - intros [= ->]. apply String.eqb_eq in E. subst. now left.
  - intros H. right. auto.
Qed.

Lemma env_refl_of : forall rho : env,
  Forall (fun p => brel (snd p) (snd p)) rho -> forall x, orelb (lookup x rho) (lookup x rho).
Proof.
  intros rho H x. destruct (lookup x rho) eqn:E; [|constructor].
  constructor. apply lookup_In in E. rewrite Forall_forall in H. exact (H _ E).
Qed.

Lemma crelf_same : forall a ns (defs : list (string * tm)) bs r1 r2,
  (forall x, orelb (lookup x r1) (lookup x r2)) -> crelf a ns bs defs r1 defs r2.
Proof.
  intros a ns defs bs r1 r2 H. induction defs as [|[f b] defs IH]; [constructor|].
  destruct a.
  - apply CF_dep; auto. apply crel_same. auto.
  - destruct (has_deps ns b) eqn:Hd.
    + apply CF_dep; auto. apply crel_same. auto.
    + apply CF_nodep; auto. apply crel_same. auto.
Qed.

Lemma brel_refl : forall b, brel b b.
Proof.
  induction b using binding_ind'.
  - apply B_clos. apply crel_same. intros x _. right. now apply env_refl_of.
  - apply B_rec. apply crelf_same. now apply env_refl_of.
Qed.

Lemma orelb_refl : forall (rho : env) x, orelb (lookup x rho) (lookup x rho).
Proof. intros. destruct (lookup x rho); constructor. apply brel_refl. Qed.

Lemma crel_refl : forall bs t rho, crel bs t rho t rho.
Proof. intros. apply crel_same. intros x _. right. apply orelb_refl. Qed.

Lemma vrel_refl : forall v, vrel v v.
Proof.
  destruct v; constructor.
  - apply crel_refl.
  - induction es; constructor; auto using brel_refl.
  - induction fs; constructor; auto using brel_refl.
Qed.

(* a closed term means the same in every environment *)
Lemma crel_closed : forall t bs r1 r2, fv t = [] -> crel bs t r1 t r2.
Proof. intros t bs r1 r2 H. apply crel_same. rewrite H. intros x []. Qed.

End Facts.
