(* C09 — the rewrite laws that need no simulation argument: element and sequencing. *)
From Coq Require Import List String ZArith Bool Lia.
From NV Require Import Lazy.Syntax Lazy.Spec Lazy.SpecFacts.
Import ListNotations.
Open Scope string_scope.
Open Scope list_scope.

Section Laws.
Variable fl : files.

(* [t1] in [rho1] and [t2] in [rho2] evaluate to the same weak head normal form / error class *)
Definition eval_equiv (rho1 : env) (t1 : tm) (rho2 : env) (t2 : tm) : Prop :=
  oequiv (fun n => eval fl n rho1 t1) (fun n => eval fl n rho2 t2).

(* ... export to the same data tree / fail with the same error class *)
Definition run_equiv (rho1 : env) (t1 : tm) (rho2 : env) (t2 : tm) : Prop :=
  oequiv (fun n => run fl n rho1 t1) (fun n => run fl n rho2 t2).

Lemma eval_equiv_run_equiv : forall rho1 t1 rho2 t2,
  eval_equiv rho1 t1 rho2 t2 -> run_equiv rho1 t1 rho2 t2.
Proof.
  intros rho1 t1 rho2 t2 [H1 H2]; split; intros n Hn; unfold run in *.
  - pose proof (bind_not_oof _ _ _ _ Hn) as Hn'.
    destruct (H1 n Hn') as [m Hm]. apply orel_eq in Hm. cbn beta in Hm.
    exists (Nat.max n m).
    assert (E : eval fl (Nat.max n m) rho2 t2 = eval fl n rho1 t1).
    { rewrite Hm. eapply eval_mono; [reflexivity|congruence|lia]. }
    rewrite E. destruct (eval fl n rho1 t1) eqn:E1; cbn [bind] in *.
    + erewrite (export_mono fl n (Nat.max n m)); [|reflexivity|assumption|lia].
      now apply orel_eq_refl.
    + reflexivity.
    + congruence.
  - pose proof (bind_not_oof _ _ _ _ Hn) as Hn'.
    destruct (H2 n Hn') as [m Hm]. apply orel_eq in Hm. cbn beta in Hm.
    exists (Nat.max n m).
    assert (E : eval fl (Nat.max n m) rho1 t1 = eval fl n rho2 t2).
    { rewrite Hm. eapply eval_mono; [reflexivity|congruence|lia]. }
    rewrite E. destruct (eval fl n rho2 t2) eqn:E1; cbn [bind] in *.
    + erewrite (export_mono fl n (Nat.max n m)); [|reflexivity|assumption|lia].
      now apply orel_eq_refl.
    + reflexivity.
    + congruence.
Qed.

(* std.array.at 0 [e]  ≃  e *)
Lemma elem_abs_eval : forall rho e, eval_equiv rho (At (Num 0) (Arr [e])) rho e.
Proof.
  intros rho e; split; intros n Hn; cbn beta in *.
  - destruct n as [|[|n]]; cbn in Hn; try congruence.
    exists (S n). cbn. apply orel_eq_refl. exact Hn.
  - destruct n as [|n]; [cbn in Hn; congruence|].
    exists (S (S n)). cbn [eval bind at_sem Z.ltb Z.compare Z.to_nat nth_error map force_with].
    apply orel_eq_refl. exact Hn.
Qed.

(* sequencing after a value that evaluates successfully *)
Lemma seq_ok_eval : forall rho v e k w,
  eval fl k rho v = Ok w -> eval_equiv rho (Seq v e) rho e.
Proof.
  intros rho v e k w Hv; split; intros n Hn; cbn beta in *.
  - destruct n as [|n]; [cbn in Hn; congruence|]. cbn [eval] in *.
    exists n.
    pose proof (bind_not_oof _ _ _ _ Hn) as Hn'.
    assert (E : eval fl n rho v = Ok w).
    { assert (A : eval fl (Nat.max n k) rho v = Ok w) by (eapply eval_mono; eauto; [discriminate|lia]).
      assert (B : eval fl (Nat.max n k) rho v = eval fl n rho v) by (eapply eval_mono; eauto; lia).
      congruence. }
    rewrite E in *. cbn [bind] in *. now apply orel_eq_refl.
  - exists (S (Nat.max n k)). cbn [eval].
    erewrite (eval_mono fl k (Nat.max n k) rho v); [|exact Hv|discriminate|lia]. cbn [bind].
    erewrite (eval_mono fl n (Nat.max n k) rho e); [|reflexivity|exact Hn|lia].
    now apply orel_eq_refl.
Qed.

End Laws.
