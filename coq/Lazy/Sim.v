(* C09 — related closures evaluate to related results (the simulation theorem), and related
   values export to the same data tree. *)
From Coq Require Import List String ZArith Bool Lia Wf_nat.
From NV Require Import Lazy.Syntax Lazy.Spec Lazy.SpecFacts Lazy.Rel Lazy.RelFacts.
Import ListNotations.
Open Scope string_scope.
Open Scope list_scope.

Section Sim.
Variable fl : files.
Notation crel := (crel fl).
Notation crels := (crels fl).
Notation crelf := (crelf fl).
Notation brel := (brel fl).
Notation orelb := (orelb fl).
Notation vrel := (vrel fl).
Notation erel := (erel fl).

(* ------------------------------------------------------------------ opening a binding *)

Definition bopen (b : binding) : option (tm * env) :=
  match b with
  | BClos e r => Some (e, r)
  | BRec a d r x => match lookup x d with Some e => Some (e, recenv a d r) | None => None end
  end.

Lemma force_with_bopen : forall ev b,
  force_with ev b = match bopen b with Some (e, r) => ev r e | None => Err UnboundId end.
Proof. intros ev [e r|a d r x]; cbn; [reflexivity|]. now destruct (lookup x d). Qed.

Lemma weakenL_list : forall l bs t1 r1 t2 r2,
  crel bs t1 r1 t2 r2 -> (forall y, In y (map fst l) -> ~ In y (fv t1) \/ In y bs) ->
  crel bs t1 (l ++ r1) t2 r2.
Proof.
  induction l as [|[y b] l IH]; intros bs t1 r1 t2 r2 H Hy; cbn [app]; [assumption|].
  apply weakenL.
  - apply IH; [assumption|]. intros z Hz. apply Hy. now right.
  - apply Hy. now left.
Qed.

Lemma weakenR_list : forall l bs t1 r1 t2 r2,
  crel bs t1 r1 t2 r2 -> (forall y, In y (map fst l) -> ~ In y (fv t2) \/ In y bs) ->
  crel bs t1 r1 t2 (l ++ r2).
Proof.
  intros. apply crel_sym. apply weakenL_list; [now apply crel_sym|assumption].
Qed.

Lemma crelf_members : forall a ns d1 r1 d2 r2 l1 l2,
  (forall g, brel (BRec a d1 r1 g) (BRec a d2 r2 g)) ->
  map fst d1 = ns -> map fst d2 = ns ->
  crelf a ns [] l1 r1 l2 r2 ->
  erel (map (member_binding a d1 r1) l1) (map (member_binding a d2 r2) l2).
Proof.
  intros a ns d1 r1 d2 r2 l1 l2 Hb N1 N2 H. remember [] as bs eqn:Eb.
  induction H as [| a ns bs f b1 fs1 r1 b2 fs2 r2 Hd Hc Hf IH
                  | a ns bs f b1 fs1 r1 b2 fs2 r2 Ha Hd1 Hd2 Hc Hf IH]; cbn [map]; constructor;
    try (apply IH; assumption).
  - unfold member_binding. cbn [fst snd]. rewrite N1, N2. split; [reflexivity|].
    destruct Hd as [->|[H1 H2]]; [cbn [orb]; apply Hb|].
    rewrite H1, H2, !orb_true_r. apply Hb.
  - unfold member_binding. cbn [fst snd]. rewrite N1, N2. rewrite Hd1, Hd2. subst a bs. cbn [orb].
    split; [reflexivity|]. now apply B_clos.
Qed.

Lemma crelf_lookup : forall a ns d1 r1 d2 r2 x,
  crelf a ns [] d1 r1 d2 r2 ->
  (lookup x d1 = None /\ lookup x d2 = None) \/
  (exists e1 e2, lookup x d1 = Some e1 /\ lookup x d2 = Some e2 /\
     ((crel (ns ++ []) e1 r1 e2 r2) \/
      (has_deps ns e1 = false /\ has_deps ns e2 = false /\ crel [] e1 r1 e2 r2))).
Proof.
  intros a ns d1 r1 d2 r2 x H. remember [] as bs. induction H; subst; cbn [lookup].
  - now left.
  - destruct (String.eqb x f); [|auto]. right. exists b1, b2. auto.
  - destruct (String.eqb x f); [|auto]. right. exists b1, b2. auto 6.
Qed.

Lemma map_fst_members : forall a (d l : list (string * tm)) r,
  map fst (map (member_binding a d r) l) = map fst l.
Proof. intros. rewrite map_map. reflexivity. Qed.

Lemma brel_open : forall b1 b2, brel b1 b2 ->
  (bopen b1 = None /\ bopen b2 = None) \/
  (exists e1 r1 e2 r2, bopen b1 = Some (e1, r1) /\ bopen b2 = Some (e2, r2) /\ crel [] e1 r1 e2 r2).
Proof.
  intros b1 b2 H. destruct H as [e1 r1 e2 r2 H|a d1 r1 d2 r2 x H].
  - right. exists e1, r1, e2, r2. auto.
  - cbn [bopen]. destruct (crelf_lookup _ _ _ _ _ _ x H) as [[E1 E2]|[e1 [e2 [E1 [E2 Hc]]]]].
    + left. now rewrite E1, E2.
    + right. rewrite E1, E2. exists e1, (recenv a d1 r1), e2, (recenv a d2 r2). repeat split.
      pose proof (crelf_names _ _ _ _ _ _ _ _ H) as Hn.
      destruct Hc as [Hc|[Hd1 [Hd2 Hc]]].
      * unfold recenv. eapply crel_ext_list; [|exact Hc|].
        -- eapply crelf_members; [|reflexivity|symmetry; exact Hn|exact H]. intros g. now apply B_rec.
        -- intros z. rewrite map_fst_members. rewrite in_app_iff. tauto.
      * unfold recenv. apply weakenL_list; [apply weakenR_list; [assumption|]|].
        -- intros y Hy. left. rewrite map_fst_members in Hy. rewrite <- Hn in Hy.
           eapply has_deps_false; eauto.
        -- intros y Hy. left. rewrite map_fst_members in Hy.
           eapply has_deps_false; eauto.
Qed.

(* ------------------------------------------------------------------ simulation *)

Definition evto (r : env) (t : tm) (o : outcome val) : Prop :=
  exists m o', eval fl m r t = o' /\ orel vrel o o'.

Definition fuel_mono (K : nat -> val -> outcome val) : Prop :=
  forall m m' v o, K m v = o -> o <> OutOfFuel -> m <= m' -> K m' v = o.

Lemma orel_not_oof : forall A B (R : A -> B -> Prop) o o', orel R o o' -> o' <> OutOfFuel.
Proof. intros A B R [a|e|] [b|e'|]; cbn; intros; congruence. Qed.

Lemma bind_sim : forall (o1 : outcome val) K1 o r2 a2 K2,
  bind o1 K1 = o -> o <> OutOfFuel ->
  (o1 <> OutOfFuel -> evto r2 a2 o1) ->
  (forall v v', vrel v v' -> o1 = Ok v -> K1 v = o ->
     exists m o', K2 m v' = o' /\ orel vrel o o') ->
  fuel_mono K2 ->
  exists m o', bind (eval fl m r2 a2) (K2 m) = o' /\ orel vrel o o'.
Proof.
  intros o1 K1 o r2 a2 K2 Hb Ho H1 HK Hm.
  pose proof (bind_not_oof _ _ _ _ (eq_ind_r (fun x => x <> OutOfFuel) Ho Hb)) as Ho1.
  destruct (H1 Ho1) as [m1 [o1' [E1 R1]]].
  destruct o1 as [v|e|]; [| |congruence]; destruct o1' as [v'|e'|]; cbn in R1; try contradiction.
  - cbn [bind] in Hb. destruct (HK v v' R1 eq_refl Hb) as [m2 [o' [E2 R2]]].
    exists (Nat.max m1 m2), o'. split; [|assumption].
    rewrite (eval_mono fl m1 (Nat.max m1 m2) r2 a2 _ E1) by (try discriminate; lia).
    cbn [bind]. eapply Hm; eauto; [eapply orel_not_oof; eauto|lia].
  - subst e'. cbn [bind] in Hb. subst o. exists m1, (Err e). rewrite E1. split; [reflexivity|cbn; reflexivity].
Qed.

Lemma binop_rel : forall o a a' b b', vrel a a' -> vrel b b' ->
  orel vrel (binop_sem o a b) (binop_sem o a' b').
Proof.
  intros o a a' b b' Ha Hb.
  destruct Ha, Hb, o; cbn; try reflexivity; constructor.
Qed.

Lemma at_rel : forall i i' a a', vrel i i' -> vrel a a' -> orel brel (at_sem i a) (at_sem i' a').
Proof.
  intros i i' a a' Hi Ha. destruct Hi, Ha; cbn; try reflexivity.
  destruct (Z.ltb n 0); [reflexivity|].
  revert H. generalize (Z.to_nat n). intros k H. revert k.
  induction H; intros [|k]; cbn; auto.
Qed.

Lemma erel_lookup : forall l1 l2 x, erel l1 l2 -> orelb (lookup x l1) (lookup x l2).
Proof.
  intros l1 l2 x H. induction H as [|[f b1] [f' b2] l1 l2 [Hf Hb] Hl IH]; cbn; [constructor|].
  cbn in Hf. subst f'. destruct (String.eqb x f); [now constructor|assumption].
Qed.

Lemma crels_brel : forall es1 r1 es2 r2, crels [] es1 r1 es2 r2 ->
  Forall2 brel (map (fun e => BClos e r1) es1) (map (fun e => BClos e r2) es2).
Proof.
  intros es1 r1 es2 r2 H. remember [] as bs. induction H; subst; cbn; constructor; auto.
  now apply B_clos.
Qed.

Lemma has_deps_single : forall f e, ~ In f (fv e) -> has_deps [f] e = false.
Proof.
  intros f e H. unfold has_deps. apply not_true_is_false. intros Hx.
  apply existsb_exists in Hx. destruct Hx as [y [Hy Hm]]. apply mem_In in Hm.
  destruct Hm as [->|[]]. contradiction.
Qed.

Lemma crelf_fields : forall fs1 r1 fs2 r2,
  crelf false (map fst fs1) [] fs1 r1 fs2 r2 ->
  Forall2 (fun p1 p2 => fst p1 = fst p2 /\ brel (snd p1) (snd p2))
    (map (field_binding fs1 r1) fs1) (map (field_binding fs2 r2) fs2).
Proof.
  intros fs1 r1 fs2 r2 H. unfold field_binding.
  eapply crelf_members; [|reflexivity|symmetry; exact (crelf_names _ _ _ _ _ _ _ _ H)|exact H].
  intros g. now apply B_rec.
Qed.

Lemma eval_elm_step : forall m r e,
  eval fl (S (S m)) r (At (Num 0) (Arr [e])) = eval fl (S m) r e.
Proof.
  intros. remember (S m) as k eqn:Hk. cbn [eval].
  assert (E1 : eval fl k r (Num 0) = Ok (VNum 0)) by (subst k; reflexivity).
  assert (E2 : eval fl k r (Arr [e]) = Ok (VArr [BClos e r])) by (subst k; reflexivity).
  rewrite E1, E2. reflexivity.
Qed.

Lemma eval_fld_step : forall m r f e, ~ In f (fv e) ->
  eval fl (S (S m)) r (Get (Rec [(f, e)]) f) = eval fl (S m) r e.
Proof.
  intros m r f e Hf. remember (S m) as k eqn:Hk. cbn [eval].
  assert (E1 : eval fl k r (Rec [(f, e)]) = Ok (VRec [(f, BClos e r)])).
  { subst k. cbn [eval map]. unfold field_binding, member_binding. cbn [fst snd map orb].
    now rewrite (has_deps_single _ _ Hf). }
  rewrite E1. cbn [bind lookup]. rewrite String.eqb_refl. reflexivity.
Qed.

Theorem sim : forall n t1 r1 t2 r2 o,
  crel [] t1 r1 t2 r2 -> eval fl n r1 t1 = o -> o <> OutOfFuel -> evto r2 t2 o.
Proof.
  induction n as [n IHn] using lt_wf_ind. intros t1 r1 t2 r2 o Hc. revert o.
  (* forcing related bindings with less fuel *)
  assert (FS : forall k b1 b2 o, k < n -> brel b1 b2 ->
            force_with (eval fl k) b1 = o -> o <> OutOfFuel ->
            exists m o', force_with (eval fl m) b2 = o' /\ orel vrel o o').
  { intros k b1 b2 o Hk Hb Hf Ho. rewrite force_with_bopen in Hf.
    destruct (brel_open _ _ Hb) as [[E1 E2]|[e1 [q1 [e2 [q2 [E1 [E2 Hcr]]]]]]].
    - exists 0, (Err UnboundId). rewrite force_with_bopen, E2. rewrite E1 in Hf. subst o.
      split; [reflexivity|cbn; reflexivity].
    - rewrite E1 in Hf. destruct (IHn k Hk _ _ _ _ _ Hcr Hf Ho) as [m [o' [E R]]].
      exists m, o'. rewrite force_with_bopen, E2. auto. }
  assert (FM : forall (b : binding), fuel_mono (fun m (_ : val) => force_with (eval fl m) b)).
  { intros b m m' _ o H Ho Hle. eapply force_mono; eauto. }
  remember [] as bs eqn:Hbs.
  induction Hc; intros res He Ho; subst bs.
  - (* bvar *) contradiction.
  - (* fvar *)
    destruct n as [|k]; [cbn in He; congruence|]. cbn [eval] in He.
    destruct (lookup x r1) as [b1|] eqn:L1; destruct (lookup x r2) as [b2|] eqn:L2;
      inversion H0 as [|c1 c2 Hb]; try subst c1; try subst c2.
    + destruct (FS k b1 b2 res (Nat.lt_succ_diag_r k) Hb He Ho) as [m [o' [E R]]].
      exists (S m), o'. cbn [eval]. rewrite L2. auto.
    + subst res. exists 1, (Err UnboundId). cbn. rewrite L2. split; [reflexivity|cbn; reflexivity].
  - (* unfL *)
    destruct n as [|k]; [cbn in He; congruence|]. cbn [eval] in He. rewrite H0 in He.
    cbn [force_with] in He. eapply IHn; eauto.
  - (* unfR *)
    destruct (IHHc eq_refl IHn res He Ho) as [m [o' [E R]]].
    exists (S m), o'. cbn [eval]. rewrite H0. cbn [force_with]. auto.
  - (* impL *)
    destruct n as [|k]; [cbn in He; congruence|]. cbn [eval] in He. rewrite H in He.
    eapply IHn; eauto.
  - (* impR *)
    destruct (IHHc eq_refl IHn res He Ho) as [m [o' [E R]]].
    exists (S m), o'. cbn [eval]. rewrite H. auto.
  - (* fldL *)
    destruct n as [|[|k]]; [cbn in He; congruence|cbn in He; congruence|].
    rewrite (eval_fld_step _ _ _ _ H) in He.
    apply (IHn (S k)) with (t1 := e1) (r1 := r1); auto.
  - (* fldR *)
    destruct (IHHc eq_refl IHn res He Ho) as [m [o' [E R]]].
    exists (S (S m)), o'. split; [|assumption].
    rewrite (eval_fld_step _ _ _ _ H).
    eapply eval_mono; eauto. eapply orel_not_oof; eauto.
  - (* elmL *)
    destruct n as [|[|k]]; [cbn in He; congruence|cbn in He; congruence|].
    rewrite eval_elm_step in He.
    apply (IHn (S k)) with (t1 := e1) (r1 := r1); auto.
  - (* elmR *)
    destruct (IHHc eq_refl IHn res He Ho) as [m [o' [E R]]].
    exists (S (S m)), o'. split; [|assumption].
    rewrite eval_elm_step.
    eapply eval_mono; eauto. eapply orel_not_oof; eauto.
  - (* lam *)
    destruct n as [|k]; [cbn in He; congruence|]. cbn [eval] in He. subst res.
    exists 1, (Ok (VClo x b2 r2)). split; [reflexivity|]. cbn. now constructor.
  - (* app *)
    destruct n as [|k]; [cbn in He; congruence|]. cbn [eval] in He.
    destruct (bind_sim _ _ _ r2 f2
                (fun m vf => match vf with
                             | VClo x b rho' => eval fl m ((x, BClos a2 r2) :: rho') b
                             | _ => Err NotAFunc end) He Ho) as [m [o' [E R]]].
    + intros Hne. eapply IHn; eauto.
    + intros v v' Hv _ HK. destruct Hv; try (exists 0, (Err NotAFunc); split; [reflexivity|rewrite <- HK; cbn; reflexivity]).
      eapply IHn; [apply Nat.lt_succ_diag_r| |exact HK|exact Ho].
      apply crel_ext1; [assumption|]. now apply B_clos.
    + intros m m' v o0 H Ho0 Hle. destruct v; try assumption. eapply eval_mono; eauto.
    + exists (S m), o'. auto.
  - (* let *)
    destruct n as [|k]; [cbn in He; congruence|]. cbn [eval] in He.
    destruct (IHn k (Nat.lt_succ_diag_r k) _ _ b2 ((x, BClos e2 r2) :: r2) _
                (crel_ext1 fl _ _ _ _ _ _ _ _ Hc2 (B_clos fl _ _ _ _ Hc1)) He Ho) as [m [o' [E R]]].
    exists (S m), o'. auto.
  - (* letrec *)
    destruct n as [|k]; [cbn in He; congruence|]. cbn [eval] in He.
    assert (Hb : brel (BRec true [(x, e1)] r1 x) (BRec true [(x, e2)] r2 x)).
    { apply B_rec. cbn [map fst]. apply CF_dep; [now left| |constructor].
      eapply crel_bs_iff; [exact Hc1|]. intros z. cbn. tauto. }
    destruct (IHn k (Nat.lt_succ_diag_r k) _ _ b2 ((x, BRec true [(x, e2)] r2 x) :: r2) _
                (crel_ext1 fl _ _ _ _ _ _ _ _ Hc2 Hb) He Ho) as [m [o' [E R]]].
    exists (S m), o'. auto.
  - destruct n as [|k]; [cbn in He; congruence|]. cbn in He. subst res.
    exists 1, (Ok (VNum n0)). split; [reflexivity|]. cbn. constructor.
  - destruct n as [|k]; [cbn in He; congruence|]. cbn in He. subst res.
    exists 1, (Ok (VStr s)). split; [reflexivity|]. cbn. constructor.
  - destruct n as [|k]; [cbn in He; congruence|]. cbn in He. subst res.
    exists 1, (Ok (VBool b)). split; [reflexivity|]. cbn. constructor.
  - destruct n as [|k]; [cbn in He; congruence|]. cbn in He. subst res.
    exists 1, (Err Blame). split; [reflexivity|cbn; reflexivity].
  - (* import, same file *)
    destruct n as [|k]; [cbn in He; congruence|]. cbn [eval] in He.
    destruct (lookup f fl) eqn:El.
    + destruct (IHn k (Nat.lt_succ_diag_r k) t [] t [] res (crel_refl fl [] t []) He Ho) as [m [o' [E R]]].
      exists (S m), o'. cbn [eval]. rewrite El. auto.
    + subst res. exists 1, (Err ImportErr). cbn. rewrite El. split; [reflexivity|cbn; reflexivity].
  - (* bin *)
    destruct n as [|k]; [cbn in He; congruence|]. cbn [eval] in He.
    destruct (bind_sim _ _ _ r2 a2
                (fun m va => bind (eval fl m r2 b2) (fun vb => binop_sem o va vb)) He Ho)
      as [m [o' [E R]]].
    + intros Hne. eapply IHn; eauto.
    + intros v v' Hv _ HK.
      eapply (bind_sim _ _ _ r2 b2 (fun _ vb => binop_sem o v' vb) HK Ho).
      * intros Hne. eapply IHn; eauto.
      * intros w w' Hw _ HK2. exists 0, (binop_sem o v' w'). split; [reflexivity|].
        rewrite <- HK2. now apply binop_rel.
      * intros m m' w o1 H _ _. exact H.
    + intros m m' v o1 H Ho1 Hle.
      destruct (eval fl m r2 b2) eqn:E2; cbn [bind] in H.
      * rewrite (eval_mono fl m m' r2 b2 _ E2) by (try discriminate; lia). exact H.
      * rewrite (eval_mono fl m m' r2 b2 _ E2) by (try discriminate; lia). exact H.
      * congruence.
    + exists (S m), o'. auto.
  - (* if *)
    destruct n as [|k]; [cbn in He; congruence|]. cbn [eval] in He.
    destruct (bind_sim _ _ _ r2 c2
                (fun m vc => match vc with
                             | VBool true => eval fl m r2 t2
                             | VBool false => eval fl m r2 e2
                             | _ => Err TypeErr end) He Ho) as [m [o' [E R]]].
    + intros Hne. eapply IHn; eauto.
    + intros v v' Hv _ HK. destruct Hv; try (exists 0, (Err TypeErr); split; [reflexivity|rewrite <- HK; cbn; reflexivity]).
      destruct b; eapply IHn; eauto.
    + intros m m' v o1 H Ho1 Hle. destruct v; try assumption.
      destruct b; eapply eval_mono; eauto.
    + exists (S m), o'. auto.
  - (* arr *)
    destruct n as [|k]; [cbn in He; congruence|]. cbn [eval] in He. subst res.
    exists 1, (Ok (VArr (map (fun e => BClos e r2) es2))). split; [reflexivity|].
    cbn. constructor. now apply crels_brel.
  - (* at *)
    destruct n as [|k]; [cbn in He; congruence|]. cbn [eval] in He.
    destruct (bind_sim _ _ _ r2 i2
                (fun m vi => bind (eval fl m r2 a2) (fun va =>
                   bind (at_sem vi va) (fun b => force_with (eval fl m) b))) He Ho)
      as [m [o' [E R]]].
    + intros Hne. eapply IHn; eauto.
    + intros v v' Hv _ HK.
      eapply (bind_sim _ _ _ r2 a2
                (fun m va => bind (at_sem v' va) (fun b => force_with (eval fl m) b)) HK Ho).
      * intros Hne. eapply IHn; eauto.
      * intros w w' Hw _ HK2. pose proof (at_rel _ _ _ _ Hv Hw) as Hat.
        destruct (at_sem v w) as [b1|e|]; destruct (at_sem v' w') as [b2|e'|];
          cbn in Hat; try contradiction; cbn [bind] in *.
        -- eapply FS; eauto.
        -- subst e'. exists 0, (Err e). split; [reflexivity|rewrite <- HK2; cbn; reflexivity].
      * intros m m' w o1 H Ho1 Hle. destruct (at_sem v' w); cbn [bind] in *; try assumption.
        eapply force_mono; eauto.
    + intros m m' v o1 H Ho1 Hle.
      destruct (eval fl m r2 a2) eqn:E2; cbn [bind] in H.
      * rewrite (eval_mono fl m m' r2 a2 _ E2) by (try discriminate; lia). cbn [bind].
        destruct (at_sem v a); cbn [bind] in *; try assumption. eapply force_mono; eauto.
      * rewrite (eval_mono fl m m' r2 a2 _ E2) by (try discriminate; lia). exact H.
      * congruence.
    + exists (S m), o'. auto.
  - (* rec *)
    destruct n as [|k]; [cbn in He; congruence|]. cbn [eval] in He. subst res.
    exists 1, (Ok (VRec (map (field_binding fs2 r2) fs2))). split; [reflexivity|].
    cbn. constructor. now apply crelf_fields.
  - (* get *)
    destruct n as [|k]; [cbn in He; congruence|]. cbn [eval] in He.
    destruct (bind_sim _ _ _ r2 e2
                (fun m ve => match ve with
                             | VRec bs => match lookup f bs with
                                          | Some b => force_with (eval fl m) b
                                          | None => Err FieldMissing end
                             | _ => Err TypeErr end) He Ho) as [m [o' [E R]]].
    + intros Hne. eapply IHn; eauto.
    + intros v v' Hv _ HK. destruct Hv; try (exists 0, (Err TypeErr); split; [reflexivity|rewrite <- HK; cbn; reflexivity]).
      pose proof (erel_lookup _ _ f H) as Hl.
      destruct (lookup f fs1) as [b1|] eqn:L1; destruct (lookup f fs2) as [b2|] eqn:L2;
        inversion Hl as [|c1 c2 Hb]; try subst c1; try subst c2.
      * eapply FS; eauto.
      * exists 0, (Err FieldMissing). split; [reflexivity|rewrite <- HK; cbn; reflexivity].
    + intros m m' v o1 H Ho1 Hle. destruct v; try assumption.
      destruct (lookup f fs); [|assumption]. eapply force_mono; eauto.
    + exists (S m), o'. auto.
  - (* seq *)
    destruct n as [|k]; [cbn in He; congruence|]. cbn [eval] in He.
    destruct (bind_sim _ _ _ r2 a2 (fun m _ => eval fl m r2 b2) He Ho) as [m [o' [E R]]].
    + intros Hne. eapply IHn; eauto.
    + intros v v' Hv _ HK. eapply IHn; eauto.
    + intros m m' v o1 H Ho1 Hle. eapply eval_mono; eauto.
    + exists (S m), o'. auto.
Qed.

Lemma force_sim : forall n b1 b2 o,
  brel b1 b2 -> force fl n b1 = o -> o <> OutOfFuel ->
  exists m o', force fl m b2 = o' /\ orel vrel o o'.
Proof.
  unfold force. intros n b1 b2 o Hb Hf Ho. rewrite force_with_bopen in Hf.
  destruct (brel_open _ _ Hb) as [[E1 E2]|[e1 [q1 [e2 [q2 [E1 [E2 Hcr]]]]]]].
  - exists 0, (Err UnboundId). rewrite force_with_bopen, E2. rewrite E1 in Hf. subst o.
    split; [reflexivity|cbn; reflexivity].
  - rewrite E1 in Hf. destruct (sim n _ _ _ _ _ Hcr Hf Ho) as [m [o' [E R]]].
    exists m, o'. rewrite force_with_bopen, E2. auto.
Qed.

(* ------------------------------------------------------------------ export *)

Lemma seq_list_sim : forall A B C (R : A -> B -> Prop) (f : A -> outcome C) (g : nat -> B -> outcome C) l1 l2,
  Forall2 R l1 l2 ->
  (forall a b o, R a b -> f a = o -> o <> OutOfFuel -> exists m, g m b = o) ->
  (forall b m m' o, g m b = o -> o <> OutOfFuel -> m <= m' -> g m' b = o) ->
  forall o, seq_list f l1 = o -> o <> OutOfFuel -> exists m, seq_list (g m) l2 = o.
Proof.
  intros A B C R f g l1 l2 H Hfg Hm. induction H as [|a b l1 l2 Hab Hl IH]; intros o Hs Ho.
  - exists 0. exact Hs.
  - cbn [seq_list] in Hs.
    destruct (f a) as [c|e|] eqn:Ea; cbn [bind] in Hs.
    + destruct (Hfg a b (Ok c) Hab Ea ltac:(discriminate)) as [m1 E1].
      destruct (seq_list f l1) as [cs|e|] eqn:El; cbn [bind] in Hs.
      * destruct (IH (Ok cs) eq_refl ltac:(discriminate)) as [m2 E2].
        exists (Nat.max m1 m2). cbn [seq_list].
        rewrite (Hm b m1 (Nat.max m1 m2) _ E1) by (try discriminate; lia). cbn [bind].
        rewrite (seq_list_mono _ _ (g m2) (g (Nat.max m1 m2)) l2 (Ok cs)); [exact Hs| |exact E2|discriminate].
        intros b0 r _ Hb Hr. eapply Hm; eauto. lia.
      * destruct (IH (Err e) eq_refl ltac:(discriminate)) as [m2 E2].
        exists (Nat.max m1 m2). cbn [seq_list].
        rewrite (Hm b m1 (Nat.max m1 m2) _ E1) by (try discriminate; lia). cbn [bind].
        rewrite (seq_list_mono _ _ (g m2) (g (Nat.max m1 m2)) l2 (Err e)); [exact Hs| |exact E2|discriminate].
        intros b0 r _ Hb Hr. eapply Hm; eauto. lia.
      * congruence.
    + destruct (Hfg a b (Err e) Hab Ea ltac:(discriminate)) as [m1 E1].
      exists m1. cbn [seq_list]. rewrite E1. exact Hs.
    + congruence.
Qed.

Lemma Forall2_rev : forall A B (R : A -> B -> Prop) l1 l2,
  Forall2 R l1 l2 -> Forall2 R (rev l1) (rev l2).
Proof.
  induction 1; cbn; [constructor|]. apply Forall2_app; [assumption|]. constructor; [assumption|constructor].
Qed.

Lemma export_b_sim_of : forall k,
  (forall v1 v2 o, vrel v1 v2 -> export fl k v1 = o -> o <> OutOfFuel -> exists m, export fl m v2 = o) ->
  forall b1 b2 o, brel b1 b2 -> bind (force fl k b1) (export fl k) = o -> o <> OutOfFuel ->
  exists m, bind (force fl m b2) (export fl m) = o.
Proof.
  intros k IH b1 b2 o Hb H Ho.
  destruct (force fl k b1) as [v1|e|] eqn:F; cbn [bind] in H.
  - destruct (force_sim _ _ _ _ Hb F ltac:(discriminate)) as [m1 [o' [E1 R1]]].
    destruct o' as [v2|e'|]; cbn in R1; try contradiction.
    destruct (IH v1 v2 o R1 H Ho) as [m2 E2].
    exists (Nat.max m1 m2).
    rewrite (force_mono fl m1 (Nat.max m1 m2) _ _ E1) by (try discriminate; lia). cbn [bind].
    eapply export_mono; eauto. lia.
  - destruct (force_sim _ _ _ _ Hb F ltac:(discriminate)) as [m1 [o' [E1 R1]]].
    destruct o' as [v2|e'|]; cbn in R1; try contradiction. subst e'.
    exists m1. rewrite E1. exact H.
  - congruence.
Qed.

Lemma export_b_mono' : forall b m m' o,
  bind (force fl m b) (export fl m) = o -> o <> OutOfFuel -> m <= m' ->
  bind (force fl m' b) (export fl m') = o.
Proof. intros. eapply (export_b_mono fl); eauto. Qed.

Theorem export_sim : forall n v1 v2 o,
  vrel v1 v2 -> export fl n v1 = o -> o <> OutOfFuel -> exists m, export fl m v2 = o.
Proof.
  induction n as [|k IH]; intros v1 v2 o Hv He Ho; [cbn in He; congruence|].
  destruct Hv; cbn [export] in He.
  - exists 1. exact He.
  - exists 1. exact He.
  - exists 1. exact He.
  - exists 1. exact He.
  - (* arrays *)
    destruct (seq_list (fun b => bind (force fl k b) (export fl k)) (rev es1)) as [ds|e|] eqn:Es;
      cbn [bind] in He; [| |congruence].
    + destruct (seq_list_sim _ _ _ brel _ (fun m b => bind (force fl m b) (export fl m))
                  _ _ (Forall2_rev _ _ _ _ _ H)
                  (export_b_sim_of k IH) export_b_mono' _ Es ltac:(discriminate)) as [m Em].
      exists (S m). cbn [export]. rewrite Em. exact He.
    + destruct (seq_list_sim _ _ _ brel _ (fun m b => bind (force fl m b) (export fl m))
                  _ _ (Forall2_rev _ _ _ _ _ H)
                  (export_b_sim_of k IH) export_b_mono' _ Es ltac:(discriminate)) as [m Em].
      exists (S m). cbn [export]. rewrite Em. exact He.
  - (* records *)
    set (f := fun p : string * binding =>
                bind (bind (force fl k (snd p)) (export fl k)) (fun d => Ok (fst p, d))) in *.
    set (g := fun m (p : string * binding) =>
                bind (bind (force fl m (snd p)) (export fl m)) (fun d => Ok (fst p, d))).
    assert (X : forall o0, seq_list f (rev fs1) = o0 -> o0 <> OutOfFuel ->
                  exists m, seq_list (g m) (rev fs2) = o0).
    { eapply (seq_list_sim _ _ _ (fun p1 p2 : string * binding => fst p1 = fst p2 /\ brel (snd p1) (snd p2))).
      - apply Forall2_rev. exact H.
      - intros [f1 b1] [f2 b2] o0 [Hf Hb] Ha Ho0. unfold f, g in *. cbn [fst snd] in *. subst f2.
        match type of Ha with bind ?x _ = _ => destruct x as [d|e|] eqn:Ex end; cbn [bind] in Ha; [| |congruence].
        + destruct (export_b_sim_of k IH _ _ _ Hb Ex ltac:(discriminate)) as [m Em]. exists m. rewrite Em. exact Ha.
        + destruct (export_b_sim_of k IH _ _ _ Hb Ex ltac:(discriminate)) as [m Em]. exists m. rewrite Em. exact Ha.
      - intros [f0 b] m m' o0 Ha Ho0 Hle. unfold g in *. cbn [fst snd] in *.
        match type of Ha with bind ?x _ = _ => destruct x as [d|e|] eqn:Ex end; cbn [bind] in Ha; [| |congruence].
        + rewrite (export_b_mono' _ _ m' _ Ex) by (try discriminate; lia). exact Ha.
        + rewrite (export_b_mono' _ _ m' _ Ex) by (try discriminate; lia). exact Ha. }
    destruct (seq_list f (rev fs1)) as [ds|e|] eqn:Es; cbn [bind] in He; [| |congruence].
    + destruct (X _ eq_refl ltac:(discriminate)) as [m Em].
      exists (S m). cbn [export]. fold (g m). rewrite Em. exact He.
    + destruct (X _ eq_refl ltac:(discriminate)) as [m Em].
      exists (S m). cbn [export]. fold (g m). rewrite Em. exact He.
Qed.

(* related closures have the same observable result *)
Theorem crel_run : forall t1 r1 t2 r2 n o,
  crel [] t1 r1 t2 r2 -> run fl n r1 t1 = o -> o <> OutOfFuel -> exists m, run fl m r2 t2 = o.
Proof.
  unfold run. intros t1 r1 t2 r2 n o Hc Hr Ho.
  destruct (eval fl n r1 t1) as [v1|e|] eqn:E; cbn [bind] in Hr; [| |congruence].
  - destruct (sim n _ _ _ _ _ Hc E ltac:(discriminate)) as [m1 [o' [E1 R1]]].
    destruct o' as [v2|e'|]; cbn in R1; try contradiction.
    destruct (export_sim n v1 v2 o R1 Hr Ho) as [m2 E2].
    exists (Nat.max m1 m2).
    rewrite (eval_mono fl m1 (Nat.max m1 m2) _ _ _ E1) by (try discriminate; lia). cbn [bind].
    eapply export_mono; eauto. lia.
  - destruct (sim n _ _ _ _ _ Hc E ltac:(discriminate)) as [m1 [o' [E1 R1]]].
    destruct o' as [v2|e'|]; cbn in R1; try contradiction. subst e'.
    exists m1. rewrite E1. exact Hr.
Qed.

End Sim.
