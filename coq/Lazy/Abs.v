(* C09 — the abstraction laws: let / beta (substitution), and the local rewrites
   {f = e}.f, std.array.at 0 [e], import, inside arbitrary program contexts. *)
From Coq Require Import List String ZArith Bool Lia.
From NV Require Import Lazy.Syntax Lazy.Spec Lazy.SpecFacts Lazy.Rel Lazy.RelFacts Lazy.Sim Lazy.Laws.
Import ListNotations.
Open Scope string_scope.
Open Scope list_scope.

(* ------------------------------------------------------------------ free variables of a substitution *)

Lemma fv_subst_lower : forall x e b z, In z (fv b) -> z <> x -> In z (fv (subst x e b)).
Proof.
  intros x e b. induction b using tm_ind'; intros z Hz Hne; cbn [fv subst] in *.
  - destruct Hz as [->|[]]. apply String.eqb_neq in Hne. rewrite Hne. now left.
  - destruct (String.eqb x0 x) eqn:E; cbn [fv]; [assumption|].
    apply in_filter_ne in Hz. apply in_filter_ne. split; [apply IHb|]; tauto.
  - rewrite in_app_iff in *. destruct Hz; auto.
  - rewrite in_app_iff in *. destruct Hz as [Hz|Hz]; [auto|]. right.
    destruct (String.eqb x0 x) eqn:E; [assumption|].
    apply in_filter_ne in Hz. apply in_filter_ne. split; [apply IHb2|]; tauto.
  - destruct (String.eqb x0 x) eqn:E; cbn [fv]; [assumption|].
    apply in_filter_ne in Hz. apply in_filter_ne. rewrite in_app_iff in *.
    split; [|tauto]. destruct Hz as [[Hz|Hz] Hn]; auto.
  - contradiction.
  - contradiction.
  - contradiction.
  - rewrite in_app_iff in *. destruct Hz; auto.
  - rewrite !in_app_iff in *. destruct Hz as [Hz|[Hz|Hz]]; auto.
  - apply in_flat_map in Hz. destruct Hz as [t [Ht Hz]]. apply in_flat_map.
    exists (subst x e t). split; [now apply in_map|].
    rewrite Forall_forall in H. now apply H.
  - rewrite in_app_iff in *. destruct Hz; auto.
  - destruct (mem x (map fst fs)) eqn:E; cbn [fv]; [assumption|].
    apply in_filter_notmem in Hz. destruct Hz as [Hz Hn]. apply in_filter_notmem.
    rewrite map_map. cbn [fst]. split; [|assumption].
    apply in_flat_map in Hz. destruct Hz as [p [Hp Hz]]. apply in_flat_map.
    exists (fst p, subst x e (snd p)). split.
    + apply in_map_iff. exists p. auto.
    + cbn [snd]. rewrite Forall_forall in H. now apply H.
  - auto.
  - rewrite in_app_iff in *. destruct Hz; auto.
  - contradiction.
  - contradiction.
Qed.

Lemma fv_subst_upper : forall x e b z,
  In z (fv (subst x e b)) -> (In z (fv b) /\ z <> x) \/ In z (fv e).
Proof.
  intros x e b. induction b using tm_ind'; intros z Hz; cbn [fv subst] in *.
  - destruct (String.eqb x0 x) eqn:E; [now right|].
    destruct Hz as [->|[]]. left. split; [now left|]. now apply String.eqb_neq.
  - destruct (String.eqb x0 x) eqn:E; cbn [fv] in Hz.
    + apply String.eqb_eq in E. subst x0. apply in_filter_ne in Hz. left. split; [|tauto].
      now apply in_filter_ne.
    + apply in_filter_ne in Hz. destruct Hz as [Hz Hn]. destruct (IHb z Hz) as [[H1 H2]|H1]; [|now right].
      left. split; [|assumption]. now apply in_filter_ne.
  - rewrite in_app_iff in *. destruct Hz as [Hz|Hz]; [destruct (IHb1 z Hz)|destruct (IHb2 z Hz)]; tauto.
  - rewrite in_app_iff in *. destruct Hz as [Hz|Hz].
    + destruct (IHb1 z Hz); tauto.
    + destruct (String.eqb x0 x) eqn:E.
      * apply String.eqb_eq in E. subst x0. left. apply in_filter_ne in Hz.
        split; [|tauto]. right. now apply in_filter_ne.
      * apply in_filter_ne in Hz. destruct Hz as [Hz Hn]. destruct (IHb2 z Hz) as [[H1 H2]|H1]; [|now right].
        left. split; [|assumption]. right. now apply in_filter_ne.
  - destruct (String.eqb x0 x) eqn:E; cbn [fv] in Hz.
    + apply String.eqb_eq in E. subst x0. left. split; [assumption|].
      apply in_filter_ne in Hz. tauto.
    + apply in_filter_ne in Hz. destruct Hz as [Hz Hn]. rewrite in_app_iff in Hz.
      destruct Hz as [Hz|Hz]; [destruct (IHb1 z Hz) as [[H1 H2]|H1]|destruct (IHb2 z Hz) as [[H1 H2]|H1]];
        try (now right); left; (split; [|assumption]); apply in_filter_ne; rewrite in_app_iff; tauto.
  - contradiction.
  - contradiction.
  - contradiction.
  - rewrite in_app_iff in *. destruct Hz as [Hz|Hz]; [destruct (IHb1 z Hz)|destruct (IHb2 z Hz)]; tauto.
  - rewrite !in_app_iff in *.
    destruct Hz as [Hz|[Hz|Hz]]; [destruct (IHb1 z Hz)|destruct (IHb2 z Hz)|destruct (IHb3 z Hz)]; tauto.
  - apply in_flat_map in Hz. destruct Hz as [t' [Ht Hz]]. apply in_map_iff in Ht.
    destruct Ht as [t [<- Ht]]. rewrite Forall_forall in H.
    destruct (H t Ht z Hz) as [[H1 H2]|H1]; [|now right]. left. split; [|assumption].
    apply in_flat_map. eauto.
  - rewrite in_app_iff in *. destruct Hz as [Hz|Hz]; [destruct (IHb1 z Hz)|destruct (IHb2 z Hz)]; tauto.
  - destruct (mem x (map fst fs)) eqn:E; cbn [fv] in Hz.
    + left. split; [assumption|]. apply in_filter_notmem in Hz. intros ->.
      apply mem_In in E. tauto.
    + apply in_filter_notmem in Hz. destruct Hz as [Hz Hn]. rewrite map_map in Hn. cbn [fst] in Hn.
      apply in_flat_map in Hz. destruct Hz as [p' [Hp Hz]]. apply in_map_iff in Hp.
      destruct Hp as [p [<- Hp]]. cbn [snd] in Hz. rewrite Forall_forall in H.
      destruct (H p Hp z Hz) as [[H1 H2]|H1]; [|now right]. left. split; [|assumption].
      apply in_filter_notmem. split; [|assumption]. apply in_flat_map. eauto.
  - auto.
  - rewrite in_app_iff in *. destruct Hz as [Hz|Hz]; [destruct (IHb1 z Hz)|destruct (IHb2 z Hz)]; tauto.
  - contradiction.
  - contradiction.
Qed.

Lemma has_deps_iff : forall ns b b',
  (forall z, In z ns -> (In z (fv b) <-> In z (fv b'))) -> has_deps ns b = has_deps ns b'.
Proof.
  intros ns b b' H. unfold has_deps.
  destruct (existsb (fun y => mem y ns) (fv b)) eqn:E1; destruct (existsb (fun y => mem y ns) (fv b')) eqn:E2; auto.
  - apply existsb_exists in E1. destruct E1 as [y [H1 H2]]. apply mem_In in H2.
    assert (existsb (fun y => mem y ns) (fv b') = true).
    { apply existsb_exists. exists y. split; [now apply H|now apply mem_In]. } congruence.
  - apply existsb_exists in E2. destruct E2 as [y [H1 H2]]. apply mem_In in H2.
    assert (existsb (fun y => mem y ns) (fv b) = true).
    { apply existsb_exists. exists y. split; [now apply H|now apply mem_In]. } congruence.
Qed.

Lemma has_deps_subst : forall ns x e b,
  ~ In x ns -> (forall z, In z ns -> ~ In z (fv e)) ->
  has_deps ns (subst x e b) = has_deps ns b.
Proof.
  intros ns x e b Hx He. apply has_deps_iff. intros z Hz. split.
  - intros H. destruct (fv_subst_upper _ _ _ _ H) as [[H1 _]|H1]; [assumption|].
    exfalso. exact (He z Hz H1).
  - intros H. apply fv_subst_lower; [assumption|]. intros ->. contradiction.
Qed.

Section Abs.
Variable fl : files.
Notation crel := (crel fl).
Notation crels := (crels fl).
Notation crelf := (crelf fl).
Notation brel := (brel fl).

Lemma crel_notfree : forall x c t bs rho,
  ~ In x (fv t) -> crel bs t ((x, c) :: rho) t rho.
Proof.
  intros. apply weakenL; [apply crel_refl|now left].
Qed.

Lemma forallb_In : forall A (f : A -> bool) l a, forallb f l = true -> In a l -> f a = true.
Proof. intros A f l a H. rewrite forallb_forall in H. auto. Qed.

(* substituting [e] for [x] = binding [x] to the closure of [e] *)
Lemma crel_subst : forall x e rho b bs,
  ~ In x bs -> nocap (fv e) x b = true -> (forall z, In z (fv e) -> ~ In z bs) ->
  crel bs b ((x, BClos e rho) :: rho) (subst x e b) rho.
Proof.
  intros x e rho b. induction b using tm_ind'; intros bs Hx Hnc He; cbn [subst nocap] in *;
    repeat match goal with
    | H : _ && _ = true |- _ => apply andb_prop in H; destruct H
    end.
  - (* Var *) destruct (String.eqb x0 x) eqn:E.
    + apply String.eqb_eq in E. subst x0.
      eapply C_unfL; [assumption|apply lookup_cons_eq|assumption|apply crel_refl].
    + apply String.eqb_neq in E. apply crel_same. intros z [<-|[]]. right.
      rewrite lookup_cons_ne by assumption. apply orelb_refl.
  - (* Lam *) destruct (String.eqb x0 x) eqn:E.
    + apply String.eqb_eq in E. subst x0. apply crel_notfree. cbn [fv]. intros H. apply in_filter_ne in H. tauto.
    + cbn [orb] in Hnc. apply andb_prop in Hnc. destruct Hnc as [H1 H2].
      apply negb_true_iff in H1. apply mem_false_In in H1. apply String.eqb_neq in E.
      constructor. apply IHb; [|assumption|].
      * intros [->|H]; [congruence|contradiction].
      * intros z Hz [<-|H]; [contradiction|]. exact (He z Hz H).
  - constructor; auto.
  - (* Let *) constructor; [auto|]. destruct (String.eqb x0 x) eqn:E.
    + apply String.eqb_eq in E. subst x0. apply weakenL; [apply crel_refl|right; now left].
    + cbn [orb] in H0. apply andb_prop in H0. destruct H0 as [H1 H2].
      apply negb_true_iff in H1. apply mem_false_In in H1. apply String.eqb_neq in E.
      apply IHb2; [|assumption|].
      * intros [->|H']; [congruence|contradiction].
      * intros z Hz [<-|H']; [contradiction|]. exact (He z Hz H').
  - (* LetRec *) destruct (String.eqb x0 x) eqn:E.
    + apply String.eqb_eq in E. subst x0. apply crel_notfree. cbn [fv]. intros H. apply in_filter_ne in H. tauto.
    + cbn [orb] in Hnc. repeat (apply andb_prop in Hnc; destruct Hnc as [Hnc ?]).
      apply negb_true_iff in Hnc. apply mem_false_In in Hnc. apply String.eqb_neq in E.
      assert (A1 : ~ In x (x0 :: bs)) by (intros [->|H']; [congruence|contradiction]).
      assert (A2 : forall z, In z (fv e) -> ~ In z (x0 :: bs)).
      { intros z Hz [<-|H']; [contradiction|]. exact (He z Hz H'). }
      constructor; auto.
  - constructor.
  - constructor.
  - constructor.
  - constructor; auto.
  - constructor; auto.
  - (* Arr *) constructor. induction H as [|t es Ht Hes IH]; cbn [map]; [constructor|].
    cbn [forallb] in Hnc. apply andb_prop in Hnc. destruct Hnc. constructor; auto.
  - constructor; auto.
  - (* Rec *) destruct (mem x (map fst fs)) eqn:E.
    + apply crel_notfree. cbn [fv]. intros Hin. apply in_filter_notmem in Hin. apply mem_In in E. tauto.
    + cbn [orb] in Hnc. apply andb_prop in Hnc. destruct Hnc as [H1 H2].
      apply mem_false_In in E.
      assert (N : forall z, In z (map fst fs) -> ~ In z (fv e)).
      { intros z Hz Hze. pose proof (forallb_In _ _ _ z H1 Hz) as Hm. cbn beta in Hm.
        apply negb_true_iff in Hm. apply mem_false_In in Hm. contradiction. }
      constructor. clear H1. revert E N. generalize (map fst fs) as ns. intros ns E N.
      induction H as [|[f b] fs' Hb Hfs IH]; cbn [map]; [constructor|].
      cbn [forallb snd fst] in *. apply andb_prop in H2. destruct H2 as [H2 H3].
      pose proof (has_deps_subst ns x e b E N) as Hd.
      destruct (has_deps ns b) eqn:Hdb.
      * apply CF_dep; [right; split; congruence| |apply IH; assumption].
        apply Hb; [|assumption|].
        -- rewrite in_app_iff. tauto.
        -- intros z Hz Hin. apply in_app_iff in Hin. destruct Hin as [Hin|Hin]; [exact (N z Hin Hz)|exact (He z Hz Hin)].
      * apply CF_nodep; [reflexivity|assumption|congruence| |apply IH; assumption].
        apply Hb; assumption.
  - constructor; auto.
  - constructor; auto.
  - constructor.
  - apply C_import.
Qed.

Lemma shift_equiv : forall A (f g : nat -> outcome A),
  f 0 = OutOfFuel -> (forall n, f (S n) = g n) -> oequiv f g.
Proof.
  intros A f g H0 HS. split; intros n Hn.
  - destruct n as [|n]; [congruence|]. exists n. rewrite HS in *. now apply orel_eq_refl.
  - exists (S n). rewrite HS. now apply orel_eq_refl.
Qed.

Lemma crel_run_equiv : forall t1 r1 t2 r2,
  crel [] t1 r1 t2 r2 -> run_equiv fl r1 t1 r2 t2.
Proof.
  intros t1 r1 t2 r2 Hc. split; intros n Hn; cbn beta in *.
  - destruct (crel_run fl _ _ _ _ _ _ Hc eq_refl Hn) as [m Em]. exists m. rewrite Em.
    now apply orel_eq_refl.
  - destruct (crel_run fl _ _ _ _ _ _ (crel_sym fl _ _ _ _ _ Hc) eq_refl Hn) as [m Em]. exists m. rewrite Em.
    now apply orel_eq_refl.
Qed.

(* let x = e in b  ≃  b[e/x] *)
Theorem let_abs : forall rho x e b,
  nocap (fv e) x b = true -> run_equiv fl rho (Let x e b) rho (subst x e b).
Proof.
  intros rho x e b Hnc.
  pose proof (crel_subst x e rho b [] (fun H => H) Hnc (fun _ _ H => H)) as Hc.
  eapply oequiv_trans; [|apply (crel_run_equiv _ _ _ _ Hc)].
  apply eval_equiv_run_equiv. apply shift_equiv; reflexivity.
Qed.

(* (fun x => b) e  ≃  b[e/x] *)
Theorem beta_abs : forall rho x e b,
  nocap (fv e) x b = true -> run_equiv fl rho (App (Lam x b) e) rho (subst x e b).
Proof.
  intros rho x e b Hnc.
  pose proof (crel_subst x e rho b [] (fun H => H) Hnc (fun _ _ H => H)) as Hc.
  eapply oequiv_trans; [|apply (crel_run_equiv _ _ _ _ Hc)].
  apply eval_equiv_run_equiv. apply shift_equiv; [reflexivity|].
  intros [|n]; reflexivity.
Qed.

End Abs.
