(* C09 — S-level semantics: a fuel-indexed call-by-NAME big-step evaluator with environments.
   Nothing is memoised and nothing is mutated.  Fuel bounds the recursion depth and is passed
   unchanged to siblings.  Definitions only. *)
From Coq Require Import List String ZArith Bool.
From NV Require Import Lazy.Syntax.
Import ListNotations.
Open Scope string_scope.
Open Scope list_scope.

Definition files := list (string * tm).

(* binding of a member of a recursive group (closurize_rec_record / FieldDeps: a record field
   that mentions no sibling is a plain closure in the outer environment) *)
Definition member_binding (a : bool) (defs : list (string * tm)) (rho : env) (p : string * tm)
  : string * binding :=
  (fst p, if a || has_deps (map fst defs) (snd p) then BRec a defs rho (fst p) else BClos (snd p) rho).

(* the environment in which a member that sees the group is evaluated *)
Definition recenv (a : bool) (defs : list (string * tm)) (rho : env) : env :=
  map (member_binding a defs rho) defs ++ rho.

(* binding of a record-literal field *)
Definition field_binding (fs : list (string * tm)) (rho : env) (p : string * tm) : string * binding :=
  member_binding false fs rho p.

Definition binop_sem (o : binop) (v1 v2 : val) : outcome val :=
  match o, v1, v2 with
  | Add, VNum a, VNum b => Ok (VNum (a + b))
  | Sub, VNum a, VNum b => Ok (VNum (a - b))
  | Mul, VNum a, VNum b => Ok (VNum (a * b))
  | Lth, VNum a, VNum b => Ok (VBool (Z.ltb a b))
  | Cat, VStr a, VStr b => Ok (VStr (String.append a b))
  | _, _, _ => Err TypeErr
  end.

(* std.array.at i a, as observed through its contract: every misuse is a blame *)
Definition at_sem (vi va : val) : outcome binding :=
  match vi, va with
  | VNum i, VArr es =>
      if Z.ltb i 0 then Err Blame
      else match nth_error es (Z.to_nat i) with Some b => Ok b | None => Err Blame end
  | _, _ => Err Blame
  end.

Section WithFiles.
Variable fl : files.

Definition force_with (ev : env -> tm -> outcome val) (b : binding) : outcome val :=
  match b with
  | BClos e rho => ev rho e
  | BRec a defs rho x =>
      match lookup x defs with
      | Some e => ev (recenv a defs rho) e
      | None => Err UnboundId
      end
  end.

Fixpoint eval (n : nat) (rho : env) (t : tm) {struct n} : outcome val :=
  match n with
  | O => OutOfFuel
  | S n =>
    match t with
    | Var x => match lookup x rho with
               | Some b => force_with (eval n) b
               | None => Err UnboundId
               end
    | Lam x b => Ok (VClo x b rho)
    | App f a =>
        bind (eval n rho f) (fun vf =>
          match vf with
          | VClo x b rho' => eval n ((x, BClos a rho) :: rho') b
          | _ => Err NotAFunc
          end)
    | Let x e b => eval n ((x, BClos e rho) :: rho) b
    | LetRec x e b => eval n ((x, BRec true [(x, e)] rho x) :: rho) b
    | Num z => Ok (VNum z)
    | Str s => Ok (VStr s)
    | Bool b => Ok (VBool b)
    | Bin o a b =>
        bind (eval n rho a) (fun va => bind (eval n rho b) (fun vb => binop_sem o va vb))
    | If c t1 t2 =>
        bind (eval n rho c) (fun vc =>
          match vc with
          | VBool true => eval n rho t1
          | VBool false => eval n rho t2
          | _ => Err TypeErr
          end)
    | Arr es => Ok (VArr (map (fun e => BClos e rho) es))
    | At i a =>
        bind (eval n rho i) (fun vi => bind (eval n rho a) (fun va =>
          bind (at_sem vi va) (fun b => force_with (eval n) b)))
    | Rec fs => Ok (VRec (map (field_binding fs rho) fs))
    | Get e f =>
        bind (eval n rho e) (fun ve =>
          match ve with
          | VRec bs => match lookup f bs with
                       | Some b => force_with (eval n) b
                       | None => Err FieldMissing
                       end
          | _ => Err TypeErr
          end)
    | Seq a b => bind (eval n rho a) (fun _ => eval n rho b)
    | Fail => Err Blame
    | Import f => match lookup f fl with
                  | Some e => eval n [] e
                  | None => Err ImportErr
                  end
    end
  end.

Definition force (n : nat) (b : binding) : outcome val := force_with (eval n) b.

(* sequence a list of computations left to right *)
Fixpoint seq_list {A B} (f : A -> outcome B) (l : list A) : outcome (list B) :=
  match l with
  | [] => Ok []
  | a :: l' => bind (f a) (fun b => bind (seq_list f l') (fun bs => Ok (b :: bs)))
  end.

(* deep evaluation to a data tree (%force% as used by eval_full_for_export).  Elements are forced
   last to first (operation.rs: Force folds the elements into nested seq's, last one outermost).
   Functions stay in the tree as [DFun]; serialisability is checked on the final tree. *)
Fixpoint export (n : nat) (v : val) {struct n} : outcome data :=
  match n with
  | O => OutOfFuel
  | S n =>
    match v with
    | VNum z => Ok (DNum z)
    | VStr s => Ok (DStr s)
    | VBool b => Ok (DBool b)
    | VClo _ _ _ => Ok DFun
    | VArr es =>
        bind (seq_list (fun b => bind (force n b) (export n)) (rev es))
             (fun ds => Ok (DArr (rev ds)))
    | VRec fs =>
        bind (seq_list (fun p => bind (bind (force n (snd p)) (export n))
                                   (fun d => Ok (fst p, d))) (rev fs))
             (fun ds => Ok (DRec (rev ds)))
    end
  end.

Definition export_b (n : nat) (b : binding) : outcome data := bind (force n b) (export n).

(* whole-program result *)
Definition run (n : nat) (rho : env) (t : tm) : outcome data := bind (eval n rho t) (export n).
Definition run_checked (n : nat) (rho : env) (t : tm) : outcome data := check_exportable (run n rho t).

(* field-path extraction as in extract_field_impl + eval_full_for_export: evaluate only the spine *)
Fixpoint extract_b (n : nat) (b : binding) (path : list string) : outcome data :=
  match path with
  | [] => export_b n b
  | f :: p =>
      match force n b with
      | Ok (VRec fs) => match lookup f fs with
                        | Some b' => extract_b n b' p
                        | None => Err FieldMissing
                        end
      | Ok _ => Err QueryNonRecord
      | Err e => Err e
      | OutOfFuel => OutOfFuel
      end
  end.

Definition extract (n : nat) (rho : env) (t : tm) (path : list string) : outcome data :=
  extract_b n (BClos t rho) path.

End WithFiles.
