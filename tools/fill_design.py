#!/usr/bin/env python3
"""Replace the seeded-change table of DESIGN.md section 12 by the output of tools/seedtable.py."""
import subprocess
p = "/verif/DESIGN.md"
s = open(p).read()
b, e = "<!-- SEEDED_TABLE_BEGIN -->\n", "<!-- SEEDED_TABLE_END -->"
t = subprocess.run(["python3", "/verif/tools/seedtable.py"], stdout=subprocess.PIPE, text=True).stdout
s = s[:s.index(b) + len(b)] + t + s[s.index(e):]
open(p, "w").write(s)
