#!/usr/bin/env python3
"""Print the markdown table of DESIGN.md section 12 from seeded/*/{meta,verified,detected_first,detected}.json."""
import glob
import json
import os

rows = []
for d in sorted(glob.glob("/verif/seeded/*/")):
    name = os.path.basename(d.rstrip("/"))
    meta = json.load(open(d + "meta.json"))

    def load(f):
        return json.load(open(d + f)) if os.path.exists(d + f) else None
    first, last = load("detected_first.json"), load("detected.json")
    if first is None:
        first = last

    def fmt(det):
        if not det:
            return "not run"
        hit = [c for c, r in det["checks"].items() if r["exit"] != 0 and r["violations"]]
        nf = [c for c in hit if all(v.rstrip().endswith("no-failing-input-found") for v in det["checks"][c]["violations"])]
        if not hit:
            return "missed"
        return ", ".join(c + (" (no failing input)" if c in nf else "") for c in hit)
    what = meta.get("needs_to_manifest", "").replace("|", "/").replace("\n", " ")
    if len(what) > 230:
        what = what[:227] + "..."
    rows.append("| %s | %s | %s | %s |" % (name, what, meta.get("first_result") or fmt(first), fmt(last)))
print("| change | what it breaks / needs to manifest | first run (quick tier) | after strengthening (quick tier) |")
print("|--------|-----------------------------------|------------------------|----------------------------------|")
print("\n".join(rows))
