#!/usr/bin/env python3
"""Validate a seeded change and run the checks against it.

  tools/seedtest.py verify <dir>     in a scratch worktree of /repo (outside /repo and /verif): the patch applies and
                                     compiles, the repository's test suite still passes with it, the demonstration fails
                                     with it and passes without it.  Writes <dir>/verified.json.
  tools/seedtest.py detect <dir> [tier]
                                     apply the patch to /repo, run the quick (or thorough) check of the property named in
                                     <dir>/meta.json (and of meta["also_checks"]), undo the patch (git checkout -- .), record
                                     which checks reported a VIOLATION in <dir>/detected.json.
  tools/seedtest.py cleanup          remove the scratch worktree and its build output.
"""
import json
import os
import subprocess
import sys
import time

WT = "/tmp/seed-wt"
TGT = "/tmp/seed-wt-target"
REPO = "/repo"


def sh(cmd, cwd=None, timeout=7200, env=None):
    e = dict(os.environ, CARGO_NET_OFFLINE="true")
    if env:
        e.update(env)
    p = subprocess.run(cmd, cwd=cwd, shell=isinstance(cmd, str), env=e, timeout=timeout,
                       stdout=subprocess.PIPE, stderr=subprocess.STDOUT, text=True, errors="replace")
    return p.returncode, p.stdout


def ensure_wt():
    if not os.path.isdir(WT):
        rc, out = sh(["git", "-C", REPO, "worktree", "add", "--detach", WT, "HEAD"])
        if rc:
            raise SystemExit(out)
    else:
        sh(["git", "checkout", "--detach", "-q", sh(["git", "-C", REPO, "rev-parse", "HEAD"])[1].strip()], cwd=WT)
        sh(["git", "checkout", "--", "."], cwd=WT)
        sh(["git", "clean", "-fdq", "-e", "target"], cwd=WT)


def run_demo(d, meta, cwd):
    """demo = {"kind": "nickel", "program": ..., "expect_unchanged": <regex on stdout+stderr>}  evaluated with `cargo run`,
       or {"kind": "cmd", "cmd": "..."} run in the worktree (exit 0 = property holds)."""
    demo = meta["demo"]
    # the authors wrote their demo for <worktree>/MUTANT (or MUTANT2): put a copy of the seeded directory there
    import shutil
    od = os.path.join(cwd, meta.get("orig_dir", "MUTANT"))
    if os.path.isdir(od):
        shutil.rmtree(od)
    shutil.copytree(d, od, ignore=shutil.ignore_patterns("verified.json*", "detected.json"))
    if demo["kind"] == "cmd":
        rc, out = sh(demo["cmd"], cwd=cwd, env={"CARGO_TARGET_DIR": TGT, "SEED_DIR": os.path.abspath(d)})
        return rc == 0, out[-3000:]
    raise SystemExit("unknown demo kind")


def verify(d):
    meta = json.load(open(os.path.join(d, "meta.json")))
    patch = os.path.abspath(os.path.join(d, "patch.diff"))
    ensure_wt()
    res = {"at": time.strftime("%F %T"), "repo_head": sh(["git", "-C", REPO, "rev-parse", "HEAD"])[1].strip()}
    ok0, out0 = run_demo(d, meta, WT)
    res["demo_passes_without_change"] = ok0
    rc, out = sh(["git", "apply", "--check", patch], cwd=WT)
    res["applies"] = rc == 0
    if rc:
        res["apply_error"] = out[-1000:]
    else:
        sh(["git", "apply", patch], cwd=WT)
        ok1, out1 = run_demo(d, meta, WT)
        res["demo_fails_with_change"] = not ok1
        res["demo_output_with_change"] = out1[-1500:]
        t = time.time()
        rc, out = sh("cargo nextest run --workspace --no-fail-fast --test-threads 8 --retries 2 --offline 2>&1 | tail -40", cwd=WT,
                     env={"CARGO_TARGET_DIR": TGT}, timeout=10800)
        res["test_suite_s"] = round(time.time() - t)
        res["test_suite_tail"] = out[-2500:]
        res["test_suite_passes"] = ("passed" in out and "failed" not in out.split("Summary")[-1]) if "Summary" in out else False
        sh(["git", "checkout", "--", "."], cwd=WT)
    json.dump(res, open(os.path.join(d, "verified.json"), "w"), indent=1)
    print(json.dumps({k: v for k, v in res.items() if not k.endswith("tail") and not k.startswith("demo_output")}, indent=1))


def detect(d, tier="quick"):
    meta = json.load(open(os.path.join(d, "meta.json")))
    patch = os.path.abspath(os.path.join(d, "patch.diff"))
    rc, out = sh(["git", "-C", REPO, "status", "--porcelain", "--untracked-files=no"])
    if out.strip():
        raise SystemExit("/repo has uncommitted changes:\n" + out)
    rc, out = sh(["git", "-C", REPO, "apply", patch])
    if rc:
        raise SystemExit("patch does not apply to /repo: " + out)
    res = {"at": time.strftime("%F %T"), "tier": tier, "checks": {},
           "repo_head": sh(["git", "-C", REPO, "rev-parse", "--short", "HEAD"])[1].strip(),
           "verif_head": sh(["git", "-C", "/verif", "rev-parse", "--short", "HEAD"])[1].strip()}
    smart = os.environ.get("SEEDTEST_SMART") == "1"      # neighbouring checks only when the property's own check misses
    try:
        for pid in [meta["property"]] + meta.get("also_checks", []):
            if smart and pid != meta["property"] and any(
                    r["exit"] != 0 and r["violations"] and not all(v.rstrip().endswith("no-failing-input-found") for v in r["violations"])
                    for r in res["checks"].values()):
                break
            t = time.time()
            rc, out = sh(["./verif", "check", pid, "--tier", tier], cwd="/verif", timeout=7200)
            viol = [l for l in out.split("\n") if l.startswith("VIOLATION")]
            res["checks"][pid] = {"exit": rc, "violations": viol[:5], "wall_s": round(time.time() - t),
                                  "tail": out[-1200:] if rc == 0 else ""}
            print(pid, "exit", rc, viol[:2])
    finally:
        sh(["git", "-C", REPO, "checkout", "--", "."])
    out = os.path.join(d, "detected.json")
    first = os.path.join(d, "detected_first.json")
    if os.path.exists(out) and not os.path.exists(first):
        os.rename(out, first)          # keep the result of the first detection run (before any strengthening)
    json.dump(res, open(out, "w"), indent=1)


if __name__ == "__main__":
    if sys.argv[1] == "verify":
        verify(sys.argv[2])
    elif sys.argv[1] == "detect":
        detect(sys.argv[2], sys.argv[3] if len(sys.argv) > 3 else "quick")
    elif sys.argv[1] == "cleanup":
        sh(["git", "-C", REPO, "worktree", "remove", "--force", WT])
        sh(["rm", "-rf", TGT])
